"""Extraction: re-reads the real source of /repo on every run (nothing cached between runs).

What extraction drops is listed in DROPPED and copied into every evidence file.
"""
import ast
import hashlib
import os

REPO = os.environ.get("VERIF_REPO", "/repo")
SRC = os.path.join(REPO, "src")

DROPPED = [
    "docstrings and comments",
    "type annotations (used only to choose SMT sorts; sidecar `types` override them)",
    "typing.cast(T, e) -> e ; Generic subscription C[T](...) -> C(...)",
    "calls to trace_component_msg / trace_node_msg / logger.* are no-ops after evaluating nothing (A-LOG)",
    "decorators: @contextmanager / @lru_cache / @property / @classmethod / @staticmethod are interpreted, others are an extraction error",
]


class ExtractionError(Exception):
    pass


class FuncInfo:
    def __init__(self, module, qualname, node, cls=None):
        self.module, self.qualname, self.node, self.cls = module, qualname, node, cls
        self.decorators = [ast.unparse(d) for d in node.decorator_list]

    @property
    def fq(self):
        return f"{self.module.name}:{self.qualname}"

    def sha(self):
        return hashlib.sha256(ast.dump(self.node).encode()).hexdigest()[:16]

    def loc(self):
        return (self.node.end_lineno or self.node.lineno) - self.node.lineno + 1


class Module:
    def __init__(self, name, path):
        self.name, self.path = name, path
        with open(path, "r", encoding="utf-8") as f:
            self.source = f.read()
        self.tree = ast.parse(self.source, filename=path)
        self.funcs = {}
        self.classes = {}
        self.consts = {}      # name -> ast expression of a top-level assignment
        self.imports = {}     # local name -> ("module", dotted) | ("from", module, name)
        self._index(self.tree.body, prefix="", cls=None)

    def _index_closures(self, fn, path):
        """closures defined anywhere inside fn (directly or inside its compound statements, and closures of closures):
        addressable as outer.inner[.inner2]; the first definition of a name wins (as for a reader of the text)"""
        def walk(stmts):
            for sub in stmts:
                if isinstance(sub, ast.FunctionDef):
                    name = path + "." + sub.name
                    if name not in self.funcs:
                        self.funcs[name] = FuncInfo(self, name, sub, None)
                        self._index_closures(sub, name)
                elif isinstance(sub, (ast.ClassDef, ast.AsyncFunctionDef)):
                    continue
                else:
                    for fld in ("body", "orelse", "finalbody"):
                        walk(getattr(sub, fld, []) or [])
                    for h in getattr(sub, "handlers", []) or []:
                        walk(h.body)
        walk(fn.body)

    def _index(self, body, prefix, cls):
        for st in body:
            if isinstance(st, (ast.FunctionDef,)):
                self.funcs[prefix + st.name] = FuncInfo(self, prefix + st.name, st, cls)
                # closures defined directly in the body: addressable as outer.inner (their free variables are declared
                # by the contract like module globals: symbolic, fixed for the duration of the call)
                self._index_closures(st, prefix + st.name)
            elif isinstance(st, ast.ClassDef):
                self.classes[prefix + st.name] = st
                self._index(st.body, prefix + st.name + ".", st.name)
            elif isinstance(st, ast.Assign) and not prefix:
                for t in st.targets:
                    if isinstance(t, ast.Name):
                        self.consts[t.id] = st.value
            elif isinstance(st, ast.AnnAssign) and not prefix and st.value is not None and isinstance(st.target, ast.Name):
                self.consts[st.target.id] = st.value
            elif isinstance(st, ast.Assign) and prefix and cls:
                for t in st.targets:
                    if isinstance(t, ast.Name):
                        self.consts[prefix + t.id] = st.value
            elif isinstance(st, ast.Import) and not prefix:
                for a in st.names:
                    self.imports[a.asname or a.name.split(".")[0]] = ("module", a.name if a.asname else a.name.split(".")[0])
            elif isinstance(st, ast.ImportFrom) and not prefix:
                for a in st.names:
                    self.imports[a.asname or a.name] = ("from", st.module, a.name)
            elif isinstance(st, ast.If) and not prefix:
                # `if TYPE_CHECKING:` imports
                self._index(st.body, prefix, cls)


_modules = {}


def load_module(name):
    if name not in _modules:
        rel = name.replace(".", "/")
        for cand in (os.path.join(SRC, rel + ".py"), os.path.join(SRC, rel, "__init__.py")):
            if os.path.exists(cand):
                _modules[name] = Module(name, cand)
                break
        else:
            raise ExtractionError(f"module {name} not found under {SRC}")
    return _modules[name]


def get_func(fq):
    modname, qual = fq.split(":")
    m = load_module(modname)
    if qual not in m.funcs:
        raise ExtractionError(f"function {fq} not found in {m.path} (renamed or removed?)")
    return m.funcs[qual]


def is_repo_module(name):
    rel = name.replace(".", "/")
    return os.path.exists(os.path.join(SRC, rel + ".py")) or os.path.exists(os.path.join(SRC, rel, "__init__.py"))


def all_repo_modules(pkg="django_components"):
    out = []
    base = os.path.join(SRC, pkg)
    for root, _dirs, files in os.walk(base):
        for f in files:
            if f.endswith(".py"):
                rel = os.path.relpath(os.path.join(root, f), SRC)[:-3].replace(os.sep, ".")
                if rel.endswith(".__init__"):
                    rel = rel[: -len(".__init__")]
                out.append(rel)
    return sorted(out)
