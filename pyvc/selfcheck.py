"""CPython differential of the executor (A-PY): every program of selfcheck/repo/src/scprogs/progs.py is executed symbolically with
its arguments pinned to the concrete values of selfcheck/cases.py; the symbolic outcome (result term or exception class) must
be PROVABLY equal to what CPython computes for the same call.  A mismatch means pyvc mis-models Python: exit 3.

Run through `./check selfcheck` (which sets VERIF_REPO to the selfcheck tree before pyvc.repo is imported)."""
import importlib
import json
import os
import sys
import time
import typing

import z3

VERIF = os.path.dirname(os.path.dirname(os.path.abspath(__file__)))


def _ty(ann):
    from .types import TBool, TDict, TInt, TOpt, TSeq, TStr, TTup
    origin = typing.get_origin(ann)
    args = typing.get_args(ann)
    if ann is str:
        return TStr
    if ann is int:
        return TInt
    if ann is bool:
        return TBool
    if origin is typing.Union and len(args) == 2 and type(None) in args:
        return TOpt(_ty([a for a in args if a is not type(None)][0]))
    if origin in (list, typing.List):
        return TSeq(_ty(args[0]))
    if origin in (set, typing.Set):
        from .types import TSet
        return TSet(_ty(args[0]))
    if origin in (dict, typing.Dict):
        return TDict(_ty(args[0]), _ty(args[1]))
    if origin in (tuple, typing.Tuple):
        return TTup([_ty(a) for a in args])
    raise ValueError(f"annotation {ann}")


def _term(ty, v):
    from .types import TBool, TDict, TInt, TOpt, TSeq, TStr, TTup
    if ty is TStr:
        return z3.StringVal(v)
    if ty is TInt:
        return z3.IntVal(v)
    if ty is TBool:
        return z3.BoolVal(v)
    if isinstance(ty, TOpt):
        return ty.none() if v is None else ty.some(_term(ty.inner, v))
    if isinstance(ty, TSeq):
        if not v:
            return z3.Empty(ty.sort())
        units = [z3.Unit(_term(ty.elem, x)) for x in v]
        return z3.Concat(*units) if len(units) > 1 else units[0]
    if isinstance(ty, TTup):
        return ty.mk(*[_term(t, x) for t, x in zip(ty.items, v)])
    if isinstance(ty, TDict):
        has = z3.K(ty.k.sort(), z3.BoolVal(False))
        val = z3.K(ty.k.sort(), _term(ty.v, 0 if ty.v.name == "Int" else ""))
        for k, x in v.items():
            has = z3.Store(has, _term(ty.k, k), True)
            val = z3.Store(val, _term(ty.k, k), _term(ty.v, x))
        return ty.mk(has, val, z3.IntVal(len(v)))
    raise ValueError(f"value of {ty}")


def _equal(ty, t, v):
    """symbolic value t of type ty equals the Python value v"""
    from .types import TDict, TOpt, TSeq, TTup
    if isinstance(ty, TDict):
        kq = z3.FreshConst(ty.k.sort(), "kq")
        member = z3.Or(*[kq == _term(ty.k, k) for k in v]) if v else z3.BoolVal(False)
        return z3.And(ty.size(t) == len(v), z3.ForAll([kq], z3.Select(ty.has(t), kq) == member),
                      *[z3.Select(ty.val(t), _term(ty.k, k)) == _term(ty.v, x) for k, x in v.items()])
    if isinstance(ty, TTup):
        return z3.And(*[_equal(it, ty.proj(t, i), x) for i, (it, x) in enumerate(zip(ty.items, v))])
    if isinstance(ty, TOpt) and v is not None and isinstance(ty.inner, (TDict, TTup)):
        return z3.And(z3.Not(ty.is_none(t)), _equal(ty.inner, ty.get(t), v))
    return t == _term(ty, v)


def main():
    sys.path.insert(0, os.path.join(VERIF, "selfcheck"))
    sys.path.insert(0, os.path.join(VERIF, "selfcheck", "repo", "src"))
    from . import solve
    from .contracts import REG, Contract
    from .engine import Explorer
    from .interp import EngineError
    from .repo import REPO, ExtractionError
    if not REPO.endswith(os.path.join("selfcheck", "repo")):
        print("CHECKER-FAILURE selfcheck must run with VERIF_REPO=<verif>/selfcheck/repo")
        return 3
    importlib.import_module("contracts.stubs_python")
    progs = importlib.import_module("scprogs.progs")
    cases_mod = importlib.import_module("cases")
    cases = cases_mod.CASES
    local_types = {f: {n: _ty(a) for n, a in d.items()} for f, d in getattr(cases_mod, "LOCALS", {}).items()}
    from .types import TRef
    for cname, fields in getattr(cases_mod, "HEAP", {}).items():
        REG.heap_class(cname, {f: (TRef(a) if isinstance(a, str) else _ty(a)) for f, a in fields.items()}, module="scprogs.progs")
    t0 = time.time()
    obligations, meta, problems = [], [], []
    heap_mods = [f"{cn}.{f}" for cn, fs in getattr(cases_mod, "HEAP", {}).items() for f in fs]
    n_cases = 0
    for fname, arglists in cases.items():
        fn = getattr(progs, fname)
        hints = typing.get_type_hints(fn)
        names = list(fn.__code__.co_varnames[:fn.__code__.co_argcount])
        ptys = {n: _ty(hints[n]) for n in names}
        rty = _ty(hints["return"])
        for ci, args in enumerate(arglists):
            n_cases += 1
            try:
                want = ("ok", fn(*[list(a) if isinstance(a, list) else (dict(a) if isinstance(a, dict) else a) for a in args]))
            except Exception as e:      # noqa: BLE001
                want = ("raise", type(e).__name__)
            reqs = [(lambda n_, v_: (lambda c: _equal(ptys[n_], c[n_].t, v_)))(n, v) for n, v in zip(names, args)]
            if want[0] == "ok":
                c = Contract(f"scprogs.progs:{fname}", prop="selfcheck", types=dict(ptys), result=rty, requires=reqs, modifies=heap_mods, raises={}, locals=local_types.get(fname, {}),
                             ensures={"equals_cpython": (lambda w: lambda c_: _equal(rty, c_["result"].t, w))(want[1])})
            else:
                c = Contract(f"scprogs.progs:{fname}", prop="selfcheck", types=dict(ptys), result=rty, requires=reqs, modifies=heap_mods, raises={want[1]: None}, locals=local_types.get(fname, {}),
                             ensures={"cpython_raises_here": lambda c_: z3.BoolVal(False)})
            try:
                obs = Explorer(REG, c).explore()
            except (EngineError, ExtractionError) as e:
                problems.append({"program": fname, "args": repr(args), "cpython": repr(want), "pyvc": f"cannot execute: {e}"[:200]})
                continue
            obs = [o for o in obs if o.kind != "cover"]
            for o in obs:
                obligations.append(o)
                meta.append((fname, args, want, o.name))
    results = solve.solve_obligations(obligations)
    # not proved equal: either pyvc models the operation ABSTRACTLY (uninterpreted function: CPython's answer must then be
    # CONSISTENT with the path condition) or it models it WRONGLY (CPython's answer is excluded: mismatch)
    again, again_meta, abstract_exc = [], [], []
    abstract_ok = set(getattr(cases_mod, "ABSTRACT_OK", ()))
    decided = 0
    for (fname, args, want, oname), r, o in zip(meta, results, obligations):
        if r["verdict"] == "unsat":
            decided += 1
        elif oname.startswith("post#equals_cpython"):
            from .interp import Obligation
            again.append(Obligation("consistent#" + oname, list(o.pc), o.goal, o.unit, o.path, "cover", expect_sat=True))
            again_meta.append((fname, args, want))
        elif fname in abstract_ok:
            abstract_exc.append(f"{fname}{args!r}")
        else:
            problems.append({"program": fname, "args": repr(args), "cpython": repr(want), "pyvc": f"obligation {oname}: {r['verdict']} ({r.get('backend')})"})
    abstract = list(dict.fromkeys(abstract_exc))
    for (fname, args, want), r in zip(again_meta, solve.solve_obligations(again)):
        if r["verdict"] == "sat":
            abstract.append(f"{fname}{args!r}")
        else:
            problems.append({"program": fname, "args": repr(args), "cpython": repr(want), "pyvc": f"CPython's result is EXCLUDED by the symbolic execution ({r['verdict']})"})
    out = {"programs": len(cases), "concrete_points": n_cases, "obligations": len(obligations), "proved_equal_to_cpython": decided,
           "modelled_abstractly_but_consistent_with_cpython": abstract, "mismatches": problems[:20], "wall_s": round(time.time() - t0, 1)}
    os.makedirs(os.path.join(VERIF, "tmp"), exist_ok=True)
    with open(os.path.join(VERIF, "tmp", "selfcheck.json"), "w") as f:
        json.dump(out, f, indent=1)
    for p in problems[:20]:
        print(f"SELFCHECK-MISMATCH {p['program']}{p['args']}: CPython {p['cpython']} but pyvc: {p['pyvc']}")
    print(f"[selfcheck] {'ok' if not problems else 'MISMATCH'}: {len(cases)} programs, {n_cases} concrete points, {len(obligations)} obligations ({decided} proved equal, {len(abstract)} abstract but consistent), {len(problems)} mismatches, {out['wall_s']}s")
    return 0 if not problems else 3


if __name__ == "__main__":
    sys.exit(main())
