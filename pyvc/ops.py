"""Semantics of Python operators, builtins and container/str methods over symbolic values.

Every partial operation raises exactly where CPython does (IndexError, KeyError, TypeError ...)
through Run.implicit_raise, i.e. as a forked raising path - never silently assumed away.
"""
import ast

import z3

from .types import (NONE, Conc, TAny, TBool, TDict, TInt, TNone, TObj, TOpt, TRef, TSeq, TSet, TStr, TTup, Val, VTuple,
                    mk_bool, mk_int, mk_str)

# ---- uninterpreted helpers (axiomatised where contracts need it; see pyvc/axioms.py)
_ufs = {}


def uf(name, *sorts):
    if name not in _ufs:
        _ufs[name] = z3.Function(name, *sorts)
    return _ufs[name]


S, I, B = z3.StringSort(), z3.IntSort(), z3.BoolSort()


def keypos(K, k):
    """Position of key k in the enumeration K produced by list(d.keys()) (see builtins.dict_keys_enum)."""
    return uf(f"keypos_{K.sort().name()}_{k.sort().name()}", K.sort(), k.sort(), z3.IntSort())(K, k)


def str_count(s, sub):
    return uf("str_count", S, S, I)(s, sub)


def str_strip(s):
    return uf("str_strip", S, S)(s)


def str_lower(s):
    return uf("str_lower", S, S)(s)


def str_join(sep, seq):
    return uf("str_join", S, z3.SeqSort(S), S)(sep, seq)


def str_of_int(i):
    return z3.IntToStr(i)


def err(msg):
    from .interp import EngineError
    return EngineError(msg)


def wf_conds(v, run):
    """Typing invariants of a freshly introduced value."""
    out = []
    if not isinstance(v, Val):
        return out
    ty, t = v.ty, v.t
    if isinstance(ty, TRef):
        out.append(z3.And(t >= 0, t < run.next_ref))
    elif isinstance(ty, TDict):
        out.append(ty.size(t) >= 0)
        kd = z3.FreshConst(ty.k.sort(), "k")
        out.append(z3.ForAll([kd], z3.Implies(z3.Select(ty.has(t), kd), ty.size(t) >= 1)))
        if ty.ordered:
            # the insertion order lists keys of the dict (true of every Python dict; kept by every operation of the model:
            # a new key is appended when it is stored, a removed key is taken out of the order)
            q = z3.FreshConst(z3.IntSort(), "oq")
            out.append(z3.ForAll([q], z3.Implies(z3.And(0 <= q, q < z3.Length(ty.order(t))), z3.Select(ty.has(t), ty.order(t)[q]))))
    elif isinstance(ty, TSet):
        out.append(ty.size(t) >= 0)
        # finite-set cardinality facts (true of every Python set): a member implies size >= 1
        k = z3.FreshConst(ty.k.sort(), "k")
        out.append(z3.ForAll([k], z3.Implies(z3.Select(ty.has(t), k), ty.size(t) >= 1)))
        # ... and a non-empty set has an element (choice function)
        out.append(z3.Implies(ty.size(t) > 0, z3.Select(ty.has(t), uf(f"choice_{ty.name}", ty.sort(), ty.k.sort())(t))))
    elif isinstance(ty, TOpt) and isinstance(ty.inner, (TRef,)):
        out.append(z3.Implies(z3.Not(ty.is_none(t)), z3.And(ty.get(t) > 0, ty.get(t) < run.next_ref)))
    elif isinstance(ty, TOpt) and isinstance(ty.inner, (TDict, TSet)):
        for cnd in wf_conds(Val(ty.inner, ty.get(t)), run):
            out.append(z3.Implies(z3.Not(ty.is_none(t)), cnd))
    return out


def truth(run, v):
    if isinstance(v, z3.BoolRef):
        return v
    if isinstance(v, bool):
        return z3.BoolVal(v)
    if isinstance(v, VTuple):
        return z3.BoolVal(len(v.items) > 0)
    if isinstance(v, Conc):
        if v.obj is None:
            return z3.BoolVal(False)
        return z3.BoolVal(True)
    ty, t = v.ty, v.t
    if ty is TBool:
        return t
    if ty is TInt:
        return t != 0
    if ty is TStr:
        return z3.Length(t) > 0
    if ty is TNone:
        return z3.BoolVal(False)
    if isinstance(ty, TOpt):
        return z3.And(z3.Not(ty.is_none(t)), truth(run, Val(ty.inner, ty.get(t))))
    if isinstance(ty, TSeq):
        return z3.Length(t) > 0
    if isinstance(ty, TDict):
        return ty.size(t) > 0
    if isinstance(ty, TSet):
        return ty.size(t) > 0
    if isinstance(ty, TRef):
        return t != 0
    if isinstance(ty, TTup):
        h = run.x.reg.stubs.get(("truth", ty.name))
        if h is not None:
            return h(run, v)
        return z3.BoolVal(len(ty.items) > 0)
    if ty is TAny:
        P = TAny.sort()
        return z3.Or(
            z3.And(P.is_BoolV(t), P.b(t)),
            z3.And(P.is_IntV(t), P.i(t) != 0),
            z3.And(P.is_StrV(t), z3.Length(P.s(t)) > 0),
            z3.And(P.is_SafeV(t), z3.Length(P.ss(t)) > 0),
            P.is_ObjV(t),
        )
    if isinstance(ty, TObj):
        h = run.x.reg.stubs.get(("truth", ty.name))
        if h is not None:
            return h(run, v)
        return uf(f"truthy_{ty.name}", ty.sort(), B)(t)
    raise err(f"truthiness of {ty}")


def falsy_of(run, v):
    return v


def ite(run, c, a, b):
    if isinstance(a, Val) and isinstance(b, Val):
        if a.ty != b.ty:
            if a.ty is TNone and not isinstance(b.ty, TOpt):
                a = run.coerce(a, TOpt(b.ty)); b = run.coerce(b, TOpt(b.ty))
            elif b.ty is TNone and not isinstance(a.ty, TOpt):
                b = run.coerce(b, TOpt(a.ty)); a = run.coerce(a, TOpt(a.ty))
            elif isinstance(a.ty, TOpt):
                b = run.coerce(b, a.ty)
            elif isinstance(b.ty, TOpt):
                a = run.coerce(a, b.ty)
            elif run.x.reg.stubs.get(("coerce", b.ty.name, a.ty.name)):
                b = run.x.reg.stubs[("coerce", b.ty.name, a.ty.name)](run, b, a.ty)
            elif run.x.reg.stubs.get(("coerce", a.ty.name, b.ty.name)):
                a = run.x.reg.stubs[("coerce", a.ty.name, b.ty.name)](run, a, b.ty)
            else:
                raise err(f"if-expression with different types {a.ty} / {b.ty}")
        return Val(a.ty, z3.If(c, a.t, b.t))
    raise err("if-expression over non-symbolic values in spec")


def unopt(run, v, node, what="operand"):
    """Use an Optional[T] as T: TypeError/AttributeError in CPython if it is None."""
    if isinstance(v, Val) and isinstance(v.ty, TOpt):
        run.implicit_raise(z3.Not(v.ty.is_none(v.t)), "TypeError", node, f"{what} is None")
        return Val(v.ty.inner, v.ty.get(v.t))
    return v


def to_str(run, v, node):
    v = unopt_soft(v)
    if isinstance(v, Val):
        if v.ty is TStr:
            return v
        h = run.x.reg.stubs.get(("tostr", v.ty.name))
        if h is not None:
            return h(run, v)
        if v.ty is TInt:
            return Val(TStr, z3.If(v.t >= 0, z3.IntToStr(v.t), z3.Concat(z3.StringVal("-"), z3.IntToStr(-v.t))))
        if isinstance(v.ty, TObj):
            return Val(TStr, uf(f"str_{v.ty.name}", v.ty.sort(), S)(v.t))
        if v.ty is TBool:
            return Val(TStr, z3.If(v.t, z3.StringVal("True"), z3.StringVal("False")))
        if v.ty is TNone:
            return mk_str("None")
        if isinstance(v.ty, TOpt):
            inner = to_str(run, Val(v.ty.inner, v.ty.get(v.t)), node)
            return Val(TStr, z3.If(v.ty.is_none(v.t), z3.StringVal("None"), inner.t))
        if v.ty is TAny:
            return Val(TStr, uf("str_PyVal", TAny.sort(), S)(v.t))
        if isinstance(v.ty, (TSeq, TTup, TDict, TSet, TRef)):
            return Val(TStr, uf(f"str_{v.ty.name}", v.ty.sort(), S)(v.t))
    if isinstance(v, Conc):
        from .interp import ExcVal
        if isinstance(v.obj, ExcVal):
            return Val(TStr, z3.FreshConst(S, "excstr"))
        return Val(TStr, z3.FreshConst(S, "repr"))
    if isinstance(v, VTuple):
        return Val(TStr, z3.FreshConst(S, "tuprepr"))
    raise err(f"str() of {v}")


def unopt_soft(v):
    return v


# ------------------------------------------------------------------ sequences
def seq_from_items(run, items, ty):
    if ty is None:
        first = items[0]
        if isinstance(first, VTuple):
            raise err("list of tuples needs a declared type")
        # an Optional element that cannot be None on this path is an element of the inner type
        def _narrow(it):
            if isinstance(it, Val) and isinstance(it.ty, TOpt) and not run.spec:
                try:
                    if not run.feasible(it.ty.is_none(it.t)):
                        return Val(it.ty.inner, it.ty.get(it.t))
                except z3.Z3Exception:
                    pass
            return it
        items = [_narrow(it) for it in items]
        first = items[0]
        ety = first.ty
        for it in items[1:]:
            if it.ty != ety:
                if isinstance(ety, TOpt) or it.ty is TNone:
                    ety = TOpt(ety.inner if isinstance(ety, TOpt) else ety)
                elif ety is TNone:
                    ety = TOpt(it.ty)
                else:
                    raise err(f"heterogeneous list display {ety} / {it.ty}")
        ty = TSeq(ety)
    if not items:
        return Val(ty, z3.Empty(ty.sort()))
    units = [z3.Unit(run.coerce(i, ty.elem).t) for i in items]
    return Val(ty, z3.Concat(*units) if len(units) > 1 else units[0])


def norm_index(i, n, run=None):
    i = z3.simplify(i)
    if z3.is_int_value(i):
        return i if i.as_long() >= 0 else z3.simplify(i + n)
    if run is not None and not run.spec:
        try:
            if not run.feasible(i < 0):
                return i          # provably non-negative on this path: no wrap-around term
        except z3.Z3Exception:
            pass
    return z3.If(i < 0, i + n, i)


def _unmodelled(run, base, node, what):
    if isinstance(base, Conc) and isinstance(base.obj, tuple) and base.obj[0] == "unmodelled_global":
        from .interp import PathEnd
        run.oblige(f"frame#{base.obj[1]}", z3.BoolVal(False), kind="frame",
                   note=f"{run.x.c.fq} {what} the module-level object `{base.obj[1]}` at line {getattr(node, 'lineno', '?')}, which is outside the footprint of its contract")
        raise PathEnd()


def getitem(run, base, key, node):
    _unmodelled(run, base, node, "reads")
    if isinstance(base, VTuple):
        if isinstance(key, Val) and key.ty is TInt:
            k = z3.simplify(key.t)
            if z3.is_int_value(k):
                idx = k.as_long()
                if -len(base.items) <= idx < len(base.items):
                    return base.items[idx]
                run.implicit_raise(z3.BoolVal(False), "IndexError", node)
            # symbolic index into static tuple of same-typed items
            items = base.items
            run.implicit_raise(z3.And(key.t >= -len(items), key.t < len(items)), "IndexError", node)
            ni = norm_index(key.t, len(items))
            res = items[-1].t
            for j in range(len(items) - 2, -1, -1):
                res = z3.If(ni == j, items[j].t, res)
            return Val(items[0].ty, res)
        raise err("tuple index must be int")
    base = unopt(run, base, node, "subscripted value")
    h = run.x.getitem_hook(base)
    if h is not None:
        return h(run, base, key, node)
    if isinstance(base, Conc):
        raise err(f"subscript of {base}")
    ty = base.ty
    if ty is TStr:
        key = run.coerce(unopt(run, key, node), TInt)
        n = z3.Length(base.t)
        run.implicit_raise(z3.And(key.t >= -n, key.t < n), "IndexError", node, "string index out of range")
        return Val(TStr, z3.SubString(base.t, norm_index(key.t, n, run), 1))
    if isinstance(ty, TSeq):
        key = run.coerce(unopt(run, key, node), TInt)
        n = z3.Length(base.t)
        run.implicit_raise(z3.And(key.t >= -n, key.t < n), "IndexError", node, "list index out of range")
        v = Val(ty.elem, base.t[norm_index(key.t, n, run)])
        run.wf(v)
        return v
    if isinstance(ty, TDict):
        key = run.coerce(key, ty.k)
        run.implicit_raise(z3.Select(ty.has(base.t), key.t), "KeyError", node)
        v = Val(ty.v, z3.Select(ty.val(base.t), key.t))
        run.wf(v)
        return v
    if isinstance(ty, TTup):
        k = z3.simplify(run.coerce(key, TInt).t)
        if z3.is_int_value(k):
            idx = k.as_long()
            if idx < 0:
                idx += len(ty.items)
            return Val(ty.items[idx], ty.proj(base.t, idx))
        raise err("symbolic index into record")
    h = run.x.getitem_hook(base)
    if h is not None:
        return h(run, base, key, node)
    raise err(f"subscript of {ty} (line {getattr(node, 'lineno', '?')})")


def py_slice_bounds(run, n, lo, hi, node):
    def b(x, default):
        if x is None or (isinstance(x, Val) and x.ty is TNone):
            return default
        if isinstance(x.ty, TOpt):
            inner = run.coerce(Val(x.ty.inner, x.ty.get(x.t)), TInt).t
            return z3.If(x.ty.is_none(x.t), default, clamp(inner))
        return clamp(run.coerce(x, TInt).t)

    def proved(cond):
        if run.spec:
            return False
        try:
            return not run.feasible(z3.Not(cond))
        except z3.Z3Exception:
            return False

    def clamp(i):
        i = z3.simplify(i)
        if not (z3.is_int_value(i) and i.as_long() >= 0) and not proved(i >= 0):
            i = z3.If(i < 0, z3.If(i + n < 0, 0, i + n), i)
        if proved(i <= n):
            return i
        return z3.If(i > n, n, i)

    return b(lo, z3.IntVal(0)), b(hi, n)


def getslice(run, base, lo, hi, node):
    base = unopt(run, base, node, "sliced value")
    if isinstance(base, VTuple):
        def k(x, d):
            if x is None:
                return d
            s = z3.simplify(x.t)
            if not z3.is_int_value(s):
                raise err("symbolic slice of static tuple")
            return s.as_long()
        return VTuple(base.items[k(lo, None):k(hi, None)])
    ty = base.ty
    if ty is TStr or isinstance(ty, TSeq):
        n = z3.Length(base.t)
        a, b = py_slice_bounds(run, n, lo, hi, node)
        a, b = run.try_const(a), run.try_const(b)
        if not run.spec and z3.is_int_value(a) and a.as_long() == 0 and not z3.is_int_value(b):
            try:
                if not run.feasible(b != n):
                    return base           # s[:len(s)] is s
            except z3.Z3Exception:
                pass
        ln = z3.simplify(b - a)
        if not (z3.is_int_value(ln) and ln.as_long() >= 0):
            try:
                if run.spec or run.feasible(b - a < 0):
                    ln = z3.If(b - a < 0, 0, b - a)
            except z3.Z3Exception:
                ln = z3.If(b - a < 0, 0, b - a)
        return Val(ty, z3.Extract(base.t, a, ln) if ty is not TStr else z3.SubString(base.t, a, ln))
    raise err(f"slice of {ty}")


def setitem(run, cont, key, v, node):
    _unmodelled(run, cont, node, "writes")
    if isinstance(cont, Conc) and cont.obj == ("emptydict",) and isinstance(key, Val) and isinstance(v, Val):
        # first store into a `{}` whose type nobody declared: a dict from the key's type to the value's type
        if isinstance(key.ty, TOpt):
            key = run.coerce(key, key.ty.inner)      # a None key would be a different dict type: obligation type#notnone
        dty = TDict(key.ty, v.ty)
        cont = Val(dty, dty.empty())
    cont = unopt(run, cont, node)
    ty = cont.ty
    if isinstance(ty, TDict):
        key = run.coerce(key, ty.k)
        v = run.coerce(v, ty.v)
        had = z3.Select(ty.has(cont.t), key.t)
        has = z3.Store(ty.has(cont.t), key.t, True)
        val = z3.Store(ty.val(cont.t), key.t, v.t)
        size = z3.If(had, ty.size(cont.t), ty.size(cont.t) + 1)
        if ty.ordered:
            order = z3.If(had, ty.order(cont.t), z3.Concat(ty.order(cont.t), z3.Unit(key.t)))
            return Val(ty, ty.mk(has, val, size, order))
        return Val(ty, ty.mk(has, val, size))
    if isinstance(ty, TSeq):
        key = run.coerce(key, TInt)
        v = run.coerce(v, ty.elem)
        n = z3.Length(cont.t)
        run.implicit_raise(z3.And(key.t >= -n, key.t < n), "IndexError", node)
        i = norm_index(key.t, n)
        new = z3.Concat(z3.Extract(cont.t, 0, i), z3.Unit(v.t), z3.Extract(cont.t, i + 1, n - i - 1))
        if run.spec:
            return Val(ty, new)
        # element-wise view of the update (a consequence of the definition, stated so that invariants over positions
        # do not have to go through concat / extract reasoning)
        r = z3.FreshConst(ty.sort(), "seq_upd")
        p = z3.FreshConst(z3.IntSort(), "p")
        run.assume(z3.And(r == new, z3.Length(r) == n))
        run.assume(z3.ForAll([p], z3.Implies(z3.And(0 <= p, p < n), r[p] == z3.If(p == i, v.t, cont.t[p]))))
        return Val(ty, r)
    h = run.x.setitem_hook(cont)
    if h is not None:
        return h(run, cont, key, v, node)
    raise err(f"item assignment on {ty}")


def dict_remove(ty, t, k):
    has = z3.Store(ty.has(t), k, False)
    size = ty.size(t) - 1
    if ty.ordered:
        order = ty.order(t)
        i = z3.IndexOf(order, z3.Unit(k), 0)
        order2 = z3.Concat(z3.Extract(order, 0, i), z3.Extract(order, i + 1, z3.Length(order) - i - 1))
        return ty.mk(has, ty.val(t), size, order2)
    return ty.mk(has, ty.val(t), size)


def delitem(run, cont, key, node):
    cont = unopt(run, cont, node)
    ty = cont.ty
    if isinstance(ty, TDict):
        key = run.coerce(key, ty.k)
        run.implicit_raise(z3.Select(ty.has(cont.t), key.t), "KeyError", node)
        return Val(ty, dict_remove(ty, cont.t, key.t))
    raise err(f"del item on {ty}")


def unpack(run, v, n, node):
    if isinstance(v, VTuple):
        if len(v.items) != n:
            run.implicit_raise(z3.BoolVal(False), "ValueError", node, "unpack arity")
        return v.items
    if isinstance(v, Val) and isinstance(v.ty, TTup):
        if len(v.ty.items) != n:
            run.implicit_raise(z3.BoolVal(False), "ValueError", node, "unpack arity")
        return [Val(t, v.ty.proj(v.t, i)) for i, t in enumerate(v.ty.items)]
    if isinstance(v, Val) and isinstance(v.ty, TSeq):
        run.implicit_raise(z3.Length(v.t) == n, "ValueError", node, "unpack arity")
        return [Val(v.ty.elem, v.t[i]) for i in range(n)]
    raise err(f"cannot unpack {v}")


def iter_to_seq(run, it, node):
    if isinstance(it, Val):
        it = unopt(run, it, node, "iterable")
        h = run.x.reg.stubs.get(("iter", it.ty.name))
        if h is not None:
            return h(run, it)
        if isinstance(it.ty, TSeq):
            return it
        if isinstance(it.ty, TDict):
            if not it.ty.ordered:
                raise err("iteration over a dict whose type is not declared ordered")
            return Val(TSeq(it.ty.k), it.ty.order(it.t))
        if it.ty is TStr:
            raise err("iteration over str characters: not supported")
        if isinstance(it.ty, TSet):
            # iteration order of a set is unspecified: an arbitrary duplicate-free enumeration
            sty = TSeq(it.ty.k)
            s = z3.FreshConst(sty.sort(), "setiter")
            i, j = z3.Ints("si sj")
            run.assume(z3.Length(s) == it.ty.size(it.t))
            run.assume(z3.ForAll([i], z3.Implies(z3.And(0 <= i, i < z3.Length(s)), z3.Select(it.ty.has(it.t), s[i]))))
            run.assume(z3.ForAll([i, j], z3.Implies(z3.And(0 <= i, i < j, j < z3.Length(s)), s[i] != s[j])))
            # every member is enumerated (position function, as for list(d.keys()))
            kk = z3.FreshConst(it.ty.k.sort(), "sk")
            run.assume(z3.ForAll([kk], z3.Implies(z3.Select(it.ty.has(it.t), kk), z3.And(0 <= keypos(s, kk), keypos(s, kk) < z3.Length(s), s[keypos(s, kk)] == kk))))
            run.assume(z3.ForAll([i], z3.Implies(z3.And(0 <= i, i < z3.Length(s)), keypos(s, s[i]) == i)))
            return Val(sty, s)
    if isinstance(it, Conc) and isinstance(it.obj, tuple):
        if it.obj[0] == "range":
            raise err("range iteration: use while or declare")
        if it.obj[0] == "seqview":
            return it.obj[1]
    raise err(f"cannot iterate over {it} (line {getattr(node, 'lineno', '?')})")


# ------------------------------------------------------------------ operators
def _re_flag(v):
    import re as _re
    if isinstance(v, Conc) and isinstance(v.obj, tuple) and v.obj[0] == "ext" and v.obj[1].startswith("re."):
        return int(getattr(_re, v.obj[1][3:]))
    if isinstance(v, Conc) and isinstance(v.obj, tuple) and v.obj[0] == "flags":
        return v.obj[1]
    return None


def binop(run, op, a, b, node):
    if isinstance(op, ast.BitOr) and _re_flag(a) is not None and _re_flag(b) is not None:
        return Conc(("flags", _re_flag(a) | _re_flag(b)))      # re.DOTALL | re.IGNORECASE
    if isinstance(a, Val):
        h = run.x.reg.stubs.get(("binop", type(op).__name__, a.ty.name))
        if h is not None:
            return h(run, a, b, node)
    if isinstance(op, ast.Add):
        if isinstance(a, VTuple) and isinstance(b, VTuple):
            return VTuple(a.items + b.items)
        a = unopt(run, a, node); b = unopt(run, b, node)
        if a.ty is TAny or b.ty is TAny:
            return pyval_add(run, a, b, node)
        if a.ty is TStr and b.ty is TStr:
            return Val(TStr, z3.Concat(a.t, b.t), pykind=a.pykind if a.pykind == b.pykind else None)
        if a.ty is TInt and b.ty is TInt:
            return Val(TInt, a.t + b.t)
        if isinstance(a.ty, TSeq) and a.ty == b.ty:
            return Val(a.ty, z3.Concat(a.t, b.t))
        if {a.ty, b.ty} <= {TInt, TBool}:
            return Val(TInt, run.coerce(a, TInt).t + run.coerce(b, TInt).t)
        run.implicit_raise(z3.BoolVal(False), "TypeError", node, f"unsupported operand types for +: {a.ty} and {b.ty}")
    a = unopt(run, a, node); b = unopt(run, b, node)
    if isinstance(op, ast.Sub):
        if a.ty is TInt and b.ty is TInt:
            return Val(TInt, a.t - b.t)
        if isinstance(a.ty, TSet) and a.ty == b.ty:
            ty = a.ty
            k = z3.FreshConst(ty.k.sort(), "k")
            r = ty.fresh("setdiff")
            run.assume(z3.ForAll([k], z3.Select(ty.has(r), k) == z3.And(z3.Select(ty.has(a.t), k), z3.Not(z3.Select(ty.has(b.t), k)))))
            run.assume(z3.And(ty.size(r) >= 0, ty.size(r) <= ty.size(a.t)))
            return Val(ty, r)
    if isinstance(op, ast.Mult) and a.ty is TInt and b.ty is TInt:
        return Val(TInt, a.t * b.t)
    if isinstance(op, ast.FloorDiv) and a.ty is TInt and b.ty is TInt:
        run.implicit_raise(b.t != 0, "ZeroDivisionError", node)
        # python floor division == z3 div for positive divisor; general case:
        # Python floors; z3's div floors only for a positive divisor, and (-a) div (-b) is the same quotient
        return Val(TInt, z3.If(b.t > 0, a.t / b.t, (-a.t) / (-b.t)))
    if isinstance(op, ast.Mod):
        if a.ty is TStr:
            return Val(TStr, z3.FreshConst(S, "fmt"))
        if a.ty is TInt and b.ty is TInt:
            run.implicit_raise(b.t != 0, "ZeroDivisionError", node)
            # Python: a % b == a - b * floor(a / b)  (sign of the divisor)
            return Val(TInt, z3.If(b.t > 0, a.t % b.t, a.t - b.t * ((-a.t) / (-b.t))))
    if isinstance(op, ast.BitAnd) and a.ty is TInt and b.ty is TInt:
        # integer bit mask: an uninterpreted function of both operands (flags are only ever tested against constants)
        return Val(TInt, uf("int_bitand", I, I, I)(a.t, b.t))
    if isinstance(op, ast.BitOr) and isinstance(a.ty, TSet) and a.ty == b.ty:
        ty = a.ty
        k = z3.FreshConst(ty.k.sort(), "k")
        r = ty.fresh("setunion")
        run.assume(z3.ForAll([k], z3.Select(ty.has(r), k) == z3.Or(z3.Select(ty.has(a.t), k), z3.Select(ty.has(b.t), k))))
        run.assume(z3.And(ty.size(r) >= ty.size(a.t), ty.size(r) >= ty.size(b.t), ty.size(r) <= ty.size(a.t) + ty.size(b.t)))
        return Val(ty, r)
    raise err(f"unsupported binary op {type(op).__name__} on {a.ty}, {b.ty} (line {getattr(node, 'lineno', '?')})")


def pyval_add(run, a, b, node):
    P = TAny.sort()
    a = run.coerce(a, TAny); b = run.coerce(b, TAny)
    both_str = z3.And(z3.Or(P.is_StrV(a.t), P.is_SafeV(a.t)), z3.Or(P.is_StrV(b.t), P.is_SafeV(b.t)))
    both_num = z3.And(z3.Or(P.is_IntV(a.t), P.is_BoolV(a.t)), z3.Or(P.is_IntV(b.t), P.is_BoolV(b.t)))
    run.implicit_raise(z3.Or(both_str, both_num), "TypeError", node, "unsupported operand types for +")
    sa = z3.If(P.is_StrV(a.t), P.s(a.t), P.ss(a.t))
    sb = z3.If(P.is_StrV(b.t), P.s(b.t), P.ss(b.t))
    ia = z3.If(P.is_IntV(a.t), P.i(a.t), z3.If(P.b(a.t), 1, 0))
    ib = z3.If(P.is_IntV(b.t), P.i(b.t), z3.If(P.b(b.t), 1, 0))
    # SafeString + SafeString stays safe, everything else is a plain str (django.utils.safestring)
    safe = z3.And(P.is_SafeV(a.t), P.is_SafeV(b.t))
    return Val(TAny, z3.If(both_str, z3.If(safe, P.SafeV(z3.Concat(sa, sb)), P.StrV(z3.Concat(sa, sb))), P.IntV(ia + ib)))


def to_pyval(run, v):
    P = TAny.sort()
    if v.ty is TAny:
        return v
    if v.ty is TNone:
        return Val(TAny, P.NoneV)
    if v.ty is TBool:
        return Val(TAny, P.BoolV(v.t))
    if v.ty is TInt:
        return Val(TAny, P.IntV(v.t))
    if v.ty is TStr:
        return Val(TAny, P.StrV(v.t))
    if isinstance(v.ty, TOpt):
        inner = to_pyval(run, Val(v.ty.inner, v.ty.get(v.t)))
        return Val(TAny, z3.If(v.ty.is_none(v.t), P.NoneV, inner.t))
    if isinstance(v.ty, TRef):
        return Val(TAny, z3.If(v.t == 0, P.NoneV, P.ObjV(v.t)))
    raise err(f"cannot view {v.ty} as PyVal")


def from_pyval(run, v, ty):
    P = TAny.sort()
    if ty is TAny:
        return v
    if isinstance(ty, TOpt) and ty.inner is TAny:
        return Val(ty, z3.If(P.is_NoneV(v.t), ty.none(), ty.some(v.t)))
    if ty is TStr:
        run.oblige("type#str", z3.Or(P.is_StrV(v.t), P.is_SafeV(v.t)), kind="safe")
        return Val(TStr, z3.If(P.is_StrV(v.t), P.s(v.t), P.ss(v.t)))
    if ty is TInt:
        run.oblige("type#int", P.is_IntV(v.t), kind="safe")
        return Val(TInt, P.i(v.t))
    if ty is TBool:
        run.oblige("type#bool", P.is_BoolV(v.t), kind="safe")
        return Val(TBool, P.b(v.t))
    raise err(f"cannot view PyVal as {ty}")


def eq_terms(run, a, b):
    """Python `==` on symbolic values -> z3 Bool (structural for the value types we encode)."""
    if isinstance(a, VTuple) and isinstance(b, VTuple):
        if len(a.items) != len(b.items):
            return z3.BoolVal(False)
        return z3.And(*[eq_terms(run, x, y) for x, y in zip(a.items, b.items)]) if a.items else z3.BoolVal(True)
    if isinstance(a, VTuple) and isinstance(b, Val) and isinstance(b.ty, TTup):
        a = run.coerce(a, b.ty)
    if isinstance(b, VTuple) and isinstance(a, Val) and isinstance(a.ty, TTup):
        b = run.coerce(b, a.ty)
    if isinstance(a, Conc) or isinstance(b, Conc):
        if isinstance(a, Conc) and isinstance(b, Conc):
            return z3.BoolVal(a.obj == b.obj)
        raise err(f"comparison of {a} with {b}")
    if isinstance(a, VTuple) or isinstance(b, VTuple):
        raise err("tuple comparison with non-tuple")
    if a.ty == b.ty:
        if a.ty is TNone:
            return z3.BoolVal(True)
        if isinstance(a.ty, (TDict, TSet)):
            ty = a.ty
            if isinstance(ty, TSet):
                k = z3.FreshConst(ty.k.sort(), "k")
                return z3.ForAll([k], z3.Select(ty.has(a.t), k) == z3.Select(ty.has(b.t), k))
            k = z3.FreshConst(ty.k.sort(), "k")
            return z3.ForAll([k], z3.And(z3.Select(ty.has(a.t), k) == z3.Select(ty.has(b.t), k),
                                         z3.Implies(z3.Select(ty.has(a.t), k), z3.Select(ty.val(a.t), k) == z3.Select(ty.val(b.t), k))))
        if a.ty is TAny:
            # Python's == on dynamically typed values: SafeString("x") == "x", True == 1; other objects by identity
            P = TAny.sort()
            strlike = lambda t: z3.Or(P.is_StrV(t), P.is_SafeV(t))
            text = lambda t: z3.If(P.is_StrV(t), P.s(t), P.ss(t))
            num = lambda t: z3.Or(P.is_IntV(t), P.is_BoolV(t))
            numv = lambda t: z3.If(P.is_IntV(t), P.i(t), z3.If(P.b(t), 1, 0))
            return z3.Or(a.t == b.t, z3.And(strlike(a.t), strlike(b.t), text(a.t) == text(b.t)), z3.And(num(a.t), num(b.t), numv(a.t) == numv(b.t)))
        return a.t == b.t
    # Optional vs. plain
    if isinstance(a.ty, TOpt) and not isinstance(b.ty, TOpt):
        if b.ty is TNone:
            return a.ty.is_none(a.t)
        return z3.And(z3.Not(a.ty.is_none(a.t)), eq_terms(run, Val(a.ty.inner, a.ty.get(a.t)), b))
    if isinstance(b.ty, TOpt) and not isinstance(a.ty, TOpt):
        return eq_terms(run, b, a)
    if a.ty is TNone or b.ty is TNone:
        other = b if a.ty is TNone else a
        if isinstance(other.ty, TRef):
            return other.t == 0
        if other.ty is TAny:
            return TAny.sort().is_NoneV(other.t)
        return z3.BoolVal(False)
    if {a.ty, b.ty} == {TInt, TBool}:
        return run.coerce(a, TInt).t == run.coerce(b, TInt).t
    if isinstance(a.ty, TRef) and isinstance(b.ty, TRef):
        return a.t == b.t
    if a.ty is TAny or b.ty is TAny:
        return run.coerce(a, TAny).t == run.coerce(b, TAny).t
    for x, y, sw in ((a, b, False), (b, a, True)):
        h = run.x.reg.stubs.get(("coerce", x.ty.name, y.ty.name))
        if h is not None:
            xx = h(run, x, y.ty)
            return xx.t == y.t
    # values of different python types are never equal
    return z3.BoolVal(False)


def contains(run, item, cont, node):
    _unmodelled(run, cont, node, "reads")
    if isinstance(cont, VTuple):
        if not cont.items:
            return z3.BoolVal(False)
        return z3.Or(*[eq_terms(run, item, c) for c in cont.items])
    cont = unopt(run, cont, node, "container")
    h = run.x.reg.stubs.get(("contains", cont.ty.name if isinstance(cont, Val) else "?"))
    if h is not None:
        return h(run, item, cont, node)
    ty = cont.ty
    if ty is TStr:
        item = unopt(run, item, node)
        if item.ty is not TStr:
            run.implicit_raise(z3.BoolVal(False), "TypeError", node, "'in <string>' requires string")
        return z3.Contains(cont.t, item.t)
    if isinstance(ty, TDict):
        return z3.Select(ty.has(cont.t), run.coerce(item, ty.k).t)
    if isinstance(ty, TSet):
        return z3.Select(ty.has(cont.t), run.coerce(item, ty.k).t)
    if isinstance(ty, TSeq):
        x = run.coerce(item, ty.elem).t
        r = z3.Contains(cont.t, z3.Unit(x))
        if not run.spec and ty.elem is not TStr:
            # element-wise reading of membership (a consequence of the definition of `contains` on sequences; spares the
            # solvers the step from seq.contains to positions): a witness position if it holds, no position otherwise
            k = z3.FreshConst(z3.IntSort(), "mem_at")
            a = z3.FreshConst(z3.IntSort(), "a")
            run.assume(z3.Implies(r, z3.And(0 <= k, k < z3.Length(cont.t), cont.t[k] == x)))
            run.assume(z3.Implies(z3.Not(r), z3.ForAll([a], z3.Implies(z3.And(0 <= a, a < z3.Length(cont.t)), cont.t[a] != x))))
        return r
    raise err(f"'in' on {ty}")


def compare(run, op, a, b, node):
    if isinstance(op, (ast.Is, ast.IsNot)):
        r = is_(run, a, b, node)
        return r if isinstance(op, ast.Is) else z3.Not(r)
    if isinstance(op, (ast.Eq, ast.NotEq)):
        r = eq_terms(run, a, b)
        return r if isinstance(op, ast.Eq) else z3.Not(r)
    if isinstance(op, (ast.In, ast.NotIn)):
        r = contains(run, a, b, node)
        return r if isinstance(op, ast.In) else z3.Not(r)
    a = unopt(run, a, node); b = unopt(run, b, node)
    if a.ty is TBool:
        a = run.coerce(a, TInt)
    if b.ty is TBool:
        b = run.coerce(b, TInt)
    if a.ty is TInt and b.ty is TInt:
        return {ast.Lt: a.t < b.t, ast.LtE: a.t <= b.t, ast.Gt: a.t > b.t, ast.GtE: a.t >= b.t}[type(op)]
    if isinstance(a.ty, TSet) and a.ty == b.ty and isinstance(op, ast.LtE):
        k = z3.FreshConst(a.ty.k.sort(), "k")
        return z3.ForAll([k], z3.Implies(z3.Select(a.ty.has(a.t), k), z3.Select(b.ty.has(b.t), k)))
    raise err(f"ordering comparison on {a.ty}, {b.ty}")


def is_(run, a, b, node):
    if is_none_like(b):
        a, b = b, a
    if is_none_like(a):
        if isinstance(b, VTuple) or isinstance(b, Conc):
            return z3.BoolVal(isinstance(b, Conc) and b.obj is None)
        if b.ty is TNone:
            return z3.BoolVal(True)
        if isinstance(b.ty, TOpt):
            return b.ty.is_none(b.t)
        if isinstance(b.ty, TRef):
            return b.t == 0
        if b.ty is TAny:
            return TAny.sort().is_NoneV(b.t)
        return z3.BoolVal(False)
    if isinstance(a, Val) and isinstance(b, Val):
        for x, y in ((a, b), (b, a)):
            h = run.x.reg.stubs.get(("is_false", x.ty.name))
            if h is not None and y.ty is TBool and z3.is_false(z3.simplify(y.t)):
                return h(run, x)
            h = run.x.reg.stubs.get(("is_true", x.ty.name))
            if h is not None and y.ty is TBool and z3.is_true(z3.simplify(y.t)):
                return h(run, x)
        if isinstance(a.ty, TRef) and isinstance(b.ty, TRef):
            return a.t == b.t
        if a.ty is TBool and b.ty is TBool:
            return a.t == b.t
        if a.ty is TBool and b.ty is TAny:
            a, b = b, a
        if a.ty is TAny and b.ty is TBool:
            # `v is True` / `v is False`: the bool singletons
            P = TAny.sort()
            return z3.And(P.is_BoolV(a.t), P.b(a.t) == b.t)
        if isinstance(a.ty, TOpt) and isinstance(a.ty.inner, TRef):
            return eq_terms(run, a, b)
    if isinstance(a, Conc) and isinstance(b, Conc):
        return z3.BoolVal(a.obj is b.obj or a.obj == b.obj)
    raise err(f"`is` on {a}, {b}: identity of value-encoded objects is not modelled")


def is_none_like(v):
    return isinstance(v, Val) and v.ty is TNone


# ------------------------------------------------------------------ comprehensions
def comprehension(run, node, fr, kind):
    from .interp import Frame
    if kind == "list" and len(node.generators) == 1 and node.generators[0].ifs:
        g = node.generators[0]
        srcv = run.ev(g.iter, fr)
        if isinstance(srcv, VTuple) and not srcv.items:
            return Conc(("emptylist",))
        src = iter_to_seq(run, srcv, node)
        # [f(x) for x in S if c(x)]: a fresh sequence R that is f mapped over the ORDER-PRESERVING selection of the elements of
        # S satisfying c: pos(q) = index in S of the q-th selected element (strictly increasing), inv = its inverse on the
        # selected indices.  c and f are evaluated once as TERMS over an arbitrary element (no forking).
        i = z3.FreshConst(z3.IntSort(), "ci")
        f2 = Frame(fr.finfo, parent=fr)
        run.assign(g.target, Val(src.ty.elem, src.t[i]), f2)
        rng = z3.And(0 <= i, i < z3.Length(src.t))
        run.spec += 1
        run.qvars.append(i)
        run.guards.append(rng)
        try:
            cond = z3.And(*[run.truth(run.ev(c_, f2)) for c_ in g.ifs])
            out = run.ev(node.elt, f2)
        finally:
            run.guards.pop()
            run.qvars.pop()
            run.spec -= 1
        if not isinstance(out, Val):
            raise err("list comprehension element is not a symbolic value")
        rty = TSeq(out.ty)
        R = z3.FreshConst(rty.sort(), "fcomp")
        pos = z3.Function(f"fcomp_pos!{R}", z3.IntSort(), z3.IntSort())
        inv = z3.Function(f"fcomp_inv!{R}", z3.IntSort(), z3.IntSort())
        q, q2 = z3.FreshConst(z3.IntSort(), "cq"), z3.FreshConst(z3.IntSort(), "cq2")
        sub = lambda e, at: z3.substitute(e, (i, at))
        for ax in (
            z3.Length(R) <= z3.Length(src.t),
            z3.ForAll([q], z3.Implies(z3.And(0 <= q, q < z3.Length(R)), z3.And(0 <= pos(q), pos(q) < z3.Length(src.t), sub(cond, pos(q)), R[q] == sub(out.t, pos(q)), inv(pos(q)) == q))),
            z3.ForAll([q, q2], z3.Implies(z3.And(0 <= q, q < q2, q2 < z3.Length(R)), pos(q) < pos(q2))),
            z3.ForAll([i], z3.Implies(z3.And(rng, cond), z3.And(0 <= inv(i), inv(i) < z3.Length(R), pos(inv(i)) == i))),
        ):
            run.pc.append(ax)
            run.solver_add(ax)
        return Val(rty, R)
    if kind == "list" and len(node.generators) == 1 and not node.generators[0].ifs:
        g = node.generators[0]
        src = iter_to_seq(run, run.ev(g.iter, fr), node)
        # [f(x) for x in S]: a fresh sequence R with len(R) == len(S) and R[i] == f(S[i]) for every i.
        # f is evaluated once as a TERM over an arbitrary element (no forking); partial operations inside f become
        # obligations quantified over the elements (Run.oblige with qvars/guards).
        i = z3.FreshConst(z3.IntSort(), "ci")
        f2 = Frame(fr.finfo, parent=fr)
        run.assign(g.target, Val(src.ty.elem, src.t[i]), f2)
        rng = z3.And(0 <= i, i < z3.Length(src.t))
        run.spec += 1
        run.qvars.append(i)
        run.guards.append(rng)
        try:
            out = run.ev(node.elt, f2)
        finally:
            run.guards.pop()
            run.qvars.pop()
            run.spec -= 1
        if not isinstance(out, Val):
            raise err("list comprehension element is not a symbolic value")
        rty = TSeq(out.ty)
        R = z3.FreshConst(rty.sort(), "comp")
        for ax in (z3.Length(R) == z3.Length(src.t), z3.ForAll([i], z3.Implies(rng, R[i] == out.t))):
            run.pc.append(ax)
            run.solver_add(ax)
        return Val(rty, R)
    if kind == "dict" and len(node.generators) == 1 and not node.generators[0].ifs:
        g = node.generators[0]
        it = g.iter
        if (isinstance(it, ast.Call) and isinstance(it.func, ast.Attribute) and it.func.attr == "items" and isinstance(g.target, ast.Tuple)
                and len(g.target.elts) == 2 and all(isinstance(e, ast.Name) for e in g.target.elts)
                and isinstance(node.key, ast.Name) and node.key.id == g.target.elts[0].id):
            d = run.ev(it.func.value, fr)
            if isinstance(d, Val) and isinstance(d.ty, TDict):
                # {k: f(v) for k, v in d.items()}: same key set, values mapped pointwise (f evaluated as a total term)
                kv = z3.FreshConst(d.ty.k.sort(), "ck")
                f2 = Frame(fr.finfo, parent=fr)
                f2.vars[g.target.elts[0].id] = Val(d.ty.k, kv)
                f2.vars[g.target.elts[1].id] = Val(d.ty.v, z3.Select(d.ty.val(d.t), kv))
                run.spec += 1
                try:
                    out = run.ev(node.value, f2)
                finally:
                    run.spec -= 1
                rty = TDict(d.ty.k, out.ty, ordered=False)
                vals = z3.FreshConst(z3.ArraySort(d.ty.k.sort(), out.ty.sort()), "cvals")
                ax = z3.ForAll([kv], z3.Select(vals, kv) == out.t)
                run.pc.append(ax)
                return Val(rty, rty.mk(d.ty.has(d.t), vals, d.ty.size(d.t)))
    if (kind == "dict" and len(node.generators) == 1 and not node.generators[0].ifs and isinstance(node.generators[0].target, ast.Name)
            and isinstance(node.key, ast.Name) and node.key.id == node.generators[0].target.id):
        # {x: f(x) for x in S}: keys = the elements of S, value of k = f(k)
        from .interp import Frame
        g = node.generators[0]
        srcv = run.ev(g.iter, fr)
        if isinstance(srcv, Conc) and srcv.obj in (("emptylist",), ("emptydict",)):
            return Conc(("emptydict",))
        if isinstance(srcv, Val) and isinstance(srcv.ty, TSet):
            kty = srcv.ty.k
            member = lambda kk: z3.Select(srcv.ty.has(srcv.t), kk)
            size_fact = lambda R, rty: rty.size(R) == srcv.ty.size(srcv.t)
        else:
            sq = iter_to_seq(run, srcv, node)
            kty = sq.ty.elem
            member = lambda kk: z3.Contains(sq.t, z3.Unit(kk))
            size_fact = lambda R, rty: z3.And(rty.size(R) >= 0, rty.size(R) <= z3.Length(sq.t), (rty.size(R) == 0) == (z3.Length(sq.t) == 0))
        kv = z3.FreshConst(kty.sort(), "ck")
        f2 = Frame(fr.finfo, parent=fr)
        f2.vars[g.target.id] = Val(kty, kv)
        run.spec += 1
        try:
            out = run.ev(node.value, f2)
        finally:
            run.spec -= 1
        if not isinstance(out, Val):
            raise err("dict comprehension value is not a symbolic value")
        rty = TDict(kty, out.ty, ordered=False)
        R = rty.fresh("dcomp")
        for ax in (z3.ForAll([kv], z3.Select(rty.has(R), kv) == member(kv)),
                   z3.ForAll([kv], z3.Implies(member(kv), z3.Select(rty.val(R), kv) == out.t)),
                   size_fact(R, rty)):
            run.pc.append(ax)
        rv = Val(rty, R)
        run.wf(rv)
        return rv
    raise err(f"{kind} comprehension at line {node.lineno}: not supported here (give the function a contract-level stub or use `calls`)")
