"""Type descriptors: how a Python value of a given (declared) type is represented as ONE z3 term.

int -> Int (mathematical, exact for Python) | bool -> Bool | str/bytes -> String | None -> unit
Optional[T] -> datatype none|some(T) | list/tuple(homog.) -> Seq(T) | tuple(fixed) -> datatype
dict -> datatype(has: Array K Bool, val: Array K V, size: Int[, order: Seq K]) | set -> datatype(has,size)
class instance / aliased container -> Ref = Int (0 is None) into a Burstall heap (one Array per field)
"""
import z3

_dt_cache = {}


class Ty:
    name = "?"

    def sort(self):
        raise NotImplementedError

    def fresh(self, hint):
        return z3.FreshConst(self.sort(), hint)

    def const(self, name):
        return z3.Const(name, self.sort())

    def __repr__(self):
        return self.name

    def __eq__(self, o):
        return isinstance(o, Ty) and self.name == o.name

    def __hash__(self):
        return hash(self.name)


class _TInt(Ty):
    name = "Int"

    def sort(self):
        return z3.IntSort()


class _TBool(Ty):
    name = "Bool"

    def sort(self):
        return z3.BoolSort()


class _TStr(Ty):
    name = "Str"

    def sort(self):
        return z3.StringSort()


class _TNone(Ty):
    name = "NoneT"

    def sort(self):
        if "unit" not in _dt_cache:
            d = z3.Datatype("Unit")
            d.declare("unit")
            _dt_cache["unit"] = d.create()
        return _dt_cache["unit"]

    def value(self):
        return self.sort().constructor(0)()


TInt, TBool, TStr, TNone = _TInt(), _TBool(), _TStr(), _TNone()


class TOpt(Ty):
    def __init__(self, inner):
        assert not isinstance(inner, TOpt)
        self.inner = inner
        self.name = f"Opt_{inner.name}"

    def sort(self):
        if self.name not in _dt_cache:
            d = z3.Datatype(self.name)
            d.declare(f"none_{self.name}")
            d.declare(f"some_{self.name}", (f"val_{self.name}", self.inner.sort()))
            _dt_cache[self.name] = d.create()
        return _dt_cache[self.name]

    def none(self):
        return self.sort().constructor(0)()

    def some(self, t):
        return self.sort().constructor(1)(t)

    def is_none(self, t):
        return self.sort().recognizer(0)(t)

    def get(self, t):
        return self.sort().accessor(1, 0)(t)


class TSeq(Ty):
    def __init__(self, elem):
        self.elem = elem
        self.name = f"Seq_{elem.name}"

    def sort(self):
        return z3.SeqSort(self.elem.sort())


class TTup(Ty):
    def __init__(self, items, tag=None, fields=None):
        self.items = list(items)
        self.fields = fields or [f"f{i}" for i in range(len(self.items))]
        self.name = tag or ("Tup_" + "_".join(t.name for t in self.items))

    def sort(self):
        if self.name not in _dt_cache:
            d = z3.Datatype(self.name)
            d.declare(f"mk_{self.name}", *[(f"{self.name}_{f}", t.sort()) for f, t in zip(self.fields, self.items)])
            _dt_cache[self.name] = d.create()
        return _dt_cache[self.name]

    def mk(self, *ts):
        return self.sort().constructor(0)(*ts)

    def proj(self, t, i):
        if isinstance(i, str):
            i = self.fields.index(i)
        return self.sort().accessor(0, i)(t)


class TDict(Ty):
    def __init__(self, k, v, ordered=False):
        self.k, self.v, self.ordered = k, v, ordered
        self.name = f"Dict_{k.name}_{v.name}" + ("_o" if ordered else "")

    def sort(self):
        if self.name not in _dt_cache:
            d = z3.Datatype(self.name)
            fs = [
                ("has", z3.ArraySort(self.k.sort(), z3.BoolSort())),
                ("val", z3.ArraySort(self.k.sort(), self.v.sort())),
                ("size", z3.IntSort()),
            ]
            if self.ordered:
                fs.append(("order", z3.SeqSort(self.k.sort())))
            d.declare(f"mk_{self.name}", *[(f"{self.name}_{n}", s) for n, s in fs])
            _dt_cache[self.name] = d.create()
        return _dt_cache[self.name]

    def has(self, t):
        return self.sort().accessor(0, 0)(t)

    def val(self, t):
        return self.sort().accessor(0, 1)(t)

    def size(self, t):
        return self.sort().accessor(0, 2)(t)

    def order(self, t):
        return self.sort().accessor(0, 3)(t)

    def mk(self, has, val, size, order=None):
        if self.ordered:
            return self.sort().constructor(0)(has, val, size, order)
        return self.sort().constructor(0)(has, val, size)

    def empty(self):
        has = z3.K(self.k.sort(), z3.BoolVal(False))
        val = z3.FreshConst(z3.ArraySort(self.k.sort(), self.v.sort()), "dv")
        if self.ordered:
            return self.mk(has, val, z3.IntVal(0), z3.Empty(z3.SeqSort(self.k.sort())))
        return self.mk(has, val, z3.IntVal(0))


class TSet(Ty):
    def __init__(self, k):
        self.k = k
        self.name = f"Set_{k.name}"

    def sort(self):
        if self.name not in _dt_cache:
            d = z3.Datatype(self.name)
            d.declare(
                f"mk_{self.name}",
                (f"{self.name}_has", z3.ArraySort(self.k.sort(), z3.BoolSort())),
                (f"{self.name}_size", z3.IntSort()),
            )
            _dt_cache[self.name] = d.create()
        return _dt_cache[self.name]

    def has(self, t):
        return self.sort().accessor(0, 0)(t)

    def size(self, t):
        return self.sort().accessor(0, 1)(t)

    def mk(self, has, size):
        return self.sort().constructor(0)(has, size)

    def empty(self):
        return self.mk(z3.K(self.k.sort(), z3.BoolVal(False)), z3.IntVal(0))


class TRef(Ty):
    """Nullable reference to an instance of a known class (0 is None)."""

    def __init__(self, cls):
        self.cls = cls
        self.name = f"Ref_{cls}"

    def sort(self):
        return z3.IntSort()


class TObj(Ty):
    """Opaque value: only equality and stub functions."""

    def __init__(self, tag="Obj"):
        self.name = tag

    def sort(self):
        if self.name not in _dt_cache:
            _dt_cache[self.name] = z3.DeclareSort(self.name)
        return _dt_cache[self.name]


class _TAny(Ty):
    """PyVal: a value whose Python type is not known statically."""

    name = "PyVal"

    def sort(self):
        if "PyVal" not in _dt_cache:
            d = z3.Datatype("PyVal")
            d.declare("NoneV")
            d.declare("BoolV", ("b", z3.BoolSort()))
            d.declare("IntV", ("i", z3.IntSort()))
            d.declare("StrV", ("s", z3.StringSort()))
            d.declare("SafeV", ("ss", z3.StringSort()))
            d.declare("ObjV", ("o", z3.IntSort()))
            _dt_cache["PyVal"] = d.create()
        return _dt_cache["PyVal"]


TAny = _TAny()


def Opt(t):
    return t if isinstance(t, TOpt) else TOpt(t)


class Val:
    """A symbolic value: type descriptor + one z3 term."""

    __slots__ = ("ty", "t", "foreign", "pykind")

    def __init__(self, ty, t, foreign=False, pykind=None):
        self.ty = ty
        self.t = t
        # static tag for text-like values that share the Str sort: "bytes" (latin-1 view), "str", "safe"; None = untracked
        self.pykind = pykind
        # foreign: a by-value VIEW of an object this function does not own (e.g. a value handed out by user code); mutating
        # it in place would change the caller's object - outside every frame condition
        self.foreign = foreign

    def __repr__(self):
        return f"<{self.ty.name} {self.t}>"


class VTuple:
    """Python tuple display with statically known length (immutable, so held at meta level)."""

    def __init__(self, items):
        self.items = list(items)

    def __repr__(self):
        return f"VTuple{self.items}"


class Conc:
    """A meta-level (concrete) object: closure, function reference, class, module, regex constant..."""

    def __init__(self, obj):
        self.obj = obj

    def __repr__(self):
        return f"Conc({self.obj!r})"


def mk_int(i):
    return Val(TInt, z3.IntVal(i))


def mk_bool(b):
    return Val(TBool, z3.BoolVal(bool(b)))


def mk_str(s):
    return Val(TStr, z3.StringVal(s))


NONE = Val(TNone, TNone.value())


def is_none_val(v):
    return isinstance(v, Val) and v.ty is TNone
