"""Translate a Python `re` pattern (constant of the real source) into a z3 regular expression.

Subset: literals, '.', classes incl. ranges / negation / \\s \\w \\d \\S \\W \\D, groups (capturing or not), alternation,
* + ? {m,n} and their lazy forms (same language), anchors only where the caller strips them (`$` at the end).
Anything else raises Unsupported -> the dependent obligations become UNDECIDED (exit 2), never green.
What is NOT derived from this translation (and is assumption A-RE): the scanning discipline of re.finditer / sub /
match (leftmost, non-overlapping, increasing order, greedy/lazy choice among matches).
"""
try:
    import re._parser as sre_parse
    import re._constants as sre_c
except ImportError:  # pragma: no cover
    import sre_constants as sre_c
    import sre_parse
import re

import z3


class Unsupported(Exception):
    pass


MAXCODE = 0x2FFFF  # A-UNI: z3's character sort is U+0000..U+2FFFF; Python code points above it (planes 3-16) are not represented


def _ch(c):
    return z3.StringVal(chr(c)) if c < 0x10000 or True else None


def _range(lo, hi):
    if lo == hi:
        return z3.Re(_ch(lo))
    return z3.Range(_ch(lo), _ch(hi))


def _union(rs):
    rs = list(rs)
    if not rs:
        return z3.Empty(z3.ReSort(z3.StringSort()))
    if len(rs) == 1:
        return rs[0]
    return z3.Union(*rs)


ASCII_WORD = [(ord("a"), ord("z")), (ord("A"), ord("Z")), (ord("0"), ord("9")), (ord("_"), ord("_"))]
SPACE = [(9, 13), (28, 31), (32, 32), (0x85, 0x85), (0xA0, 0xA0), (0x1680, 0x1680), (0x2000, 0x200A), (0x2028, 0x2029), (0x202F, 0x202F), (0x205F, 0x205F), (0x3000, 0x3000)]
ASCII_SPACE = [(9, 13), (32, 32)]
DIGIT_ASCII = [(ord("0"), ord("9"))]


def _category_intervals(cat, ascii_only, is_bytes):
    name = str(cat)
    neg = "NOT_" in name
    if "SPACE" in name:
        iv = ASCII_SPACE if (ascii_only or is_bytes) else SPACE
    elif "DIGIT" in name:
        if not (ascii_only or is_bytes):
            raise Unsupported("unicode \\d (translate needs re.ASCII or a bytes pattern)")
        iv = DIGIT_ASCII
    elif "WORD" in name:
        if not (ascii_only or is_bytes):
            raise Unsupported("unicode \\w (translate needs re.ASCII or a bytes pattern)")
        iv = ASCII_WORD
    else:
        raise Unsupported(f"category {name}")
    return _complement(iv) if neg else list(iv)


def _complement(iv, top=MAXCODE):
    iv = sorted(iv)
    out, cur = [], 0
    for lo, hi in iv:
        if lo > cur:
            out.append((cur, lo - 1))
        cur = max(cur, hi + 1)
    if cur <= top:
        out.append((cur, top))
    return out


def _merge(iv):
    iv = sorted(iv)
    out = []
    for lo, hi in iv:
        if out and lo <= out[-1][1] + 1:
            out[-1] = (out[-1][0], max(out[-1][1], hi))
        else:
            out.append((lo, hi))
    return out


def _intervals_to_re(iv):
    # clamp to z3's character range (A-UNI)
    iv = [(lo, min(hi, MAXCODE)) for lo, hi in _merge(iv) if lo <= MAXCODE]
    return _union(_range(lo, hi) for lo, hi in iv)


def class_intervals(items, flags, is_bytes):
    ascii_only = bool(flags & re.ASCII)
    ignorecase = bool(flags & re.IGNORECASE)
    neg = False
    iv = []
    cats = []
    for op, av in items:
        if op is sre_c.NEGATE:
            neg = True
        elif op is sre_c.LITERAL:
            iv.append((av, av))
        elif op is sre_c.RANGE:
            iv.append((av[0], av[1]))
        elif op is sre_c.CATEGORY:
            # categories are invariant under tolower (only cased letters change, and they stay word characters)
            cats.extend(_category_intervals(av, ascii_only, is_bytes))
        else:
            raise Unsupported(f"class item {op}")
    if ignorecase:
        iv = _casefold(iv, ascii_only or is_bytes)
    iv = iv + cats
    top = 255 if is_bytes else MAXCODE
    if neg:
        iv = _complement(_merge(iv), top)
    return _merge(iv)


_REV = None


def _fold_tables():
    """reverse of sre's unicode_tolower over all code points (built once per process, ~0.4 s)"""
    global _REV
    if _REV is None:
        import _sre
        rev = {}
        for x in range(0x110000):
            lo = _sre.unicode_tolower(x)
            if lo != x:
                rev.setdefault(lo, []).append(x)
        _REV = rev
    return _REV


def fold_set(cp, ascii_only):
    """code points that a literal `cp` matches under re.IGNORECASE (as sre compiles it: tolower + re._casefix._EXTRA_CASES)"""
    if ascii_only:
        ch = chr(cp)
        return sorted({cp, ord(ch.lower()), ord(ch.upper())}) if cp < 128 and ch.isalpha() else [cp]
    import _sre
    from re import _casefix
    rev = _fold_tables()
    lo = _sre.unicode_tolower(cp)
    targets = {lo} | set(_casefix._EXTRA_CASES.get(lo, ()))
    out = set()
    for t in targets:
        out.add(t)
        out.update(rev.get(t, ()))
    return sorted(out)


def _casefold(iv, ascii_only=False):
    out = list(iv)
    for lo, hi in iv:
        if hi - lo > 4096:
            # a wide range: closed under case folding except at its borders - refuse rather than enumerate
            raise Unsupported("IGNORECASE over a very wide character range")
        for c in range(lo, hi + 1):
            for x in fold_set(c, ascii_only):
                out.append((x, x))
    return out


def _seq(nodes, flags, is_bytes):
    parts = [_node(op, av, flags, is_bytes) for op, av in nodes]
    if not parts:
        return z3.Re(z3.StringVal(""))
    if len(parts) == 1:
        return parts[0]
    return z3.Concat(*parts)


def _node(op, av, flags, is_bytes):
    top = 255 if is_bytes else MAXCODE
    if op is sre_c.LITERAL:
        if flags & re.IGNORECASE:
            fs = fold_set(av, bool(flags & re.ASCII) or is_bytes)
            if len(fs) > 1:
                return _union([z3.Re(_ch(x)) for x in fs])
        return z3.Re(_ch(av))
    if op is sre_c.NOT_LITERAL:
        ex = fold_set(av, bool(flags & re.ASCII) or is_bytes) if flags & re.IGNORECASE else [av]
        return _intervals_to_re(_complement(_merge([(x, x) for x in ex]), top))
    if op is sre_c.ANY:
        if flags & re.DOTALL:
            return _intervals_to_re([(0, top)])
        return _intervals_to_re(_complement([(10, 10)], top))
    if op is sre_c.IN:
        return _intervals_to_re(class_intervals(av, flags, is_bytes))
    if op is sre_c.BRANCH:
        return _union(_seq(b, flags, is_bytes) for b in av[1])
    if op is sre_c.SUBPATTERN:
        group, add_flags, del_flags, p = av
        return _seq(p, (flags | add_flags) & ~del_flags, is_bytes)
    if op in (sre_c.MAX_REPEAT, sre_c.MIN_REPEAT):
        lo, hi, p = av
        inner = _seq(p, flags, is_bytes)
        if hi is sre_c.MAXREPEAT:
            if lo == 0:
                return z3.Star(inner)
            if lo == 1:
                return z3.Plus(inner)
            return z3.Concat(z3.Loop(inner, lo, lo), z3.Star(inner))
        if lo == 0 and hi == 1:
            return z3.Option(inner)
        return z3.Loop(inner, lo, hi)
    if op is sre_c.CATEGORY:
        return _intervals_to_re(_category_intervals(av, bool(flags & re.ASCII), is_bytes))
    raise Unsupported(f"regex construct {op}")


def translate(pattern, flags=0):
    """Language of full matches of `pattern` (no anchors inside).  Returns a z3 Re over String."""
    is_bytes = isinstance(pattern, bytes)
    ptxt = pattern.decode("latin-1") if is_bytes else pattern
    try:
        parsed = sre_parse.parse(ptxt, flags)
    except Exception as e:
        raise Unsupported(f"cannot parse pattern: {e}")
    flags = parsed.state.flags | flags
    if is_bytes:
        flags &= ~re.UNICODE
    nodes = list(parsed)
    lang = _seq(nodes, flags, is_bytes)
    TRANSLATED[(pattern, int(flags))] = lang
    return lang


TRANSLATED = {}     # every pattern translated in this process: re-checked against `re` itself by differential()


def differential(samples=150, seed=0):
    """CPython cross-check of the translation: random words over an alphabet drawn from each pattern (plus case variants,
    special-casing code points and separators) must be in the translated language exactly when re.fullmatch accepts them.
    Returns (number of comparisons, list of mismatches)."""
    import random
    rnd = random.Random(seed)
    n, bad = 0, []
    extra = "sSſkKKiIıİ \t\n\xa0\x85<>/=-_.,:;'\"aZ09é"
    for (pattern, flags), lang in list(TRANSLATED.items()):
        is_bytes = isinstance(pattern, bytes)
        ptxt = pattern.decode("latin-1") if is_bytes else pattern
        try:
            rx = re.compile(pattern, flags & ~re.UNICODE if is_bytes else flags)
        except re.error:
            continue
        lits = [c for c in ptxt if c.isalnum() or c in "<>/=-_ ,:;'\"!%{}#"]
        alphabet = "".join(dict.fromkeys(lits + [c.swapcase() for c in lits] + list(extra)))
        if is_bytes:
            alphabet = "".join(c for c in alphabet if ord(c) < 256) + "\xe9\xff"
        # seeds: words built by walking the pattern's literals (so that long literal patterns are hit), then mutated
        base = re.sub(r"\\[sSwWdD][*+?]?|\(\?[:P<][^)]*\)|[\[\]()|?*+\\^$]|\{[0-9,]*\}", "", ptxt)
        for k in range(samples):
            mode = rnd.random()
            if mode < 0.4:
                w = "".join(rnd.choice(alphabet) for _ in range(rnd.randint(0, 8)))
            else:
                w = list(base)
                for _ in range(rnd.randint(0, 3)):
                    if w and rnd.random() < 0.5:
                        w[rnd.randrange(len(w))] = rnd.choice(alphabet)
                    elif w and rnd.random() < 0.5:
                        del w[rnd.randrange(len(w))]
                    else:
                        w.insert(rnd.randint(0, len(w)), rnd.choice(alphabet))
                w = "".join(c.swapcase() if rnd.random() < 0.2 else c for c in w)
            if is_bytes and any(ord(c) > 255 for c in w):
                continue
            want = rx.fullmatch(w.encode("latin-1") if is_bytes else w) is not None
            v = z3.simplify(z3.InRe(z3.StringVal(w), lang))
            if z3.is_true(v) or z3.is_false(v):
                got = z3.is_true(v)
            else:
                sv = z3.Solver()
                sv.set("timeout", 5000)
                sv.add(v)
                r = sv.check()
                if r == z3.unknown:
                    continue
                got = r == z3.sat
            n += 1
            if got != want:
                bad.append({"pattern": ptxt, "flags": int(flags), "word": w, "translated_language_accepts": got, "re_fullmatch_accepts": want})
    return n, bad


def split_end_anchor(pattern):
    """`...$` -> (`...`, True).  Only a trailing unescaped `$` is recognised."""
    if pattern.endswith("$") and not pattern.endswith("\\$"):
        return pattern[:-1], True
    return pattern, False
