"""./check <Cxx> [--tier quick|thorough] [--replay FILE]

exit 0  every obligation generated from /repo's current source was discharged (known findings printed)
exit 1  VIOLATION: an obligation is refuted (counterexample replayed on the real code where the solver gives one)
exit 2  UNDECIDED: a solver said unknown / timeout, or a regex left the translatable subset (named obligation)
exit 3  checker failure: extraction error, zero obligations, failed cover, differential mismatch, solver disagreement
"""
import hashlib
import importlib
import json
import os
import sys
import time
import traceback

import z3

from . import solve
from .contracts import REG
from .engine import Explorer
from .interp import EngineError, Obligation
from .repo import DROPPED, REPO, SRC, ExtractionError, get_func

VERIF = os.path.dirname(os.path.dirname(os.path.abspath(__file__)))

ASSUMPTIONS = {
    "A-LOG": "tracing/logging calls (trace_component_msg, trace_node_msg, logger.*) have no effect on state or control flow; DEBUG_HIGHLIGHT_* settings are off",
    "A-UNI": "strings are sequences of z3 characters U+0000..U+2FFFF; Python code points above U+2FFFF (planes 3-16, unassigned / private use) are not represented; bytes are code points < 256",
    "A-UTF8": "str.encode()/bytes.decode() are mutually inverse on well-formed text, identity on ASCII",
    "A-RE": "Python's `re` scans leftmost, non-overlapping, in increasing order with the documented greedy/lazy choice; the LANGUAGE of each constant pattern is not assumed but translated from the source (regex2smt)",
    "A-ID": "gen_id() returns an id distinct from every live id (probabilistic)",
    "A-LIB": "nobody but the registry adds/removes the registry's component tags in its Library between two registry calls",
    "A-DJ": "the Django / stdlib / Rust stubs in contracts/stubs_*.py (assumed contracts on dependencies; tested by the differential, not proved)",
    "A-PY": "the encoding of pyvc (ints mathematical, str = sequence of code points, by-value containers without aliasing, Burstall heap) is CPython's semantics for the constructs it accepts (tested by the differential)",
    "A-SOLVER": "an `unsat` of z3 is believed in the quick tier (cvc5 / the z3 CLI only see what the z3 API leaves open); one z3 fault was observed (unsat for a satisfiable sequence formula, DESIGN 9.5b) - the thorough tier asks cvc5 for a second opinion on every obligation and distrusts a z3 unsat that cvc5 contradicts with a model",
    "A-INST": "universally quantified hypotheses are instantiated at finitely many ground terms before solving (only weakens hypotheses: unsat stays a proof)",
}


def load_contracts(pid):
    importlib.import_module("contracts.stubs_python")
    for extra in ("contracts.stubs_django",):
        try:
            importlib.import_module(extra)
        except ModuleNotFoundError as e:
            if extra.split(".")[-1] not in str(e):
                raise
    mod = importlib.import_module(f"contracts.{pid.lower()}")
    return mod


def props_of(c):
    return [c.prop] if isinstance(c.prop, str) else list(c.prop)


def base_name(name):
    return name


def load_known_findings():
    p = os.path.join(VERIF, "known_findings.json")
    if not os.path.exists(p):
        return []
    with open(p) as f:
        return json.load(f).get("findings", [])


def main(argv=None):
    argv = argv or sys.argv[1:]
    if not argv:
        print(__doc__)
        return 3
    pid = argv[0]
    tier = os.environ.get("VERIF_TIER", "quick")
    replay_file = None
    i = 1
    while i < len(argv):
        if argv[i] == "--tier":
            tier = argv[i + 1]; i += 2
        elif argv[i] == "--replay":
            replay_file = argv[i + 1]; i += 2
        else:
            i += 1
    seed = int(os.environ.get("VERIF_SEED", "0") or 0)
    if pid == "selfcheck":
        return run_selfcheck()[0]
    if tier == "thorough":
        os.environ["PYVC_BOTH"] = "1"
    try:
        mod = load_contracts(pid)
    except Exception:
        traceback.print_exc()
        print(f"CHECKER-FAILURE property={pid} cannot load contracts")
        return 3
    if replay_file:
        return do_replay_file(pid, mod, replay_file)
    try:
        return run_check(pid, mod, tier, seed)
    except (EngineError, ExtractionError) as e:
        msg = str(e)
        if msg.startswith("UNDECIDED"):
            print(f"UNDECIDED property={pid} {msg}")
            write_evidence(pid, tier, seed, {"obligations": 0, "discharged": 0, "explanation": msg}, 0.0, 0, status="undecided")
            return 2
        traceback.print_exc()
        print(f"CHECKER-FAILURE property={pid} {type(e).__name__}: {e}")
        return 3


def run_selfcheck():
    """CPython differential of the executor (pyvc.selfcheck) in a child process whose VERIF_REPO is the selfcheck tree"""
    import subprocess
    env = dict(os.environ, VERIF_REPO=os.path.join(VERIF, "selfcheck", "repo"), PYTHONPATH=VERIF)
    p = subprocess.run([sys.executable, "-m", "pyvc.selfcheck"], capture_output=True, text=True, env=env, cwd=VERIF, timeout=900)
    sys.stdout.write("".join(l + "\n" for l in p.stdout.splitlines() if l.startswith(("SELFCHECK", "[selfcheck]", "CHECKER"))))
    try:
        with open(os.path.join(VERIF, "tmp", "selfcheck.json")) as f:
            summary = json.load(f)
    except Exception:
        summary = {"error": (p.stderr or p.stdout)[-500:]}
    return (0 if p.returncode == 0 else 3), summary


def run_check(pid, mod, tier, seed):
    t0 = time.time()
    stale = []
    for c in [c for c in REG.contracts.values() if pid in props_of(c) and c.optional]:
        try:
            Explorer(REG, c).explore()
        except (EngineError, ExtractionError) as e:
            del REG.contracts[c.fq]
            REG.inline(c.fq)
            stale.append(f"{c.fq}: {e}")
            print(f"NOTE property={pid} helper contract {c.fq} no longer fits the code ({e}); callers are verified against its inlined body")
    units = [c for c in REG.contracts.values() if pid in props_of(c) and c.verify]
    only = os.environ.get("PYVC_UNITS")      # development aid: restrict a run to the units whose name contains one of these (never used by the registered commands)
    if only:
        units = [c for c in units if any(w in c.fq for w in only.split(","))]
    obligations = []
    unit_info = []
    stubs_used, contracts_used, weak_loops, inlined = set(), set(), [], set()
    trivial = 0
    pre_solved = []      # (obligation shell, result) pairs decided inside the subtree workers
    unreadable = []      # units whose contract no longer fits the code (shape of a loop / names changed): exit 3 unless a native battery fails
    for c in units:
        x = Explorer(REG, c)
        try:
            if getattr(c, "parallel", False) or os.environ.get("PYVC_PARALLEL_ALL"):
                obs, solved = explore_parallel(x, c)
                obs = dedupe(obs)
                pre_solved.extend(solved)
            else:
                obs = dedupe(x.explore())
                solved = []
        except (EngineError, ExtractionError) as e:
            if str(e).startswith("UNDECIDED"):
                raise
            unreadable.append((c, f"{type(e).__name__}: {e}"))
            continue
        nontrivial_by_unit = len(obs) + len(solved)
        if nontrivial_by_unit + x.trivial == 0:
            print(f"CHECKER-FAILURE property={pid} zero obligations for {c.fq}")
            return 3
        obligations.extend(obs)
        trivial += x.trivial
        stubs_used |= {str(s) for s in x.stubs_used}
        contracts_used |= x.contracts_used
        inlined |= x.inlined
        weak_loops += [f"{c.fq}#loop:{k}" for k in sorted(map(str, x.weak_loops))]
        fi = x.finfo
        unit_info.append({"function": c.fq, "source_sha256_16": fi.sha(), "loc": fi.loc(), "file": os.path.relpath(fi.module.path, REPO),
                          "line": fi.node.lineno, "paths": x.paths, "exits": x.exits, "obligations": len(obs) + len(solved), "trivially_true": x.trivial})
    # lemmas
    for name, prop, build, note in REG.lemmas:
        if prop != pid:
            continue
        hyps, goal = build()
        obligations.append(Obligation(name, list(hyps), goal, "lemma", [], "lemma", note=note))
    # syntactic obligations (AST comparison / ownership scans)
    syn_results = []
    for name, prop, fn, note in REG.syntactic:
        if prop != pid:
            continue
        try:
            ok, detail = fn()
        except Exception as e:
            traceback.print_exc()
            print(f"CHECKER-FAILURE property={pid} syntactic check {name} crashed: {type(e).__name__}: {e}")
            return 3
        syn_results.append({"name": name, "ok": bool(ok), "detail": detail, "note": note})
    bounded_results = []
    for name, prop, fn, note in REG.bounded:
        if prop != pid and pid not in (prop if isinstance(prop, (list, tuple)) else [prop]):
            continue
        tb = time.time()
        try:
            br = fn(tier, REPO)
        except Exception as e:
            traceback.print_exc()
            print(f"CHECKER-FAILURE property={pid} bounded check {name} crashed: {type(e).__name__}: {e}")
            return 3
        br.update(name=name, note=note, wall_s=round(time.time() - tb, 1), label="bounded (never counted as proved)")
        bounded_results.append(br)
    if not obligations and not syn_results and not bounded_results:
        print(f"CHECKER-FAILURE property={pid} no obligations generated")
        return 3
    if unreadable:
        # The contract of a unit cannot be read against the changed code.  That alone is a checker failure (exit 3), never a
        # verdict - unless the unit's native scenario battery exhibits an input on which the real code breaks the contract's
        # oracle: then that failing input is reported (VIOLATION, replayed), with the unreadable unit named.
        os.makedirs(os.path.join(VERIF, "replays", pid), exist_ok=True)
        witnessed = False
        for c, why in unreadable:
            class _O:
                pass
            o_ = _O()
            o_.unit, o_.name, o_.kind, o_.note, o_.path = c.fq, "unreadable#contract_no_longer_fits_the_code", "bounded", why, []
            rep = try_replay(pid, o_, {"model": None}) if c.fq in REG.replays else None
            if rep and rep.get("confirmed"):
                path = write_replay(pid, o_, {"backend": "native-battery", "verdict": "failing input (the contract could not be read against this code: " + why[:200] + ")"}, rep)
                print(f"VIOLATION property={pid} replay={path} obligation={c.fq}/{o_.name}")
                witnessed = True
            else:
                print(f"CHECKER-FAILURE property={pid} {why}")
        # the property's bounded stand-ins ran on the changed code as well: a failing input they found (outside every known
        # finding) is reported too - the unreadable contract alone never is
        known_b = [k for k in load_known_findings() if k.get("property") == pid and k.get("status", "open") == "open"]
        for br in bounded_results:
            for fl in br.get("failures", [])[:3]:
                if any(k.get("obligation") == br["name"] and (k.get("witness_input") == fl.get("input") or (fl.get("known_finding") and k.get("id") == fl.get("known_finding"))) for k in known_b):
                    continue
                o_ = Obligation(br["name"], [], None, "bounded", [], "bounded", note=fl.get("clause", ""))
                path = write_replay(pid, o_, {"verdict": "bounded-counterexample", "model": None, "backend": "bounded", "detail": json.dumps(fl, default=str)[:1500]},
                                    {"confirmed": True, "function": br["name"], "inputs": fl.get("input"), "observed": fl})
                print(f"VIOLATION property={pid} replay={path} obligation=bounded/{br['name']}")
                witnessed = True
                break
        write_evidence(pid, tier, seed, {"obligations": 0, "discharged": 0, "checker_cmd": f"./check {pid} --tier {tier}", "trusted_base": [],
                                         "explanation": "a contract no longer fits the code: " + "; ".join(w for _c, w in unreadable)[:1500]},
                       time.time() - t0, 1 if witnessed else 0, status="violation" if witnessed else "checker-failure")
        print(f"[{pid}] {'violation' if witnessed else 'checker-failure'}: contract of {', '.join(c.fq for c, _w in unreadable)} does not fit the code")
        return 1 if witnessed else 3
    results = solve.solve_obligations(obligations)
    for o, r in pre_solved:
        obligations.append(o)
        results.append(r)
    wall_solve = time.time() - t0
    # ---- classify
    discharged, refuted, undecided, errors, cover_bad, finding_checks = [], [], [], [], [], []
    by_backend = {}
    solver_time = 0.0
    for o, r in zip(obligations, results):
        solver_time += r["time_s"]
        v = r["verdict"]
        if v == "error" or v == "disagree":
            errors.append((o, r))
        elif o.kind == "finding":
            finding_checks.append((o, r))
        elif o.expect_sat:
            if v == "unsat":
                cover_bad.append((o, r))
            else:
                by_backend["cover-" + v] = by_backend.get("cover-" + v, 0) + 1
        elif v == "unsat":
            discharged.append((o, r))
            by_backend[r["backend"]] = by_backend.get(r["backend"], 0) + 1
        elif v == "sat":
            refuted.append((o, r))
        else:
            undecided.append((o, r))
    for s in syn_results:
        if s["ok"]:
            by_backend["syntactic"] = by_backend.get("syntactic", 0) + 1
    n_proof_obl = len([o for o in obligations if not o.expect_sat]) + len(syn_results)
    # a syntactic clause that fails exactly as a listed known finding is reported there, not counted as an obligation
    known_syn = {k.get("obligation") for k in load_known_findings() if k.get("property") == pid and k.get("status", "open") == "open"}
    n_proof_obl -= sum(1 for s in syn_results if not s["ok"] and s["name"] in known_syn)
    n_discharged = len(discharged) + sum(1 for s in syn_results if s["ok"])

    # ---- violations: replay refuted obligations on the real code
    known = [k for k in load_known_findings() if k.get("property") == pid and k.get("status", "open") == "open"]
    violations = []
    known_hits = []
    stale_findings = []
    seen_f = set()
    for o, r in finding_checks:
        base = o.name[len("finding@"):]
        kf = next((k for k in known if k.get("unit") == o.unit and k.get("obligation") == base), None)
        if kf is None or kf.get("id") in seen_f:
            continue
        if r["verdict"] == "sat":
            seen_f.add(kf.get("id"))
            known_hits.append((kf, o, None))
    # the stored witness of each open finding is replayed natively on the current tree (decisive and cheap)
    freplays = getattr(mod, "FINDING_REPLAYS", {})
    for k in known:
        fid = k.get("id")
        if fid in freplays and fid not in seen_f:
            try:
                if SRC not in sys.path:
                    sys.path.insert(0, SRC)
                if REPO not in sys.path:
                    sys.path.insert(1, REPO)
                if freplays[fid](k.get("witness")):
                    seen_f.add(fid)
                    known_hits.append((k, None, None))
            except Exception as e:
                print(f"NOTE property={pid} witness replay of {fid} crashed: {type(e).__name__}: {e}")
    for k in known:
        if k.get("region_in_contract") and k.get("id") not in seen_f:
            stale_findings.append(k.get("id"))
            print(f"NOTE property={pid} known finding {k.get('id')} did not reproduce on this tree (fixed? then move it to `fixed`)")
    os.makedirs(os.path.join(VERIF, "replays", pid), exist_ok=True)
    seen_names = set()
    for o, r in refuted:
        key = (o.unit, o.name)
        kf = match_known(known, o)
        rep = try_replay(pid, o, r)
        if kf is not None and rep_in_region(kf, rep):
            if key not in seen_names:
                known_hits.append((kf, o, rep))
            seen_names.add(key)
            continue
        if key in seen_names:
            continue
        seen_names.add(key)
        path = write_replay(pid, o, r, rep)
        violations.append((o, r, rep, path))
    # an obligation the solvers could not decide is NOT a violation - unless the unit's native replay (scenario battery on the
    # real code, judged by the contract's own oracle) exhibits a failing input: then the failing input is the evidence and
    # the undecided obligation is the one named
    still_undecided = []
    unit_witness = {}
    for o, r in undecided:
        if o.kind in ("cover", "finding") or o.unit not in REG.replays:
            still_undecided.append((o, r))
            continue
        if o.unit not in unit_witness:
            unit_witness[o.unit] = try_replay(pid, o, dict(r, model=None))
        rep = unit_witness[o.unit]
        if rep and rep.get("confirmed"):
            key = (o.unit, o.name)
            if key not in seen_names:
                seen_names.add(key)
                r2 = dict(r, verdict="unknown (solvers) + failing input found natively", backend="native-witness")
                path = write_replay(pid, o, r2, rep)
                violations.append((o, r2, rep, path))
        else:
            still_undecided.append((o, r))
    undecided = still_undecided
    # thorough tier: every native replay battery of this property is also run on its own (bounded, on the real code,
    # judged by the contract's oracle) - a disagreement between a contract's oracle and the code shows up here even where
    # every obligation is discharged (i.e. it cross-checks the ENCODING); never counted as proved
    battery_results = []
    if tier == "thorough":
        done_fn = set()
        for key, fn in list(REG.replays.items()):
            unit = key[0] if isinstance(key, tuple) else key
            if unit not in {c_.fq for c_ in units} or id(fn) in done_fn:
                continue
            done_fn.add(id(fn))
            class _O:      # minimal obligation stand-in
                pass
            o_ = _O()
            o_.unit, o_.name, o_.kind, o_.note, o_.path = unit, "battery#native_scenarios_agree_with_the_contract_oracle", "bounded", "native scenario battery", []
            tb = time.time()
            rep = try_replay(pid, o_, {"model": None})
            battery_results.append({"unit": unit, "failing_input_found": bool(rep and rep.get("confirmed")), "error": (rep or {}).get("error"), "wall_s": round(time.time() - tb, 1)})
            if rep and rep.get("confirmed") and (unit, o_.name) not in seen_names and not any(k.get("unit") == unit for k in known):
                seen_names.add((unit, o_.name))
                path = write_replay(pid, o_, {"backend": "native-battery", "verdict": "failing input"}, rep)
                violations.append((o_, {"backend": "native-battery"}, rep, path))
    for s in syn_results:
        if not s["ok"]:
            kf = next((k for k in known if k.get("obligation") == s["name"]), None)
            if kf is not None:
                known_hits.append((kf, None, None))
                continue
            o = Obligation(s["name"], [], None, "syntactic", [], "syntactic", note=s["detail"])
            path = write_replay(pid, o, {"verdict": "refuted-syntactic", "model": None, "backend": "syntactic", "detail": s["detail"]}, None)
            violations.append((o, {"backend": "syntactic"}, None, path))

    for br in bounded_results:
        for fl in br.get("failures", [])[:3]:
            # a failure is a KNOWN finding when the file lists it: by its exact input, or by the id of the finding whose
            # region the harness itself delimits (the harness tags a failure only when it lies inside that region)
            kf = next((k for k in known if k.get("obligation") == br["name"] and
                       (k.get("witness_input") == fl.get("input") or (fl.get("known_finding") and k.get("id") == fl.get("known_finding")))), None)
            if kf is not None:
                known_hits.append((kf, None, None))
                continue
            o = Obligation(br["name"], [], None, "bounded", [], "bounded", note=fl.get("clause", ""))
            path = write_replay(pid, o, {"verdict": "bounded-counterexample", "model": None, "backend": "bounded", "detail": json.dumps(fl, default=str)[:1500]},
                                {"confirmed": True, "function": br["name"], "inputs": fl.get("input"), "observed": fl})
            violations.append((o, {"backend": "syntactic"}, {"confirmed": True}, path))
            break
    wall = time.time() - t0
    samples = []
    for o, r in (discharged[:2] + refuted[:2] + undecided[:1]):
        samples.append({"obligation": f"{pid}/{o.unit}/{o.name}", "kind": o.kind, "verdict": r["verdict"], "backend": r["backend"],
                        "time_s": round(r["time_s"], 3), "note": (o.note or "")[:300],
                        "smt2_head": (r.get("smt2") or "")[:1500]})
    for s in syn_results[:2]:
        samples.append({"obligation": f"{pid}/{s['name']}", "kind": "syntactic", "verdict": "ok" if s["ok"] else "FAILED", "detail": s["detail"][:500]})
    slowest = sorted(((r["time_s"], o.unit, o.name, r["backend"]) for o, r in zip(obligations, results)), reverse=True)[:5]
    names = {}
    for o, r in zip(obligations, results):
        d = names.setdefault(f"{o.unit}/{o.name}", {"paths": 0, "verdicts": {}})
        d["paths"] += 1
        d["verdicts"][r["verdict"]] = d["verdicts"].get(r["verdict"], 0) + 1
    coverage = {
        "obligations": n_proof_obl,
        "discharged": n_discharged,
        "checker_cmd": f"./check {pid} --tier {tier}",
        "trusted_base": sorted({f"stub:{s}" for s in stubs_used} | {f"assumed-contract:{c}" for c in contracts_used if not REG.contracts[c].verify}
                               | {"z3 5.1.0", "cvc5 1.0.3 (--strings-exp)", "pyvc symbolic executor (A-PY)", "CPython ast module"}),
        "functions_under_contract": unit_info,
        "callee_contracts_used": sorted(contracts_used),
        "inlined_callees": sorted(inlined),
        "by_backend": by_backend,
        "trivially_true_obligations_not_counted": trivial,
        "refuted": len(refuted), "undecided": len(undecided), "checker_errors": len(errors),
        "known_findings_confirmed": [k.get("id") for k, _o, _r in known_hits],
        "known_findings_not_reproduced_on_this_run": stale_findings,
        "solver_time_s": round(solver_time, 2),
        "slowest": [{"time_s": round(t, 2), "unit": u, "obligation": n, "backend": b} for t, u, n, b in slowest],
        "covers": {"sat": by_backend.get("cover-sat", 0), "unknown": by_backend.get("cover-unknown", 0), "unsat(vacuous!)": len(cover_bad)},
        "loops_with_invariant_True": weak_loops,
        "stale_helper_contracts_inlined": stale,
        "syntactic": syn_results,
        "bounded": [{k: v for k, v in br.items() if k != "failures"} | {"failures": br.get("failures", [])[:3]} for br in bounded_results],
        "obligation_names": names if len(names) <= 400 else {"count": len(names)},
        "dropped_by_extraction": DROPPED,
        "samples": samples,
        "repo": REPO,
    }
    if battery_results:
        coverage["native_batteries"] = {"label": "bounded (scenario batteries on the real code; never counted as proved)", "runs": battery_results}
    if os.environ.get("PYVC_BOTH"):
        sec = [r.get("second") for o, r in zip(obligations, results) if r.get("backend") == "z3" and not o.expect_sat]
        coverage["second_solver"] = {"what": "thorough tier: every obligation z3 decided is decided again by cvc5 on the same SMT-LIB text; a contradiction is a checker failure",
                                     "agreed": sum(1 for x in sec if x in ("sat", "unsat")), "second_solver_undecided": sum(1 for x in sec if x not in ("sat", "unsat"))}
    # ---- self-check of the executor against CPython on concrete points (every run; a mismatch is a checker failure)
    sc_code, sc_summary = run_selfcheck()
    coverage["executor_differential"] = {k: sc_summary.get(k) for k in ("programs", "concrete_points", "obligations", "proved_equal_to_cpython", "mismatches", "error") if k in sc_summary}
    coverage["executor_differential"]["modelled_abstractly_but_consistent_with_cpython"] = len(sc_summary.get("modelled_abstractly_but_consistent_with_cpython", []))
    # ---- self-check of the regex translation against CPython's `re` on every pattern this run translated
    from . import regex2smt
    selfcheck_bad = []
    if regex2smt.TRANSLATED:
        n_cmp, rx_bad = regex2smt.differential(samples=1500 if tier == "thorough" else 150, seed=seed)
        coverage["regex_translation_differential"] = {"patterns": len(regex2smt.TRANSLATED), "comparisons_with_re_fullmatch": n_cmp, "mismatches": rx_bad[:5]}
        selfcheck_bad = rx_bad
    extra = getattr(mod, "EVIDENCE_EXTRA", None)
    if extra:
        coverage.update(extra() if callable(extra) else extra)
    assumptions = [f"{k}: {v}" for k, v in ASSUMPTIONS.items() if k in list(getattr(mod, "ASSUMES", ["A-PY", "A-INST", "A-LOG"])) + ["A-SOLVER"]]
    assumptions += list(getattr(mod, "NOT_COVERED", []))
    level = getattr(mod, "LEVEL", "proof")

    if os.environ.get("PYVC_DUMP"):
        os.makedirs(os.environ["PYVC_DUMP"], exist_ok=True)
        for k, (o, r) in enumerate(refuted + undecided):
            if r.get("smt2"):
                with open(os.path.join(os.environ["PYVC_DUMP"], f"{pid}_{k}_{r['verdict']}.smt2"), "w") as fh:
                    fh.write(f"; {o.unit}/{o.name} path={o.path}\n" + r["smt2"])
    if os.environ.get("PYVC_DEBUG"):
        for o, r in refuted + undecided:
            print(f"  DEBUG {r['verdict']} {o.unit.split(':')[-1]}/{o.name} path={o.path} backend={r['backend']} t={r['time_s']:.1f} q={r.get('qstats')} size={r.get('size')}")
            print(f"        note={str(o.note)[:160]} detail={r['detail'][:160]}")
            if r.get("model"):
                print("        model:", {k: (list(v.values())[0] if len(str(v)) < 200 else str(v)[:200]) for k, v in r["model"].items() if k.startswith(("in!", "watch!"))})
    # ---- verdict
    printed = set()
    for kf, o, rep in known_hits:
        if kf.get("id") in printed:
            continue
        printed.add(kf.get("id"))
        print(f"KNOWN-FINDING: property={pid} {kf.get('what', kf.get('id'))}")
    status = "held"
    code = 0
    if sc_code != 0:
        status = "checker-failure"
        code = 3
        print(f"CHECKER-FAILURE property={pid} the executor disagrees with CPython on the self-check programs (./check selfcheck)")
    if selfcheck_bad:
        status = "checker-failure"
        code = 3
        for b in selfcheck_bad[:5]:
            print(f"CHECKER-FAILURE property={pid} regex translation disagrees with re.fullmatch: pattern={b['pattern']!r} word={b['word']!r}")
    if errors or cover_bad:
        status = "checker-failure"
        code = 3
        for o, r in errors:
            print(f"CHECKER-FAILURE property={pid} obligation={o.unit}/{o.name} {r['verdict']}: {r['detail'][:300]}")
        for o, r in cover_bad:
            print(f"CHECKER-FAILURE property={pid} cover {o.unit}/{o.name} is unsat: contract is vacuous ({o.note})")
    if violations:
        status = "violation"
        code = 1
        for o, r, rep, path in violations:
            tail = "" if (rep and rep.get("confirmed")) or r.get("backend") == "syntactic" else " no-failing-input-found"
            print(f"VIOLATION property={pid} replay={path} obligation={o.unit}/{o.name}{tail}")
    elif undecided and code == 0:
        status = "undecided"
        code = 2
        for o, r in undecided[:10]:
            print(f"UNDECIDED property={pid} obligation={o.unit}/{o.name} path={o.path} {r['detail'][:200]}")
    write_evidence(pid, tier, seed, coverage, wall, len(violations), level=level, assumptions=assumptions, status=status)
    print(f"[{pid}] {status}: {n_discharged}/{n_proof_obl} obligations discharged ({by_backend}), {len(refuted)} refuted, "
          f"{len(undecided)} undecided, {len(units)} functions, {wall:.1f}s")
    return code


_PAR = {}


def _subtree_worker(args):
    fq, prefix, mf = args
    try:
        c = REG.contracts[fq]
        x = Explorer(REG, c)
        x.maybe_foreign = set(mf)
        obs = dedupe(x.explore_subtree(prefix))
        out = []
        for o in obs:
            r = solve.work_obj(o)
            meta = {"name": o.name, "unit": o.unit, "path": o.path, "kind": o.kind, "expect_sat": o.expect_sat, "note": str(o.note)[:400]}
            out.append((meta, r))
        return {"results": out, "paths": x.paths, "trivial": x.trivial, "exits": x.exits, "stubs": [str(s) for s in x.stubs_used],
                "contracts": list(x.contracts_used), "inlined": list(x.inlined), "weak": [str(w) for w in x.weak_loops],
                "mf": list(x.maybe_foreign), "error": None}
    except (EngineError, ExtractionError) as e:
        return {"error": f"{type(e).__name__}: {e}", "results": []}


def explore_parallel(x, c):
    """Breadth-first warm-up in this process, then one forked worker per unexplored decision subtree (each explores its
    subtree, builds and decides its obligations)."""
    import multiprocessing as mp
    from concurrent.futures import ProcessPoolExecutor
    obs = x.warmup()
    subtrees = list(x.pending)
    x.pending = []
    if not subtrees:
        return obs, []
    ctx = mp.get_context("fork")
    with ProcessPoolExecutor(max_workers=min(16, len(subtrees)), mp_context=ctx) as pool:
        outs = list(pool.map(_subtree_worker, [(c.fq, p, list(x.maybe_foreign)) for p in subtrees], chunksize=1))
    solved = []
    for o in outs:
        if o.get("error"):
            raise EngineError(o["error"])
        x.paths += o["paths"]
        x.trivial += o["trivial"]
        for k, v in o["exits"].items():
            x.exits[k] = x.exits.get(k, 0) + v
        x.stubs_used |= set(o["stubs"])
        x.contracts_used |= set(o["contracts"])
        x.inlined |= set(o["inlined"])
        if set(map(tuple, o["mf"])) - set(x.maybe_foreign):
            raise EngineError("aliasing information discovered inside a parallel subtree; run this unit serially (contract.parallel = False)")
        for meta, r in o["results"]:
            shell = Obligation(meta["name"], [], None, meta["unit"], meta["path"], meta["kind"], meta["expect_sat"], meta["note"])
            solved.append((shell, r))
    # de-duplicate across subtrees
    seen, uniq = set(), []
    for shell, r in solved:
        key = (shell.name, tuple(shell.path))
        if key in seen:
            continue
        seen.add(key)
        uniq.append((shell, r))
    return obs, uniq


def dedupe(obs):
    seen = set()
    out = []
    counters = {}
    for o in obs:
        k0 = (o.name, tuple(o.path), len(o.pc))
        n = counters.get((id(o.pc), k0), 0)
        key = (o.name, tuple(o.path), len(o.pc), str(o.goal.sexpr()) if o.goal is not None else "")
        if key in seen:
            continue
        seen.add(key)
        out.append(o)
    return out


def match_known(known, o):
    for k in known:
        if k.get("unit") == o.unit and k.get("obligation") == o.name and not k.get("region_in_contract"):
            return k
    return None


def rep_in_region(kf, rep):
    return True


def try_replay(pid, o, r):
    fn = REG.replays.get((o.unit, o.name)) or REG.replays.get(o.unit)
    if fn is None:
        return None
    try:
        if SRC not in sys.path:
            sys.path.insert(0, SRC)
        if REPO not in sys.path:
            sys.path.insert(1, REPO)
        return fn(r.get("model") or {}, o)
    except Exception as e:
        return {"confirmed": False, "error": "".join(traceback.format_exception_only(type(e), e))[:500]}


def write_replay(pid, o, r, rep):
    d = os.path.join(VERIF, "replays", pid)
    os.makedirs(d, exist_ok=True)
    h = hashlib.md5(f"{o.unit}/{o.name}".encode()).hexdigest()[:10]
    path = os.path.join(d, f"{h}.json")
    with open(path, "w") as f:
        json.dump({"property": pid, "obligation": f"{o.unit}/{o.name}", "kind": o.kind, "note": o.note, "path_decisions": o.path,
                   "solver": r.get("backend"), "verdict": r.get("verdict"), "model": r.get("model"), "solver_detail": r.get("detail"),
                   "replay": rep, "repo": REPO}, f, indent=1, default=str)
    return path


def do_replay_file(pid, mod, path):
    with open(path) as f:
        d = json.load(f)
    unit, name = d["obligation"].split("/", 1)
    fn = REG.replays.get((unit, name)) or REG.replays.get(unit)
    if fn is None:
        print(f"no replay builder for {d['obligation']}; solver output is in the file")
        return 2
    if SRC not in sys.path:
        sys.path.insert(0, SRC)
    if REPO not in sys.path:
        sys.path.insert(1, REPO)
    o = Obligation(name, [], None, unit, d.get("path_decisions", []), d.get("kind", ""))
    rep = fn(d["model"], o)
    print(json.dumps(rep, indent=1, default=str))
    if rep.get("confirmed"):
        print(f"VIOLATION property={pid} replay={path}")
        return 1
    return 0


def write_evidence(pid, tier, seed, coverage, wall, violations, level="proof", assumptions=None, status=""):
    os.makedirs(os.path.join(VERIF, "evidence"), exist_ok=True)
    ev = {"property_id": pid, "tier": tier if tier in ("quick", "thorough") else "quick", "seed": seed, "level": level,
          "coverage": coverage, "assumptions": assumptions or [], "wall_s": round(wall, 2), "violations": violations, "status": status}
    if level == "proof" and (coverage.get("obligations", 0) < 1 or coverage.get("discharged", 0) < 1):
        ev["level"] = "other"
        coverage.setdefault("explanation", "no obligation discharged on this run: " + status)
    with open(os.path.join(VERIF, "evidence", f"{pid}.json"), "w") as f:
        json.dump(ev, f, indent=1, default=str)


if __name__ == "__main__":
    sys.exit(main())
