"""Path-splitting symbolic executor for a subset of Python (forward VC generation).

Direct-style interpreter + decision replay: one run follows one path; every symbolic branch asks the
decision oracle, alternatives are queued as decision prefixes and explored by re-running from the
start.  Exceptions of the analysed code are Python exceptions of the interpreter (PyRaise), so
try/except/finally/with of the analysed code map onto the same constructs here.

Loops are cut by sidecar invariants; calls to contracted functions use the contract, never the body.
Obligations are collected (name, path condition, goal) and decided afterwards by pyvc.solve.
"""
import ast
import itertools

import z3

from . import ops
from .repo import ExtractionError, FuncInfo, get_func, is_repo_module, load_module
from .types import (NONE, Conc, Opt, TAny, TBool, TDict, TInt, TNone, TObj, TOpt, TRef, TSeq, TSet, TStr, TTup, Ty,
                    Val, VTuple, is_none_val, mk_bool, mk_int, mk_str)


class EngineError(Exception):
    """The checker cannot read this code (exit 3) - never a violation, never a pass."""


class PathEnd(Exception):
    """This path ends here (infeasible, or cut at the end of an arbitrary loop iteration)."""


class PyRaise(Exception):
    def __init__(self, exc):
        self.exc = exc


class _Return(Exception):
    def __init__(self, val):
        self.val = val


class _Break(Exception):
    pass


class _Continue(Exception):
    pass


EXC_PARENT = {
    "BaseException": None, "Exception": "BaseException", "LookupError": "Exception", "KeyError": "LookupError",
    "IndexError": "LookupError", "ValueError": "Exception", "TypeError": "Exception", "AttributeError": "Exception",
    "RuntimeError": "Exception", "NotImplementedError": "RuntimeError", "SyntaxError": "Exception",
    "StopIteration": "Exception", "AssertionError": "Exception", "ImportError": "Exception",
    "UnicodeDecodeError": "ValueError", "UnicodeEncodeError": "ValueError", "re.error": "Exception",
    "TemplateSyntaxError": "Exception", "AlreadyRegistered": "Exception", "NotRegistered": "Exception",
    "TagProtectedError": "Exception", "ImproperlyConfigured": "Exception", "SuspiciousFileOperation": "Exception",
    "RecursionError": "RuntimeError", "OSError": "Exception", "ModuleNotFoundError": "ImportError",
    "Any": "Exception",  # an exception of statically unknown type raised by user code (assumed <: Exception)
}


def exc_isinstance(tname, cls):
    """True / False / None (=unknown: `Any` against a specific class)."""
    if tname == cls:
        return True
    if tname == "Any":
        if cls in ("Exception", "BaseException"):
            return True
        return None
    t = tname
    while t is not None:
        if t == cls:
            return True
        if t not in EXC_PARENT:
            raise EngineError(f"unknown exception class {t}")
        t = EXC_PARENT[t]
    return False


class ExcVal:
    _ids = itertools.count(1)

    def __init__(self, tname, args=(), site=None, ref=None):
        self.tname, self.args, self.site = tname, list(args), site
        self.ref = ref if ref is not None else z3.FreshConst(z3.IntSort(), "exc")
        self.notes = []

    def __repr__(self):
        return f"{self.tname}@{self.site}"


class Closure:
    def __init__(self, node, frame, finfo):
        self.node, self.frame, self.finfo = node, frame, finfo


class Frame:
    def __init__(self, finfo, parent=None):
        self.vars = {}
        self.finfo = finfo
        self.parent = parent
        self.nonlocals = set()
        self.globals_decl = set()
        self.local_types = {}

    def lookup(self, name):
        f = self
        while f is not None:
            if name in f.vars:
                return f.vars[name]
            f = f.parent
        return None

    def owner(self, name):
        f = self
        while f is not None:
            if name in f.vars:
                return f
            f = f.parent
        return None


class Obligation:
    def __init__(self, name, pc, goal, unit, path, kind, expect_sat=False, note=""):
        self.name, self.pc, self.goal, self.unit, self.path = name, pc, goal, unit, path
        self.kind, self.expect_sat, self.note = kind, expect_sat, note
        self.watch = {}


def _flatten_and(g):
    out = []
    for c in g.children():
        if z3.is_and(c):
            out.extend(_flatten_and(c))
        else:
            out.append(c)
    return out


class Loop:
    def __init__(self, inv=(), variant=None, index=None, hints=(), modifies=None, label=None, cut=None):
        self.inv, self.variant, self.index, self.hints = list(inv), variant, index, list(hints)
        # cut: after the loop, assert these clauses and then FORGET every quantified hypothesis (assert-and-forget;
        # dropping hypotheses is sound) - keeps the loop-free tail of a function a quantifier-free problem
        self.cut = cut
        self.modifies = modifies
        self.label = label


class Run:
    """One path through one verification unit."""

    def __init__(self, explorer, prefix):
        self.x = explorer
        self.prefix = prefix
        self.trace = []
        self.pc = []
        self.solver = z3.Solver()
        self.solver.set("timeout", explorer.branch_timeout_ms)
        self.heap = {}
        self.globals = {}
        self.obligations = []
        self.spec = 0
        self.modular = 0        # > 0 while a callee's contract is evaluated at a call site
        self.next_ref = None
        self.old = None
        self.loop_counter = itertools.count()
        self.call_counter = {}
        self.notes = []
        self.ghost = {}
        self.cur_exc = []
        self.specfun_stack = [{}]
        self.watch = {}
        self.guards = []
        self.qvars = []
        self._in_finding = False
        self.entry_frame = None
        self.foreign_vars = {}
        self.loop_stack = []

    # ---------------------------------------------------------------- decisions / assumptions
    def assume(self, cond):
        if isinstance(cond, bool):
            cond = z3.BoolVal(cond)
        c = z3.simplify(cond)
        if z3.is_true(c):
            return
        if z3.is_and(cond):
            for cj in _flatten_and(cond):
                self.assume(cj)
            return
        self.pc.append(cond)
        self.solver_add(cond)
        if z3.is_false(c):
            raise PathEnd()

    def solver_add(self, cond):
        # the incremental solver used for branch pruning only sees quantifier-free facts (an over-approximation
        # of the feasible paths; obligations always carry the complete path condition)
        from .quant import _contains_quant
        if not _contains_quant(cond):
            self.solver.add(cond)

    def try_const(self, expr):
        """If the path condition (its quantifier-free part) forces the integer `expr` to one value, return that numeral."""
        e = z3.simplify(expr)
        if z3.is_int_value(e) or self.spec:
            return e
        try:
            if self.solver.check() != z3.sat:
                return e
            v = self.solver.model().eval(e, model_completion=True)
            if z3.is_int_value(v) and self.solver.check(e != v) == z3.unsat:
                return v
        except z3.Z3Exception:
            pass
        return e

    def feasible(self, cond):
        r = self.solver.check(cond)
        return r != z3.unsat

    def choose(self, n, feas=None, label=""):
        pos = len(self.trace)
        if pos < len(self.prefix):
            c = self.prefix[pos]
        else:
            options = [k for k in range(n) if feas is None or feas(k)]
            if not options:
                raise PathEnd()
            c = options[0]
            for alt in options[1:]:
                self.x.pending.append(self.trace + [alt])
        self.trace.append(c)
        return c

    def branch(self, cond):
        if self.spec:
            raise EngineError("branch in spec mode")
        if isinstance(cond, bool):
            return cond
        c = z3.simplify(cond)
        if z3.is_true(c):
            return True
        if z3.is_false(c):
            return False
        k = self.choose(2, lambda k: self.feasible(c if k == 0 else z3.Not(c)))
        if k == 0:
            self.assume(cond)
            return True
        self.assume(z3.Not(cond))
        return False

    def oblige(self, name, goal, kind="assert", note="", expect_sat=False, qf_only=False):
        if qf_only and not expect_sat:
            self._qf_flag = True
            try:
                return self.oblige(name, goal, kind, note, expect_sat)
            finally:
                self._qf_flag = False
        if isinstance(goal, bool):
            goal = z3.BoolVal(goal)
        region = self.x.finding_region(name) if not expect_sat and not self._in_finding else None
        if region is not None:
            # known finding (listed in known_findings.json): the clause must hold OUTSIDE the region R, and must still
            # fail inside it (otherwise the finding is stale)
            R = self.spec_bool(region, self.x.post_frame(self, self.entry_frame))
            self._in_finding = True
            try:
                outside = z3.And(*[z3.Or(g_, R) for g_ in _flatten_and(goal)]) if z3.is_and(goal) and goal.num_args() > 1 else z3.Or(goal, R)
                self.oblige(name, outside, kind, note + " [outside the region of a known finding]")
                self.oblige("finding@" + name, z3.And(z3.Not(goal), R), kind="finding", expect_sat=True, note="known finding still reproduces inside its region")
            finally:
                self._in_finding = False
            return
        if self.guards or self.qvars:
            # raised while evaluating a comprehension element / conditional expression as a term: the obligation
            # holds under the enclosing conditions, for every element
            if self.guards:
                goal = z3.Implies(z3.And(*self.guards), goal)
            if self.qvars:
                goal = z3.ForAll(list(self.qvars), goal)
            saved = (self.guards, self.qvars)
            self.guards, self.qvars = [], []
            try:
                return self.oblige(name, goal, kind, note, expect_sat)
            finally:
                self.guards, self.qvars = saved
        if not expect_sat and z3.is_and(goal) and goal.num_args() > 1:
            # one query per conjunct (smaller queries, and a failure names the clause)
            for k, cj in enumerate(_flatten_and(goal)):
                self.oblige(f"{name}.{k}", cj, kind=kind, note=note)
            return
        if not expect_sat and z3.is_app(goal) and goal.decl().kind() == z3.Z3_OP_IMPLIES and z3.is_and(goal.arg(1)) and goal.arg(1).num_args() > 1:
            for k, cj in enumerate(_flatten_and(goal.arg(1))):
                self.oblige(f"{name}.{k}", z3.Implies(goal.arg(0), cj), kind=kind, note=note)
            return
        g = z3.simplify(goal)
        if not expect_sat and (z3.is_true(g) or any(goal.eq(h) for h in self.pc)):
            # trivially true, or literally one of the hypotheses
            self.x.trivial += 1
            self.x.note_trivial(name)
            return
        ob = Obligation(name, list(self.pc), goal, self.x.unit_name, list(self.trace), kind, expect_sat, note)
        ob.watch = dict(self.watch)
        ob.qf_only = getattr(self, "_qf_flag", False)
        self.obligations.append(ob)
        if not expect_sat and kind in ("safe", "pre", "assert"):
            # after asserting, assume (standard: avoids cascades of the same failure)
            self.pc.append(goal)
            self.solver_add(goal)

    def implicit_raise(self, safe_cond, tname, node, msg=""):
        """Partial operation: raises `tname` unless safe_cond."""
        if self.spec:
            return
        if not self.branch(safe_cond):
            site = f"{getattr(node, 'lineno', '?')}:{getattr(node, 'col_offset', '?')}"
            raise PyRaise(ExcVal(tname, [mk_str(msg)], site=f"implicit {tname} at line {site}"))

    # ---------------------------------------------------------------- heap
    def field_array(self, cls, field):
        key = f"{cls}.{field}"
        if key not in self.heap:
            fty = self.x.field_type(cls, field)
            self.heap[key] = z3.Const(f"heap0!{key}", z3.ArraySort(z3.IntSort(), fty.sort()))
        return self.heap[key]

    def load_field(self, ref, cls, field):
        fty = self.x.field_type(cls, field)
        t = z3.Select(self.field_array(cls, field), ref)
        v = Val(fty, t)
        self.wf(v)
        return v

    def store_field(self, ref, cls, field, val):
        fty = self.x.field_type(cls, field)
        val = self.coerce(val, fty)
        self.heap[f"{cls}.{field}"] = z3.Store(self.field_array(cls, field), ref, val.t)

    def wf(self, v):
        """Typing invariants of freshly introduced/loaded values (heap closedness, sizes >= 0)."""
        if self.spec:
            return
        for c in ops.wf_conds(v, self):
            self.pc.append(c)
            self.solver_add(c)

    def alloc(self, cls):
        r = z3.FreshConst(z3.IntSort(), f"new_{cls}")
        self.assume(r == self.next_ref)
        self.next_ref = self.next_ref + 1
        return Val(TRef(cls), r)

    # ---------------------------------------------------------------- coercions
    def coerce(self, v, ty):
        if isinstance(v, VTuple):
            if isinstance(ty, TTup):
                items = [self.coerce(i, t).t for i, t in zip(v.items, ty.items)]
                return Val(ty, ty.mk(*items))
            if isinstance(ty, TSeq):
                return ops.seq_from_items(self, [self.coerce(i, ty.elem) for i in v.items], ty)
            if isinstance(ty, TOpt):
                inner = self.coerce(v, ty.inner)
                return Val(ty, ty.some(inner.t))
            raise EngineError(f"cannot coerce tuple to {ty}")
        if isinstance(v, Conc):
            if isinstance(v.obj, tuple) and v.obj[0] == "emptydict" and isinstance(ty, TDict):
                return Val(ty, ty.empty())
            if isinstance(v.obj, tuple) and v.obj[0] == "emptylist" and isinstance(ty, TSeq):
                return Val(ty, z3.Empty(ty.sort()))
            if isinstance(ty, TObj) or ty is None:
                return v
            raise EngineError(f"cannot coerce {v} to {ty}")
        if v.ty == ty:
            return v
        h0 = self.x.reg.stubs.get(("coerce", v.ty.name, ty.name))
        if h0 is not None:
            return h0(self, v, ty)
        if isinstance(ty, TOpt):
            if v.ty is TNone:
                return Val(ty, ty.none())
            if isinstance(v.ty, TOpt):
                raise EngineError(f"cannot coerce {v.ty} to {ty}")
            inner = self.coerce(v, ty.inner)
            return Val(ty, ty.some(inner.t))
        if isinstance(v.ty, TOpt) and ty is TAny:
            # an Optional flowing into a dynamically typed place: None is just another value
            inner = ops.to_pyval(self, Val(v.ty.inner, v.ty.get(v.t)))
            return Val(TAny, z3.If(v.ty.is_none(v.t), TAny.sort().NoneV, inner.t))
        if isinstance(v.ty, TOpt):
            # use of Optional[T] where T is needed: the declared type says it cannot be None here
            if not self.spec:
                self.oblige(f"type#notnone", z3.Not(v.ty.is_none(v.t)), kind="safe",
                            note=f"Optional value used as {ty}")
            return self.coerce(Val(v.ty.inner, v.ty.get(v.t)), ty)
        if isinstance(ty, TRef) and v.ty is TNone:
            return Val(ty, z3.IntVal(0))
        if isinstance(ty, TRef) and isinstance(v.ty, TRef):
            return Val(ty, v.t)
        if ty is TAny:
            return ops.to_pyval(self, v)
        if v.ty is TAny:
            return ops.from_pyval(self, v, ty)
        if ty is TInt and v.ty is TBool:
            return Val(TInt, z3.If(v.t, 1, 0))
        h = self.x.reg.stubs.get(("coerce", v.ty.name, ty.name))
        if h is not None:
            return h(self, v, ty)
        if isinstance(ty, TObj):
            # injection of a concrete value into an opaque sort (only equality is observable)
            if v.ty is TNone:
                return Val(ty, z3.Const(f"none_{ty.name}", ty.sort()))
            return Val(ty, ops.uf(f"inj_{v.ty.name}_{ty.name}", v.ty.sort(), ty.sort())(v.t))
        raise EngineError(f"cannot coerce {v.ty} to {ty}")

    # ---------------------------------------------------------------- statements
    def exec_block(self, body, fr):
        for st in body:
            self.exec_stmt(st, fr)

    def exec_stmt(self, st, fr):
        m = getattr(self, "st_" + type(st).__name__, None)
        if m is None:
            raise EngineError(f"unsupported statement {type(st).__name__} at line {st.lineno}")
        return m(st, fr)

    def st_Expr(self, st, fr):
        if isinstance(st.value, ast.Constant):
            return  # docstring
        self.ev(st.value, fr)

    def st_Pass(self, st, fr):
        pass

    def st_Assert(self, st, fr):
        c = self.truth(self.ev(st.test, fr))
        self.implicit_raise(c, "AssertionError", st)

    def st_Global(self, st, fr):
        fr.globals_decl.update(st.names)

    def st_Nonlocal(self, st, fr):
        fr.nonlocals.update(st.names)

    def st_Import(self, st, fr):
        for a in st.names:
            fr.vars[a.asname or a.name.split(".")[0]] = Conc(("module", a.name))

    def st_ImportFrom(self, st, fr):
        for a in st.names:
            fr.vars[a.asname or a.name] = self.x.resolve_import(st.module, a.name)

    def st_FunctionDef(self, st, fr):
        fi = FuncInfo(fr.finfo.module, fr.finfo.qualname + ".<locals>." + st.name, st, None)
        fr.vars[st.name] = Conc(Closure(st, fr, fi))

    def st_Return(self, st, fr):
        v = self.ev(st.value, fr) if st.value is not None else NONE
        raise _Return(v)

    def st_Break(self, st, fr):
        raise _Break()

    def st_Continue(self, st, fr):
        raise _Continue()

    def st_Delete(self, st, fr):
        for t in st.targets:
            if isinstance(t, ast.Subscript):
                cont = self.ev(t.value, fr)
                key = self.ev(t.slice, fr)
                new = ops.delitem(self, cont, key, t)
                self.assign(t.value, new, fr, writeback=True)
            elif isinstance(t, ast.Name):
                o = fr.owner(t.id)
                if o is None:
                    raise EngineError(f"del of unknown name {t.id}")
                del o.vars[t.id]
            else:
                raise EngineError(f"unsupported del target at line {st.lineno}")

    def st_Assign(self, st, fr):
        hint = None
        if len(st.targets) == 1:
            t0 = st.targets[0]
            if isinstance(t0, ast.Name):
                hint = fr.local_types.get(t0.id) or self.x.local_type(fr.finfo, t0.id)
            elif isinstance(t0, ast.Attribute):
                hint = self.attr_type_hint(t0, fr)
            elif isinstance(t0, ast.Subscript) and isinstance(st.value, (ast.List, ast.Dict, ast.Call)):
                try:
                    cont = self.ev(t0.value, fr)
                    if isinstance(cont, Val) and isinstance(cont.ty, TDict):
                        hint = cont.ty.v
                    elif isinstance(cont, Val) and isinstance(cont.ty, TSeq):
                        hint = cont.ty.elem
                except EngineError:
                    hint = None
        v = self.ev_typed(st.value, fr, hint)
        for t in st.targets:
            self.assign(t, v, fr)

    def st_AnnAssign(self, st, fr):
        if st.value is None:
            return
        if isinstance(st.target, ast.Name):
            ty = self.x.local_type(fr.finfo, st.target.id) or self.x.type_from_annotation(st.annotation, fr, soft=True)   # the sidecar's declaration wins
            if ty is not None and st.target.id not in fr.local_types:
                fr.local_types[st.target.id] = ty
        hint = fr.local_types.get(getattr(st.target, "id", None))
        if isinstance(st.target, ast.Name):
            hint = self.x.local_type(fr.finfo, st.target.id) or hint
        if isinstance(st.target, ast.Attribute):
            hint = self.attr_type_hint(st.target, fr)
        v = self.ev_typed(st.value, fr, hint)
        self.assign(st.target, v, fr)

    def attr_type_hint(self, target, fr):
        try:
            obj = self.ev(target.value, fr)
        except EngineError:
            return None
        if isinstance(obj, Val) and isinstance(obj.ty, TRef) and self.x.has_field(obj.ty.cls, target.attr):
            return self.x.field_type(obj.ty.cls, target.attr)
        return None

    def ev_typed(self, node, fr, ty):
        """Evaluate with a type hint for empty displays ([] / {} / set())."""
        if ty is not None and isinstance(node, ast.IfExp) and not self.spec:
            c = self.truth(self.ev(node.test, fr))
            if self.branch(c):
                return self.ev_typed(node.body, fr, ty)
            return self.ev_typed(node.orelse, fr, ty)
        if ty is not None:
            if isinstance(node, ast.List) and not node.elts and isinstance(ty, TSeq):
                if ty.elem is TStr:
                    fact = ops.str_join(z3.StringVal(""), z3.Empty(ty.sort())) == z3.StringVal("")
                    self.pc.append(fact)
                    self.solver_add(fact)
                return Val(ty, z3.Empty(ty.sort()))
            if isinstance(node, ast.Dict) and not node.keys and isinstance(ty, TDict):
                return Val(ty, ty.empty())
            if isinstance(node, ast.Call) and isinstance(node.func, ast.Name) and node.func.id == "set" and not node.args and isinstance(ty, TSet):
                return Val(ty, ty.empty())
        return self.ev(node, fr)

    def st_AugAssign(self, st, fr):
        cur = self.ev(st.target, fr)
        rhs = self.ev(st.value, fr)
        new = ops.binop(self, st.op, cur, rhs, st)
        self.assign(st.target, new, fr)

    def assign(self, target, v, fr, writeback=False):
        """writeback=True: `v` is the new value of a container that was mutated in place through `target`."""
        if isinstance(target, ast.Name):
            name = target.id
            if writeback and name in self.foreign_vars.get(id(fr.owner(name) or fr), ()):
                self.oblige(f"frame#foreign_object_mutated_through_{name}", z3.BoolVal(False), kind="frame",
                            note=f"`{name}` aliases an object this function does not own (obtained from user code / a dependency); it is mutated in place at line {getattr(target, 'lineno', '?')}")
            if not writeback:
                owner = id(fr.owner(name) or fr)
                if isinstance(v, Val) and v.foreign:
                    self.foreign_vars.setdefault(owner, set()).add(name)
                    for lo in self.loop_stack:
                        # inside an (arbitrary) iteration: later iterations start with this variable possibly foreign
                        self.x.maybe_foreign.add((lo, name))
                else:
                    self.foreign_vars.get(owner, set()).discard(name)
            if writeback and fr.lookup(name) is not None and name not in fr.vars and name not in fr.globals_decl:
                # mutation through a variable of an enclosing scope
                fr.owner(name).vars[name] = v
                return
            if writeback and fr.lookup(name) is None and name in self.globals:
                self.globals[name] = self.coerce(v, self.globals[name].ty)
                return
            if name in fr.globals_decl or (name not in fr.vars and fr.lookup(name) is None and name in self.globals and fr.parent is None and name in fr.globals_decl):
                self.globals[name] = self.coerce(v, self.globals[name].ty) if name in self.globals else v
                return
            f = fr
            if name in fr.nonlocals:
                f = fr.parent.owner(name) if fr.parent else None
                if f is None:
                    raise EngineError(f"nonlocal {name} not found")
            lt = f.local_types.get(name) or self.x.local_type(f.finfo, name)
            if lt is not None:
                was_foreign = isinstance(v, Val) and v.foreign
                v = self.coerce(v, lt)
                if was_foreign and isinstance(v, Val):
                    v.foreign = True
                    self.foreign_vars.setdefault(id(f), set()).add(name)
                    for lo in self.loop_stack:
                        self.x.maybe_foreign.add((lo, name))
            f.vars[name] = v
        elif isinstance(target, (ast.Tuple, ast.List)):
            items = ops.unpack(self, v, len(target.elts), target)
            for t, i in zip(target.elts, items):
                self.assign(t, i, fr)
        elif isinstance(target, ast.Attribute):
            obj = self.ev(target.value, fr)
            self._cur_frame = fr
            self.set_attr(obj, target.attr, v, target)
        elif isinstance(target, ast.Subscript) and writeback:
            # nested write-back: d[k] was mutated in place
            cont = self.ev(target.value, fr)
            key = self.ev(target.slice, fr)
            new = ops.setitem(self, cont, key, v, target)
            if new is not None:
                self.assign(target.value, new, fr, writeback=True)
        elif isinstance(target, ast.Subscript):
            cont = self.ev(target.value, fr)
            if isinstance(target.slice, ast.Slice):
                raise EngineError("slice assignment unsupported")
            key = self.ev(target.slice, fr)
            new = ops.setitem(self, cont, key, v, target)
            if new is not None:
                self.assign(target.value, new, fr, writeback=True)
        elif isinstance(target, ast.Starred):
            raise EngineError("starred assignment unsupported")
        else:
            raise EngineError(f"unsupported assignment target {type(target).__name__}")

    def set_attr(self, obj, attr, v, node):
        if isinstance(obj, Val) and isinstance(obj.ty, TRef):
            self.implicit_raise(obj.t != 0, "AttributeError", node, "attribute of None")
            self.store_field(obj.t, obj.ty.cls, attr, v)
            return
        if isinstance(obj, Val) and isinstance(obj.ty, TTup) and attr in obj.ty.fields:
            # by-value record held in a local variable (sidecar: REG.value_record): the variable gets the updated record.
            # Sound as long as the object is not observed through another alias afterwards (stated by the contract).
            if obj.ty.name in self.x.reg.value_records and isinstance(node.value, ast.Name):
                ty = obj.ty
                idx = ty.fields.index(attr)
                items = [ty.proj(obj.t, i) for i in range(len(ty.items))]
                items[idx] = self.coerce(v, ty.items[idx]).t
                self.assign(node.value, Val(ty, ty.mk(*items)), self._cur_frame, writeback=True)
                return
            raise EngineError("assignment to a field of a by-value record; declare the class as heap-allocated")
        h = self.x.attr_setter(obj, attr)
        if h is not None:
            return h(self, obj, v, node)
        if isinstance(obj, Conc) and isinstance(obj.obj, tuple) and obj.obj[0] == "obj_kind":
            # an object of a dependency whose ASSUMED contract describes it as immutable (a function of its constructor
            # arguments) is being mutated: the code leaves the protocol the stub was stated for
            self.oblige(f"pre@{obj.obj[1]}#used_within_its_assumed_protocol", z3.BoolVal(False), kind="pre",
                        note=f"attribute `{attr}` of a `{obj.obj[1]}` object is assigned at line {node.lineno}; the stub models this dependency as immutable")
            raise PathEnd()
        raise EngineError(f"attribute store {attr} on {obj} at line {node.lineno}")

    def st_If(self, st, fr):
        c = self.truth(self.ev(st.test, fr))
        if self.branch(c):
            self.exec_block(st.body, fr)
        else:
            self.exec_block(st.orelse, fr)

    def st_Raise(self, st, fr):
        if st.exc is None:
            if not self.cur_exc:
                raise EngineError("bare raise outside except")
            raise PyRaise(self.cur_exc[-1])
        e = self.ev(st.exc, fr)
        if isinstance(e, Conc) and isinstance(e.obj, ExcVal):
            raise PyRaise(e.obj)
        if isinstance(e, Conc) and isinstance(e.obj, tuple) and e.obj[0] == "exc_class":
            raise PyRaise(ExcVal(e.obj[1], [], site=f"raise at line {st.lineno}"))
        raise EngineError(f"raise of non-exception {e} at line {st.lineno}")

    def st_Try(self, st, fr):
        def body():
            try:
                self.exec_block(st.body, fr)
            except PyRaise as pr:
                exc = pr.exc
                for h in st.handlers:
                    if self.handler_matches(h, exc, fr):
                        if h.name:
                            fr.vars[h.name] = Conc(exc)
                        self.cur_exc.append(exc)
                        try:
                            self.exec_block(h.body, fr)
                        finally:
                            self.cur_exc.pop()
                        return
                raise
            else:
                self.exec_block(st.orelse, fr)

        if st.finalbody:
            try:
                body()
            except (PyRaise, _Return, _Break, _Continue):
                self.exec_block(st.finalbody, fr)
                raise
            else:
                self.exec_block(st.finalbody, fr)
        else:
            body()

    def handler_matches(self, h, exc, fr):
        if h.type is None:
            return True
        tnodes = h.type.elts if isinstance(h.type, ast.Tuple) else [h.type]
        for tn in tnodes:
            c = self.ev(tn, fr)
            if not (isinstance(c, Conc) and isinstance(c.obj, tuple) and c.obj[0] == "exc_class"):
                raise EngineError(f"except clause with non-class {c}")
            r = exc_isinstance(exc.tname, c.obj[1])
            if r is None:
                # user exception of unknown type vs. a specific class: both are possible
                k = self.choose(2, None)
                if k == 0:
                    exc.notes.append(f"assumed instance of {c.obj[1]}")
                    return True
                continue
            if r:
                return True
        return False

    def st_With(self, st, fr):
        if len(st.items) != 1:
            # nest
            inner = ast.With(items=st.items[1:], body=st.body, lineno=st.lineno, col_offset=st.col_offset)
            outer = ast.With(items=st.items[:1], body=[inner], lineno=st.lineno, col_offset=st.col_offset)
            return self.st_With(outer, fr)
        item = st.items[0]
        cm = self.ev(item.context_expr, fr)
        enter, exit_ = self.x.context_manager(self, cm, item.context_expr)
        v = enter()
        if item.optional_vars is not None:
            self.assign(item.optional_vars, v, fr)
        try:
            self.exec_block(st.body, fr)
        except PyRaise as pr:
            swallow = exit_(pr.exc)
            if not swallow:
                raise
        except (_Return, _Break, _Continue):
            exit_(None)
            raise
        else:
            exit_(None)

    # ---- loops
    def st_While(self, st, fr):
        self.loop(st, fr, kind="while")

    def st_For(self, st, fr):
        it = self.ev(st.iter, fr)
        if isinstance(it, VTuple):
            # statically known length: unroll
            try:
                for item in it.items:
                    self.assign(st.target, item, fr)
                    try:
                        self.exec_block(st.body, fr)
                    except _Continue:
                        continue
            except _Break:
                return
            self.exec_block(st.orelse, fr)
            return
        self.loop(st, fr, kind="for", iterable=it)

    def loop(self, st, fr, kind, iterable=None):
        x = self.x
        ordinal = x.loop_ordinal(st)
        spec = x.loop_spec(ordinal)
        if spec is None:
            spec = Loop()
            x.weak_loops.add(ordinal)
        lname = f"loop:{ordinal}"
        idx_name = spec.index or f"_i{ordinal}"
        seq = None
        if kind == "for":
            seq = ops.iter_to_seq(self, iterable, st)
            fr.vars[idx_name] = mk_int(0)
            fr.vars[f"_seq{ordinal}"] = seq
        # 1. invariant on entry
        for k, inv in enumerate(spec.inv):
            self.oblige(f"inv-init#{lname}#{k}", self.spec_bool(inv, fr), kind="inv-init", qf_only=getattr(inv, "_qf_only", False))
        # 2. havoc everything the body may assign
        assigned, fields, globs = x.loop_assigned(st, fr)
        if spec.modifies is not None:
            for m in spec.modifies:
                (fields if "." in m else globs).add(m)
        pre_vars = {}
        for name in sorted(assigned):
            o = fr.owner(name)
            if o is None:
                continue  # first assigned inside the loop: local to an iteration
            cur = o.vars[name]
            pre_vars[name] = cur
            if isinstance(cur, Val) and isinstance(cur.ty, TRef) and name not in x.loop_rebound:
                continue      # a reference that is only mutated THROUGH: the heap changes, the reference does not
            if isinstance(cur, Val) and cur.ty is not TNone:
                nv = Val(cur.ty, cur.ty.fresh(f"{name}!l{ordinal}"))
                o.vars[name] = nv
                self.wf(nv)
            elif isinstance(cur, Conc) and isinstance(cur.obj, Closure):
                pass
            else:
                raise EngineError(f"loop {ordinal}: cannot havoc variable '{name}' holding {cur}; declare its type in the sidecar `locals`")
        for f in sorted(fields):
            cls, fld = f.split(".")
            arr = self.field_array(cls, fld)
            self.heap[f] = z3.FreshConst(arr.sort(), f"heap!{f}!l{ordinal}")
        for g in sorted(globs):
            if g in self.globals:
                cur = self.globals[g]
                self.globals[g] = Val(cur.ty, cur.ty.fresh(f"{g}!l{ordinal}"))
                self.wf(self.globals[g])
        if kind == "for":
            iv = Val(TInt, z3.FreshConst(z3.IntSort(), f"{idx_name}!l{ordinal}"))
            fr.vars[idx_name] = iv
            self.assume(iv.t >= 0)
            self.assume(iv.t <= z3.Length(seq.t))
        for name in sorted(assigned):
            if (ordinal, name) in x.maybe_foreign:
                o = fr.owner(name)
                if o is not None:
                    self.foreign_vars.setdefault(id(o), set()).add(name)
        for inv in spec.inv:
            self.assume(self.spec_bool(inv, fr))
        variant0 = self.spec_val(spec.variant, fr).t if spec.variant else None
        # 3. iterate once from an arbitrary state, or leave
        which = self.choose(2, None)
        if which == 0:
            if kind == "for":
                i = fr.vars[idx_name].t
                self.assume(i < z3.Length(seq.t))
                self.assign(st.target, Val(seq.ty.elem, seq.t[i]), fr)
                self.wf(Val(seq.ty.elem, seq.t[i]))
            else:
                c = self.truth(self.ev(st.test, fr))
                if not self.branch(c):
                    raise PathEnd()  # covered by the exit alternative
            self.loop_stack.append(ordinal)
            try:
                try:
                    self.exec_block(st.body, fr)
                except _Continue:
                    pass
            except _Break:
                self.loop_stack.pop()
                return  # leaves the loop without the else clause; continues after the loop
            except BaseException:
                self.loop_stack.pop()
                raise
            self.loop_stack.pop()
            if kind == "for":
                fr.vars[idx_name] = Val(TInt, fr.vars[idx_name].t + 1)
            for k, inv in enumerate(spec.inv):
                self.oblige(f"inv-keep#{lname}#{k}", self.spec_bool(inv, fr), kind="inv-keep", qf_only=getattr(inv, "_qf_only", False))
            if spec.variant:
                v1 = self.spec_val(spec.variant, fr).t
                self.oblige(f"variant#{lname}", z3.And(variant0 >= 0, v1 < variant0), kind="variant")
            raise PathEnd()
        else:
            if kind == "for":
                self.assume(fr.vars[idx_name].t == z3.Length(seq.t))
                # the invariant at the exit index, stated over len(seq) itself (the same fact, but later clauses that speak
                # about len(seq) then match it without equality reasoning over the index variable)
                fr.vars[idx_name] = Val(TInt, z3.Length(seq.t))
                for inv in spec.inv:
                    self.assume(self.spec_bool(inv, fr))
            else:
                c = self.truth(self.ev(st.test, fr))
                if self.branch(c):
                    raise PathEnd()
            if spec.cut is not None:
                from .quant import _contains_quant
                cuts = [self.spec_bool(cl, fr) for cl in spec.cut]
                for k, cl in enumerate(cuts):
                    self.oblige(f"cut#{lname}#{k}", cl, kind="cut", note=str(spec.cut[k]))
                self.pc = [a for a in self.pc if not _contains_quant(a)]
                for cl in cuts:
                    self.pc.append(cl)
                    self.solver_add(cl)
            self.exec_block(st.orelse, fr)

    # ---------------------------------------------------------------- expressions
    def truth(self, v):
        return ops.truth(self, v)

    def ev(self, node, fr):
        m = getattr(self, "ex_" + type(node).__name__, None)
        if m is None:
            raise EngineError(f"unsupported expression {type(node).__name__} at line {getattr(node, 'lineno', '?')}")
        return m(node, fr)

    def ex_Constant(self, node, fr):
        v = node.value
        if v is None:
            return NONE
        if isinstance(v, bool):
            return mk_bool(v)
        if isinstance(v, int):
            return mk_int(v)
        if isinstance(v, str):
            return mk_str(v)
        if isinstance(v, bytes):
            r = mk_str(v.decode("latin-1"))
            return Val(r.ty, r.t, pykind="bytes")
        if v is Ellipsis:
            return Conc(Ellipsis)
        if isinstance(v, float):
            return Conc(("float", v))       # opaque: floats are only passed on to stubs, never computed with
        raise EngineError(f"unsupported constant {v!r}")

    def ex_Name(self, node, fr):
        name = node.id
        v = fr.lookup(name)
        if v is not None and name not in fr.globals_decl:
            return v
        if name in self.globals:
            return self.globals[name]
        if self.spec and name in self.ghost:
            return self.ghost[name]
        r = self.x.resolve_global(self, fr.finfo.module, name, node)
        if isinstance(r, Conc) and isinstance(r.obj, tuple) and r.obj[0] == "lazyconst":
            try:
                return self.x.eval_const(self, load_module(r.obj[1]), r.obj[2])
            except EngineError:
                return r
        return r

    def ex_Tuple(self, node, fr):
        items = []
        for e in node.elts:
            if isinstance(e, ast.Starred):
                s = self.ev(e.value, fr)
                if not isinstance(s, VTuple):
                    raise EngineError("star-unpacking of a non-static sequence in a tuple display")
                items.extend(s.items)
            else:
                items.append(self.ev(e, fr))
        return VTuple(items)

    def ex_List(self, node, fr):
        if any(isinstance(e, ast.Starred) for e in node.elts):
            # [*a, x, *b]: concatenation of the starred sequences and the single items
            parts, ty = [], None
            vals = [(isinstance(e, ast.Starred), self.ev(e.value if isinstance(e, ast.Starred) else e, fr)) for e in node.elts]
            conv = []
            for star, v in vals:
                if star:
                    v = ops.iter_to_seq(self, v, node) if not isinstance(v, VTuple) else v
                    if isinstance(v, Val):
                        ty = v.ty
                conv.append((star, v))
            vals = conv
            if ty is None:
                flat = []
                for star, v in vals:
                    flat.extend(v.items if star else [v])
                return ops.seq_from_items(self, flat, None) if flat else (_ for _ in ()).throw(EngineError("empty starred list display"))
            for star, v in vals:
                if star and isinstance(v, VTuple):
                    v = ops.seq_from_items(self, v.items, ty)
                parts.append(v.t if star else z3.Unit(self.coerce(v, ty.elem).t))
            return Val(ty, z3.Concat(*parts) if len(parts) > 1 else parts[0])
        items = [self.ev(e, fr) for e in node.elts]
        if not items:
            return Conc(("emptylist",))
        return ops.seq_from_items(self, items, None)

    def ex_Dict(self, node, fr):
        if not node.keys:
            return Conc(("emptydict",))
        if all(k is not None for k in node.keys):
            # small literal handed to a stub (e.g. context.update({KEY: value})): kept at the meta level
            return Conc(("dictlit", [(self.ev(k, fr), self.ev(v, fr), v) for k, v in zip(node.keys, node.values)]))
        # {**a, k: v, **b}: merged left to right (later entries win)
        acc = None
        for k, v in zip(node.keys, node.values):
            if k is None:
                d = self.ev(v, fr)
                if isinstance(d, Conc) and d.obj == ("emptydict",):
                    continue
                if isinstance(d, Conc) and isinstance(d.obj, tuple) and d.obj[0] == "dictlit":
                    for kk, vv, _n in d.obj[1]:
                        acc = ops.setitem(self, acc if acc is not None else Conc(("emptydict",)), kk, vv, node)
                    continue
                if not (isinstance(d, Val) and isinstance(d.ty, TDict)):
                    raise EngineError(f"dict display: ** of {d} (line {node.lineno})")
                if acc is None:
                    acc = Val(d.ty, d.t)
                else:
                    from .builtins import call_method
                    _r, acc = call_method(self, acc, "update", [d], {}, node)
            else:
                acc = ops.setitem(self, acc if acc is not None else Conc(("emptydict",)), self.ev(k, fr), self.ev(v, fr), node)
        return acc if acc is not None else Conc(("emptydict",))

    def ex_Yield(self, node, fr):
        """`yield` of a @contextmanager generator: the with-body runs here.  The contract's `yield_hook` states what
        the body may assume (obligations), what it may change (havoc + rely) and that it may raise anything."""
        h = getattr(self.x.c, "yield_hook", None)
        if h is None:
            raise EngineError("yield without a yield_hook in the contract")
        return h(self, fr)

    def ex_JoinedStr(self, node, fr):
        parts = []
        for p in node.values:
            if isinstance(p, ast.Constant):
                parts.append(z3.StringVal(p.value))
            else:
                v = self.ev(p.value, fr)
                parts.append(ops.to_str(self, v, p).t)
        if not parts:
            return mk_str("")
        return Val(TStr, z3.Concat(*parts) if len(parts) > 1 else parts[0])

    def ex_BoolOp(self, node, fr):
        is_and = isinstance(node.op, ast.And)
        if self.spec:
            vals = [self.truth(self.ev(v, fr)) for v in node.values]
            return Val(TBool, z3.And(*vals) if is_and else z3.Or(*vals))
        last = None
        for i, vn in enumerate(node.values):
            last = self.ev(vn, fr)
            if i == len(node.values) - 1:
                return last
            t = self.truth(last)
            if is_and:
                if not self.branch(t):
                    return last if (isinstance(last, Val) and last.ty is TBool) else ops.falsy_of(self, last)
            else:
                if self.branch(t):
                    return last
        return last

    def ex_UnaryOp(self, node, fr):
        v = self.ev(node.operand, fr)
        if isinstance(node.op, ast.Not):
            return Val(TBool, z3.Not(self.truth(v)))
        if isinstance(node.op, ast.USub):
            v = self.coerce(v, TInt)
            return Val(TInt, -v.t)
        raise EngineError("unsupported unary op")

    def ex_BinOp(self, node, fr):
        a = self.ev(node.left, fr)
        b = self.ev(node.right, fr)
        return ops.binop(self, node.op, a, b, node)

    def ex_Compare(self, node, fr):
        left = self.ev(node.left, fr)
        conds = []
        for op, rn in zip(node.ops, node.comparators):
            right = self.ev(rn, fr)
            c = ops.compare(self, op, left, right, node)
            conds.append(c)
            if not self.spec and len(node.ops) > 1:
                if not self.branch(c):
                    return mk_bool(False)
            left = right
        return Val(TBool, z3.And(*conds) if len(conds) > 1 else conds[0])

    def ex_IfExp(self, node, fr):
        c = self.truth(self.ev(node.test, fr))
        if self.spec:
            self.guards.append(c)
            try:
                a = self.ev(node.body, fr)
            finally:
                self.guards.pop()
            self.guards.append(z3.Not(c))
            try:
                b = self.ev(node.orelse, fr)
            finally:
                self.guards.pop()
            return ops.ite(self, c, a, b)
        if self.branch(c):
            return self.ev(node.body, fr)
        return self.ev(node.orelse, fr)

    def ex_Subscript(self, node, fr):
        # Generic class subscription: CacheNode[T] -> CacheNode
        base = self.ev(node.value, fr)
        if isinstance(base, Conc) and isinstance(base.obj, tuple) and base.obj[0] in ("class", "typing"):
            return base
        if isinstance(node.slice, ast.Slice):
            lo = self.ev(node.slice.lower, fr) if node.slice.lower is not None else None
            hi = self.ev(node.slice.upper, fr) if node.slice.upper is not None else None
            if node.slice.step is not None:
                raise EngineError("slice step unsupported")
            return ops.getslice(self, base, lo, hi, node)
        key = self.ev(node.slice, fr)
        return ops.getitem(self, base, key, node)

    def ex_Attribute(self, node, fr):
        obj = self.ev(node.value, fr)
        return self.get_attr(obj, node.attr, node)

    def get_attr(self, obj, attr, node):
        if isinstance(obj, Val) and isinstance(obj.ty, TRef):
            cls = obj.ty.cls
            if self.x.has_field(cls, attr):
                self.implicit_raise(obj.t != 0, "AttributeError", node, "attribute of None")
                return self.load_field(obj.t, cls, attr)
            m = self.x.find_method(cls, attr)
            if m is not None:
                if "property" in m.decorators:
                    return self.x.call_function(self, m, [obj], {}, node)
                return Conc(("bound", m, obj))
            raise EngineError(f"unknown attribute {cls}.{attr} (line {node.lineno}); declare it in the sidecar `classes`")
        if isinstance(obj, Val) and isinstance(obj.ty, TTup) and attr in obj.ty.fields:
            return Val(obj.ty.items[obj.ty.fields.index(attr)], obj.ty.proj(obj.t, attr))
        if isinstance(obj, Val) and isinstance(obj.ty, TOpt):
            self.implicit_raise(z3.Not(obj.ty.is_none(obj.t)), "AttributeError", node, "attribute of None")
            return self.get_attr(Val(obj.ty.inner, obj.ty.get(obj.t)), attr, node)
        h = self.x.attr_getter(obj, attr)
        if h is not None:
            return h(self, obj, node)
        return Conc(("method", obj, attr))

    def ex_Call(self, node, fr):
        return self.x.do_call(self, node, fr)

    def ex_Lambda(self, node, fr):
        return Conc(Closure(node, fr, fr.finfo))

    def ex_Starred(self, node, fr):
        raise EngineError("starred expression outside call/tuple")

    def ex_ListComp(self, node, fr):
        return ops.comprehension(self, node, fr, "list")

    def ex_GeneratorExp(self, node, fr):
        return Conc(("genexp", node, fr))

    def ex_SetComp(self, node, fr):
        return ops.comprehension(self, node, fr, "set")

    def ex_DictComp(self, node, fr):
        return ops.comprehension(self, node, fr, "dict")

    # ---------------------------------------------------------------- spec evaluation
    def spec_val(self, spec, fr, extra=None):
        """Evaluate a spec (string expression or python callable) without forking or obligations."""
        self.spec += 1
        try:
            if callable(spec):
                try:
                    return spec(SpecCtx(self, fr, extra))
                except (z3.Z3Exception, KeyError, AttributeError, TypeError, IndexError) as e:
                    raise EngineError(f"contract clause `{getattr(spec, '__name__', 'clause')}` of {self.x.unit_name} does not fit the code any more "
                                      f"(variables / loop shapes it talks about changed): {type(e).__name__}: {e}")
            tree = self.x.parse_spec(spec)
            sf = Frame(fr.finfo, parent=fr)
            if extra:
                sf.vars.update(extra)
            return self.ev(tree, sf)
        finally:
            self.spec -= 1

    def spec_bool(self, spec, fr, extra=None):
        v = self.spec_val(spec, fr, extra)
        if isinstance(v, (z3.BoolRef, bool)):
            return v if not isinstance(v, bool) else z3.BoolVal(v)
        return self.truth_spec(v)

    def truth_spec(self, v):
        self.spec += 1
        try:
            return ops.truth(self, v)
        finally:
            self.spec -= 1


class SpecCtx:
    """Handed to python-callable specs: access to variables, heap and the entry state."""

    def __init__(self, run, fr, extra=None):
        self.run, self.fr, self.extra = run, fr, extra or {}

    def __getitem__(self, name):
        if name in self.extra:
            return self.extra[name]
        v = self.fr.lookup(name)
        if v is None:
            if name in self.run.globals:
                return self.run.globals[name]
            if name in self.run.ghost:
                return self.run.ghost[name]
            raise EngineError(f"spec refers to unknown variable {name}")
        return v

    def t(self, name):
        return self[name].t

    def field(self, cls, field, old=False):
        if old:
            return self.run.old["heap"].get(f"{cls}.{field}") if f"{cls}.{field}" in self.run.old["heap"] else self.run.x.initial_field(self.run, cls, field)
        return self.run.field_array(cls, field)

    def old(self, name):
        o = self.run.old
        if name in o["vars"]:
            return o["vars"][name]
        if name in o["globals"]:
            return o["globals"][name]
        raise EngineError(f"old({name}) unknown")

    def ev(self, expr, **extra):
        e = dict(self.extra)
        e.update(extra)
        return self.run.spec_val(expr, self.fr, e)

    @property
    def ghost(self):
        return self.run.ghost

    @property
    def old_ghost(self):
        return self.run.old["ghost"]

    @property
    def old_next_ref(self):
        """allocation counter at entry: every reference >= it is an object created by this call"""
        return self.run.old.get("next_ref", z3.Int("next_ref0"))

    def opaque(self, name, args, fn):
        """Opaque predicate `name(args)` DEFINED as fn(*args) (fn must use nothing but its arguments and global functions).
        Callers carry the predicate as an uninterpreted atom; only a unit that lists `name` in `reveal=` gets the
        definitional instance  name(args) == fn(*args)  for the argument tuples its own contract mentions."""
        P = ops.uf(name, *[a.sort() for a in args], z3.BoolSort())(*args)
        if not self.run.modular and name in self.run.x.c.reveal:
            self.run.pc.append(P == fn(*args))
        return P

    def define_array(self, dom, rng, fn, name="def"):
        """Definitional extension: a fresh array A with  forall i. A[i] == fn(i)  (always satisfiable)."""
        A = z3.FreshConst(z3.ArraySort(dom, rng), name)
        i = z3.FreshConst(dom, "i")
        ax = z3.ForAll([i], z3.Select(A, i) == fn(i))
        self.run.pc.append(ax)
        return A
