"""Quantifier handling: queries handed to the solvers are made quantifier-free.

assertions (hypotheses + negated goal) --skolemise (z3 `snf`)--> only universals remain, all in positive position
--> each universal is replaced by the conjunction of its instances at a finite set of ground terms chosen by
single-term E-matching done here: a bound variable v that occurs in the body as an index `f(.., v+c, ..)`
(f = seq.nth / select / an uninterpreted function) is instantiated with g-c for every ground occurrence
`f(.., g, ..)` in the query; a variable without such an occurrence gets the free constants of its sort.
Replacing a positive universal by finitely many instances only WEAKENS the assertion set, so `unsat` of the result
is a proof.  `sat` of the result is only a candidate (goes through replay / the un-weakened re-query).
"""
import itertools
import os

import z3

MAX_INST_PER_Q = 400
SMALL_POOL = 12
_keep = []  # keeps ASTs alive so that get_id() keys stay unique


def skolemize(assertions):
    g = z3.Goal()
    for a in assertions:
        g.add(a)
    r = z3.Tactic("snf")(g)
    out = []
    for sub in r:
        # simplify: accessor-of-constructor, select-over-store etc. are rewritten so that triggers can see through
        # heap / dictionary updates
        out.extend(z3.simplify(a) for a in sub)
    return out


_var_cache = {}
_q_cache = {}


def _has_var(e):
    i = e.get_id()
    if i in _var_cache:
        return _var_cache[i][0]
    if z3.is_var(e):
        r = True
    elif z3.is_quantifier(e):
        r = _has_var(e.body())
    else:
        r = any(_has_var(c) for c in e.children())
    _var_cache[i] = (r, e)
    return r


def _contains_quant(e):
    i = e.get_id()
    if i in _q_cache:
        return _q_cache[i][0]
    if z3.is_quantifier(e):
        r = True
    else:
        r = any(_contains_quant(c) for c in e.children())
    _q_cache[i] = (r, e)
    return r


class CC:
    """Tiny congruence closure over the ground terms of the query, seeded with the top-level equalities.
    Used only to decide which ground index terms a trigger may match (E-matching modulo asserted equalities)."""

    def __init__(self, exprs):
        self.parent = {}
        self.terms = {}
        self.shape = {}
        seen = set()

        def rec(e):
            i = e.get_id()
            if i in seen:
                return
            seen.add(i)
            if z3.is_quantifier(e):
                rec(e.body())
                return
            if z3.is_app(e):
                ch = e.children()
                for c in ch:
                    rec(c)
                if not _has_var(e):
                    self.terms[i] = e
                    self.parent.setdefault(i, i)
                    if ch:
                        self.shape[i] = (e.decl().get_id(), [c.get_id() for c in ch])

        def top_eqs(e):
            if z3.is_and(e):
                for c in e.children():
                    top_eqs(c)
            elif z3.is_eq(e) and not _has_var(e):
                a, b = e.children()
                self.union(a.get_id(), b.get_id())

        for e in exprs:
            rec(e)
        for e in exprs:
            top_eqs(e)
        self.close()

    def find(self, i):
        p = self.parent.setdefault(i, i)
        while p != self.parent[p]:
            self.parent[p] = self.parent[self.parent[p]]
            p = self.parent[p]
        self.parent[i] = p
        return p

    def union(self, a, b):
        ra, rb = self.find(a), self.find(b)
        if ra != rb:
            self.parent[max(ra, rb)] = min(ra, rb)
            return True
        return False

    def close(self):
        for _ in range(6):
            sig = {}
            changed = False
            for i, (did, chs) in self.shape.items():
                k = (did, tuple(self.find(c) for c in chs))
                j = sig.get(k)
                if j is None:
                    sig[k] = i
                elif self.union(i, j):
                    changed = True
            if not changed:
                break

    def rep(self, e):
        return self.find(e.get_id())


def _is_indexing(e):
    if not z3.is_app(e) or e.num_args() == 0:
        return False
    k = e.decl().kind()
    if k in (z3.Z3_OP_SELECT, z3.Z3_OP_SEQ_NTH, z3.Z3_OP_UNINTERPRETED, z3.Z3_OP_SEQ_AT, z3.Z3_OP_SEQ_EXTRACT):
        return True
    return e.decl().name() in ("seq.nth", "seq.nth_i", "seq.nth_u")


def _is_nth(e):
    return e.decl().kind() == z3.Z3_OP_SEQ_NTH or e.decl().name() in ("seq.nth", "seq.nth_i", "seq.nth_u")


def _fkey(e):
    d = e.decl()
    return (d.name(), d.arity(), d.kind())


def ground_index(exprs, cc=None):
    """(fkey, argpos) -> {id: ground term at that argument position}; plus free constants by sort."""
    rid = (lambda o: cc.rep(o)) if cc is not None else (lambda o: o.get_id())
    idx = {}
    consts = {}
    seen = set()

    def rec(e):
        i = e.get_id()
        if i in seen:
            return
        seen.add(i)
        if z3.is_quantifier(e):
            rec(e.body())
            return
        if not z3.is_app(e):
            return
        ch = e.children()
        if not ch and e.decl().kind() == z3.Z3_OP_UNINTERPRETED:
            consts.setdefault(_sk(e.sort()), {})[i] = e
        if _is_indexing(e):
            fk = _fkey(e)
            for p, c in enumerate(ch):
                if not _has_var(c) and not z3.is_array(c) and (not z3.is_seq(c) or z3.is_string(c)):
                    others = tuple(rid(o) for q, o in enumerate(ch) if q != p)
                    idx.setdefault((fk, p, others), {})[c.get_id()] = c
                    idx.setdefault((fk, p, None), {})[c.get_id()] = c
                    if e.decl().kind() == z3.Z3_OP_SELECT:
                        idx.setdefault((fk, p, ("sort", ch[0].sort().get_id())), {})[c.get_id()] = c
                    elif _is_nth(e) and p == 1:
                        idx.setdefault(("nth", 1, ("anyseq",)), {})[c.get_id()] = c
                    if e.decl().kind() == z3.Z3_OP_SELECT and p == 1 and len(ch) == 2:
                        # select(store(A, a, b), t) also concerns A at t and at a (read-over-write)
                        base = ch[0]
                        while z3.is_app(base) and base.decl().kind() == z3.Z3_OP_STORE:
                            a = base.arg(1)
                            base = base.arg(0)
                            idx.setdefault((fk, 1, (rid(base),)), {})[c.get_id()] = c
                            if not _has_var(a):
                                idx.setdefault((fk, 1, (rid(base),)), {})[a.get_id()] = a
        for c in ch:
            rec(c)

    for e in exprs:
        rec(e)
    return idx, consts


def _sk(s):
    return s.name() if hasattr(s, "name") else str(s)


def _triggers(body, nvars, cc=None):
    """var index -> list of (fkey, argpos, offset)."""
    rid = (lambda o: cc.rep(o)) if cc is not None else (lambda o: o.get_id())
    trig = {j: [] for j in range(nvars)}
    seen = set()

    def var_off(c):
        if z3.is_var(c):
            return z3.get_var_index(c), 0
        if z3.is_app(c) and c.decl().kind() in (z3.Z3_OP_ADD, z3.Z3_OP_SUB) and c.num_args() == 2:
            a, b = c.children()
            if z3.is_var(a) and z3.is_int_value(b):
                off = b.as_long()
                return z3.get_var_index(a), off if c.decl().kind() == z3.Z3_OP_ADD else -off
            if z3.is_var(b) and z3.is_int_value(a) and c.decl().kind() == z3.Z3_OP_ADD:
                return z3.get_var_index(b), a.as_long()
        return None

    def rec(e, depth):
        i = (e.get_id(), depth)
        if i in seen:
            return
        seen.add(i)
        if z3.is_quantifier(e):
            rec(e.body(), depth + e.num_vars())
            return
        if not z3.is_app(e):
            return
        if _is_indexing(e):
            fk = _fkey(e)
            ch = e.children()
            for p, c in enumerate(ch):
                vo = var_off(c)
                if vo is not None:
                    vi = vo[0] - depth
                    if 0 <= vi < nvars:
                        rest = [o for q, o in enumerate(ch) if q != p]
                        # match only occurrences on the same (ground) array / sequence / co-arguments
                        others = tuple(rid(o) for o in rest) if not any(_has_var(o) for o in rest) else None
                        bysort = ("sort", ch[0].sort().get_id()) if e.decl().kind() == z3.Z3_OP_SELECT else (("anyseq",) if (_is_nth(e) and p == 1) else None)
                        trig[vi].append((fk, p, vo[1], others, bysort))
        for c in e.children():
            rec(c, depth)

    rec(body, 0)
    return trig


def _explicit_patterns(e):
    """Patterns given explicitly on the quantifier (z3 `patterns=`): the instantiation is then restricted to them."""
    out = []
    for k in range(e.num_patterns()):
        p = e.pattern(k)
        for t in p.children():
            ts = z3.simplify(t)
            if ts.eq(t):
                out.append(t)
            else:
                # the assertions were simplified (e.g. seq.nth -> ite(.., nth_i, nth_u)): use the indexing sub-terms of
                # the simplified pattern
                sub = [pt for pt, _vs in _patterns(ts, e.num_vars())]
                out.extend(sub if sub else [t])
    return out


def _var_offset(c):
    if z3.is_var(c):
        return z3.get_var_index(c), 0
    if z3.is_app(c) and c.decl().kind() in (z3.Z3_OP_ADD, z3.Z3_OP_SUB) and c.num_args() == 2:
        a, b = c.children()
        if z3.is_var(a) and z3.is_int_value(b):
            off = b.as_long()
            return z3.get_var_index(a), off if c.decl().kind() == z3.Z3_OP_ADD else -off
        if z3.is_var(b) and z3.is_int_value(a) and c.decl().kind() == z3.Z3_OP_ADD:
            return z3.get_var_index(b), a.as_long()
    return None


def _vars_in(e, depth=0, acc=None):
    acc = set() if acc is None else acc
    if z3.is_var(e):
        acc.add(z3.get_var_index(e) - depth)
    elif z3.is_quantifier(e):
        _vars_in(e.body(), depth + e.num_vars(), acc)
    else:
        for c in e.children():
            _vars_in(c, depth, acc)
    return acc


def _patterns(body, nvars):
    """Candidate trigger patterns of a quantifier body: indexing / uninterpreted applications (at nesting depth 0)
    that mention at least one bound variable; returned with the set of variables they bind."""
    out = []
    seen = set()

    def rec(e):
        i = e.get_id()
        if i in seen:
            return
        seen.add(i)
        if z3.is_quantifier(e) or not z3.is_app(e):
            return
        if _is_indexing(e) and _has_var(e):
            vs = {v for v in _vars_in(e) if 0 <= v < nvars}
            if vs and _matchable(e):
                out.append((e, vs))
        for c in e.children():
            rec(c)

    rec(body)
    return out


def _matchable(p):
    """Every variable occurrence in p is reachable through matchable positions (var, var+-c, nested applications)."""
    if not _has_var(p):
        return True
    if _var_offset(p) is not None:
        return True
    if z3.is_app(p) and p.num_args() > 0 and p.decl().kind() not in (z3.Z3_OP_ADD, z3.Z3_OP_SUB, z3.Z3_OP_MUL, z3.Z3_OP_ITE):
        return all(_matchable(c) for c in p.children())
    return False


class Matcher:
    def __init__(self, cc, ground_by_decl):
        self.cc = cc
        self.by_decl = ground_by_decl

    def match_term(self, p, t, b):
        """Match pattern p against ground term t under bindings b (dict var -> term).  Yields extended bindings."""
        if not _has_var(p):
            if p.get_id() == t.get_id() or (self.cc is not None and self.cc.rep(p) == self.cc.rep(t)):
                yield b
            return
        vo = _var_offset(p)
        if vo is not None:
            v, off = vo
            val = t if off == 0 else z3.simplify(t - off)
            if v in b:
                if b[v].get_id() == val.get_id() or (self.cc is not None and off == 0 and self.cc.rep(b[v]) == self.cc.rep(val)):
                    yield b
                return
            if val.sort() != self.var_sorts.get(v, val.sort()):
                return
            nb = dict(b)
            nb[v] = val
            yield nb
            return
        if not z3.is_app(p):
            return
        # p is an application with variables: t (or a term equal to t) must have the same head
        cands = [t]
        if self.cc is not None:
            r = self.cc.rep(t)
            for g in self.by_decl.get(p.decl().get_id(), ()):
                if g.get_id() != t.get_id() and self.cc.rep(g) == r:
                    cands.append(g)
        for g in cands:
            if not (z3.is_app(g) and g.decl().get_id() == p.decl().get_id() and g.num_args() == p.num_args()):
                continue
            yield from self.match_args(list(p.children()), list(g.children()), b)

    def match_args(self, ps, ts, b):
        if not ps:
            yield b
            return
        for nb in self.match_term(ps[0], ts[0], b):
            yield from self.match_args(ps[1:], ts[1:], nb)

    def match_pattern(self, p, b, var_sorts):
        self.var_sorts = var_sorts
        for g in self.by_decl.get(p.decl().get_id(), ()):
            yield from self.match_args(list(p.children()), list(g.children()), b)


def instantiate_once(exprs, idx, consts, stats, cc=None, goal_ids=frozenset()):
    cache = {}
    by_decl = {}
    if cc is not None:
        for t in cc.terms.values():
            if t.num_args() > 0:
                by_decl.setdefault(t.decl().get_id(), []).append(t)
    matcher = Matcher(cc, by_decl)

    def joint_bindings(e):
        """E-matching with multi-variable patterns: list of binding tuples (indexed by de Bruijn index) or None."""
        n = e.num_vars()
        if n < 2:
            return None
        ep = _explicit_patterns(e)
        pats = _patterns(e.body(), n) if not ep else [(pt, {v for v in _vars_in(pt) if 0 <= v < n}) for pt in ep]
        full = [p for p, vs in pats if len(vs) == n]
        var_sorts = {j: e.var_sort(n - 1 - j) for j in range(n)}
        results = {}
        if full:
            for p in full[:6]:
                for b in matcher.match_pattern(p, {}, var_sorts):
                    if len(b) == n:
                        key = tuple(b[j].get_id() for j in range(n))
                        results[key] = tuple(b[j] for j in range(n))
                        if len(results) > MAX_INST_PER_Q:
                            return None
            return list(results.values())
        return None

    def candidates(e):
        for mode in ("wide", "exact", "goal"):
            out = _cands(e, mode)
            total = 1
            for c in out:
                total *= len(c)
            if total <= MAX_INST_PER_Q:
                return out
        return out

    def _cands(e, mode):
        n = e.num_vars()
        ep = _explicit_patterns(e)
        trig = _triggers(e.body(), n, cc) if not ep else {j: [] for j in range(n)}
        for pt in ep:
            sub = _triggers(pt, n, cc)
            for j in range(n):
                trig[j].extend(sub[j])

        out = []
        for j in range(n):
            # de Bruijn: variable j (0 = innermost/last) <-> quantifier position n-1-j
            sort = e.var_sort(n - 1 - j)
            c = {}
            for fk, p, off, others, bysort in trig[j]:
                pool = idx.get((fk, p, others), {})
                if bysort is not None and mode == "wide":
                    # few ground index terms on arrays of this sort: take them all (covers updates hidden behind
                    # case splits, e.g. select(store(vals, k, s), k2) where k == k2 is not known syntactically)
                    wide = idx.get((fk, p, bysort), {}) if bysort != ("anyseq",) else idx.get(("nth", 1, bysort), {})
                    if len(wide) <= SMALL_POOL:
                        pool = wide
                for g in pool.values():
                    if g.sort() != sort:
                        continue
                    t = g if off == 0 else z3.simplify(g - off)
                    c[t.get_id()] = t
            if not trig[j]:
                for t in consts.get(_sk(sort), {}).values():
                    c[t.get_id()] = t
                if _sk(sort) == "Int":
                    z = z3.IntVal(0)
                    c[z.get_id()] = z
            if mode == "goal":
                c = {k: v for k, v in c.items() if k in goal_ids}
            out.append(list(c.values()))
        return out  # indexed by de Bruijn index

    def inst(e):
        i = e.get_id()
        if i in cache:
            return cache[i][0]
        if z3.is_quantifier(e):
            if not e.is_forall():
                r = e
            else:
                insts = []
                jb = joint_bindings(e)
                if jb is not None:
                    body = e.body()
                    for combo in jb:
                        insts.append(inst(z3.substitute_vars(body, *combo)))
                    stats["joint"] = stats.get("joint", 0) + 1
                cands = candidates(e)
                total = 1
                for c in cands:
                    total *= len(c)
                if jb is not None and total > MAX_INST_PER_Q // 2:
                    total = 0      # the joint matches stand alone when the per-variable product is large
                if total and total <= MAX_INST_PER_Q:
                    body = e.body()
                    for combo in itertools.product(*cands):
                        b = z3.substitute_vars(body, *combo)
                        insts.append(inst(b))
                elif total:
                    stats["capped_quantifiers"] = stats.get("capped_quantifiers", 0) + 1
                stats["instances"] = stats.get("instances", 0) + len(insts)
                r = z3.And(*insts) if insts else z3.BoolVal(True)
        elif z3.is_app(e) and e.num_args() > 0 and _contains_quant(e):
            ch = [inst(c) for c in e.children()]
            r = e.decl()(*ch)
        else:
            r = e
        cache[i] = (r, e)
        return r

    return [inst(e) for e in exprs]


def make_qf(assertions, rounds=None, goal_index=None):
    """Returns (qf_assertions, stats).  If no quantifier occurs the input is returned unchanged."""
    import os
    rounds = rounds or int(os.environ.get("PYVC_ROUNDS", "3"))
    stats = {"quantified": False}
    if not any(_contains_quant(a) for a in assertions):
        return list(assertions), stats
    stats["quantified"] = True
    if goal_index is None:
        sk = skolemize(assertions)
        goal_ids = frozenset()
    else:
        skg = skolemize([assertions[goal_index]])
        sk = skolemize([a for i, a in enumerate(assertions) if i != goal_index]) + skg
        gi, gc = ground_index(skg)
        goal_ids = frozenset(i for d in gi.values() for i in d) | frozenset(i for d in gc.values() for i in d)
    if not any(_contains_quant(a) for a in sk):
        return sk, stats
    out = sk
    prev_size = -1
    for r in range(rounds):
        cc = CC(list(out) + list(sk))
        idx, consts = ground_index(out if r else sk, cc)
        if r:
            # ground terms of the original query stay relevant
            idx0, consts0 = ground_index(sk, cc)
            for k, d in idx0.items():
                idx.setdefault(k, {}).update(d)
            for k, d in consts0.items():
                consts.setdefault(k, {}).update(d)
        size = sum(len(d) for k, d in idx.items() if k[2] is None) + sum(len(d) for d in consts.values())
        stats["rounds"] = r
        if size == prev_size:
            break
        prev_size = size
        stats["instances"] = 0
        new = instantiate_once(sk, idx, consts, stats, cc, goal_ids)
        if r and len(new) == len(out):
            # monotone: an instance found in an earlier round is never lost (a later round may fall back to a narrower
            # candidate mode when its pools have grown past the cap)
            merged = []
            for orig, a, b in zip(sk, out, new):
                if a.get_id() == b.get_id() or not _contains_quant(orig):
                    merged.append(b)
                    continue
                cj = {}
                for t in _conjuncts(b) + _conjuncts(a):
                    cj.setdefault(t.get_id(), t)
                merged.append(z3.And(*cj.values()) if len(cj) > 1 else next(iter(cj.values())))
            new = merged
        out = new
    stats["ground_terms"] = prev_size
    if os.environ.get("PYVC_RELEVANCE", "1") != "0" and goal_index is not None:
        out = relevance_filter(out, sk, len(skg), stats)
    return out, stats


def _key_terms(e, acc=None, seen=None):
    """ids of the ground indexing / uninterpreted applications occurring in e"""
    acc = set() if acc is None else acc
    seen = set() if seen is None else seen
    i = e.get_id()
    if i in seen:
        return acc
    seen.add(i)
    if z3.is_quantifier(e):
        return acc
    if z3.is_app(e):
        if e.num_args() > 0 and _is_indexing(e) and not _has_var(e):
            acc.add(i)
        for c in e.children():
            _key_terms(c, acc, seen)
    return acc


def _conjuncts(e):
    if z3.is_and(e):
        out = []
        for c in e.children():
            out.extend(_conjuncts(c))
        return out
    return [e]


def relevance_filter(out, sk, n_goal, stats, depth=3):
    """Drop instances that are not connected (through shared ground index terms) to the negated goal within `depth`
    steps.  Only instances of quantified hypotheses are candidates for dropping; dropping hypotheses is sound."""
    goal_parts = out[len(out) - n_goal:] if n_goal else []
    hyp_parts = out[:len(out) - n_goal] if n_goal else out
    keep, cands = [], []
    for orig, inst_ in zip(sk[:len(hyp_parts)], hyp_parts):
        if _contains_quant(orig):
            cands.extend(_conjuncts(inst_))
        else:
            keep.append(inst_)
    if len(cands) < 150:
        return out
    frontier = set()
    for g in goal_parts:
        frontier |= _key_terms(g)
    for k in keep:
        pass
    info = [(c, _key_terms(c)) for c in cands]
    reached = set(frontier)
    kept_idx = set()
    for _ in range(depth):
        new = set()
        for idx, (c, ks) in enumerate(info):
            if idx in kept_idx:
                continue
            if ks & reached:
                kept_idx.add(idx)
                new |= ks
        if not new - reached:
            break
        reached |= new
    stats["relevance"] = {"instances": len(info), "kept": len(kept_idx)}
    return keep + [info[i][0] for i in sorted(kept_idx)] + list(goal_parts)
