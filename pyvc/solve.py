"""Discharging obligations: z3 (python API) first, cvc5 (--strings-exp, SMT-LIB) on `unknown`.

Every solver call runs in a killable child process with a hard timeout.  Verdicts:
  unsat   -> discharged          sat -> refuted (model returned)          unknown/timeout -> UNDECIDED
`unknown` is never mapped to a violation.
"""
import multiprocessing as mp
import os
import re
import subprocess
import tempfile
import time

import z3

Z3_TIMEOUT_MS = int(os.environ.get("PYVC_Z3_MS", "12000"))
CVC5_TIMEOUT_S = int(os.environ.get("PYVC_CVC5_S", "60"))
CVC5 = "/usr/bin/cvc5"


def _uf_names(e, acc, seen):
    """names of the uninterpreted function symbols (arity >= 1) occurring in e"""
    i = e.get_id()
    if i in seen:
        return acc
    seen.add(i)
    if z3.is_quantifier(e):
        return _uf_names(e.body(), acc, seen)
    if z3.is_app(e):
        if e.num_args() > 0 and e.decl().kind() == z3.Z3_OP_UNINTERPRETED:
            acc.add(e.decl().name())
        for c in e.children():
            _uf_names(c, acc, seen)
    return acc


def slim_hypotheses(assumptions, goal, depth=1):
    """Hypothesis selection for a second, smaller query: every quantifier-free hypothesis is kept; a QUANTIFIED hypothesis is
    kept only if it shares an uninterpreted function symbol with the goal (depth 1) or with a hypothesis kept in the previous
    step (depth 2, ...).  Dropping hypotheses is sound for `unsat` (= proved); a `sat` of a slim query is never reported."""
    from .quant import _contains_quant
    syms = _uf_names(goal, set(), set())
    info = [(a, _contains_quant(a), _uf_names(a, set(), set())) for a in assumptions]
    kept = set()
    for _ in range(depth):
        new = set()
        for k, (a, q, names) in enumerate(info):
            if q and k not in kept and names & syms:
                kept.add(k)
                new |= names
        if not new - syms:
            break
        if _ + 1 < depth:
            syms = syms | new
    return [a for k, (a, q, _n) in enumerate(info) if not q or k in kept], {"quantified_hypotheses": sum(1 for _a, q, _n in info if q), "kept": len(kept)}


# At most this many solver processes run at any time across ALL worker processes of one check (the semaphore is created at
# import, before any worker is forked).  Without it a hard obligation - which races up to seven solver processes - competes
# with fifteen others for the cores, and a 15 s query no longer fits a 60 s budget.  Waiting for a slot does not count
# against a solver's time limit.
_SLOTS = mp.get_context("fork").BoundedSemaphore(int(os.environ.get("PYVC_SOLVER_SLOTS", str(max(2, (os.cpu_count() or 4) - 2)))))


class _slot:
    def __init__(self, cancel=None):
        self.cancel, self.held = cancel, False

    def __enter__(self):
        while not _SLOTS.acquire(timeout=0.25):
            if self.cancel is not None and self.cancel.is_set():
                return self
        self.held = True
        return self

    def __exit__(self, *a):
        if self.held:
            try:
                _SLOTS.release()
            except ValueError:
                pass
        return False


def to_smt2(assumptions, goal, expect_sat=False, qf=True, watch=None, rounds=None, slim=0):
    """SMT-LIB text of `assumptions and not goal` (or `and goal` for covers), made quantifier-free (pyvc.quant)."""
    from .quant import make_qf
    slim_stats = None
    if slim:
        assumptions, slim_stats = slim_hypotheses(assumptions, goal, slim)
    asserts = list(assumptions) + [goal if expect_sat else z3.Not(goal)]
    gi = len(asserts) - 1
    for k, t in (watch or {}).items():
        asserts.append(z3.Const(f"watch!{k}", t.sort()) == t)   # definitional: does not change satisfiability
    stats = {}
    if qf:
        asserts, stats = make_qf(asserts, goal_index=gi, rounds=rounds)
    s = z3.Solver()
    for a in asserts:
        s.add(a)
    if slim_stats is not None:
        stats = dict(stats, slim=slim_stats)
    return _total_nth(s.to_smt2()), stats


_NTH_SPLIT = re.compile(r"\bseq\.nth_[ui]\b")


def _total_nth(smt2):
    """z3's simplifier rewrites s[i] into ite(0 <= i < len(s), seq.nth_i(s, i), seq.nth_u(s, i)).  When that TEXT is parsed
    again, z3 reads every `seq.nth_i` term as carrying its in-range condition as a FACT - also under a false ite guard - so a
    printed query can be strictly stronger than the formula it was printed from (found by the two-solver thorough tier: z3
    answered unsat, cvc5 produced a model, and the unsat core was `len(s) <= 0` plus a guarded nth_i(s, len(s) - 1)).  Both
    internal symbols are therefore printed as the total function seq.nth, which is what they were."""
    return _NTH_SPLIT.sub("seq.nth", smt2)


def _model_to_dict(m):
    out = {}
    for d in m.decls():
        if d.arity() != 0:
            continue
        name = d.name()
        v = m[d]
        try:
            if z3.is_string_value(v):
                out[name] = {"str": v.as_string()}
            elif z3.is_int_value(v):
                out[name] = {"int": v.as_long()}
            elif z3.is_true(v) or z3.is_false(v):
                out[name] = {"bool": z3.is_true(v)}
            else:
                out[name] = {"sexpr": v.sexpr()[:2000]}
        except Exception:
            out[name] = {"sexpr": str(v)[:2000]}
    return out


def _z3_worker(smt2, timeout_ms, want_model, seed, q):
    try:
        z3.set_param("smt.random_seed", seed)
        s = z3.Solver()
        s.set("timeout", timeout_ms)
        s.from_string(smt2)
        t0 = time.time()
        r = s.check()
        dt = time.time() - t0
        model = None
        if r == z3.sat and want_model:
            model = _model_to_dict(s.model())
        q.put((str(r), dt, model, s.reason_unknown() if r == z3.unknown else ""))
    except Exception as e:  # pragma: no cover
        q.put(("error", 0.0, None, repr(e)))


def run_z3(smt2, timeout_ms=None, want_model=True, seed=0):
    timeout_ms = timeout_ms or Z3_TIMEOUT_MS
    ctx = mp.get_context("fork")
    q = ctx.Queue()
    p = ctx.Process(target=_z3_worker, args=(smt2, timeout_ms, want_model, seed, q))
    with _slot():
        p.start()
        try:
            res = q.get(timeout=timeout_ms / 1000.0 + 5)
        except Exception:
            res = ("unknown", timeout_ms / 1000.0, None, "hard timeout (killed)")
        p.join(timeout=1)
        if p.is_alive():
            p.kill()
            p.join()
    return res


_CVC5_FIXES = [
    (re.compile(r"\(_ Char (\d+)\)"), lambda m: '(_ char #x%x)' % int(m.group(1))),
    (re.compile(r"\bseq\.nth_[ui]\b"), lambda m: "seq.nth"),
]


def z3_to_cvc5(smt2):
    s = smt2
    for rx, rep in _CVC5_FIXES:
        s = rx.sub(rep, s)
    s = s.replace("(check-sat)", "")
    return "(set-logic ALL)\n" + s + "\n(check-sat)\n"


def _run_cancellable(cmd, timeout_s, cancel=None):
    """subprocess.run with a cancel event (used when two solvers race on one query)"""
    with _slot(cancel) as sl:
        if not sl.held:
            return "", "", True          # cancelled while waiting for a slot: another member has decided the query
        p = subprocess.Popen(cmd, stdout=subprocess.PIPE, stderr=subprocess.PIPE, text=True)
        t0 = time.time()
        while True:
            try:
                out, errt = p.communicate(timeout=0.25)
                return out, errt, False
            except subprocess.TimeoutExpired:
                if (cancel is not None and cancel.is_set()) or time.time() - t0 > timeout_s:
                    p.kill()
                    try:
                        p.communicate(timeout=2)
                    except Exception:
                        pass
                    return "", "", True


def run_cvc5(smt2, timeout_s=None, cancel=None):
    timeout_s = timeout_s or CVC5_TIMEOUT_S
    text = z3_to_cvc5(smt2)
    with tempfile.NamedTemporaryFile("w", suffix=".smt2", delete=False, dir=os.environ.get("TMPDIR", "/tmp")) as f:
        f.write(text)
        path = f.name
    t0 = time.time()
    try:
        so, se, killed = _run_cancellable([CVC5, "--strings-exp", f"--tlimit={timeout_s * 1000}", path], timeout_s + 5, cancel)
        if killed:
            raise subprocess.TimeoutExpired(CVC5, timeout_s)
        out = (so or "").strip().splitlines()
        verdict = out[0].strip() if out else "unknown"
        reason = (se or "").strip()[:300] if verdict not in ("sat", "unsat") else ""
        if verdict not in ("sat", "unsat", "unknown"):
            reason = (verdict + " " + reason)[:300]
            verdict = "unknown"
    except subprocess.TimeoutExpired:
        verdict, reason = "unknown", "hard timeout (killed)"
    finally:
        try:
            os.unlink(path)
        except OSError:
            pass
    return verdict, time.time() - t0, None, reason


Z3CLI = "z3-new"
_DEF = re.compile(r"\(define-fun\s+(\S+)\s+\(\)\s+(\S+)\s+((?:\"(?:[^\"]|\"\")*\")|[^\s()]+|\(- \d+\))\)")


def run_z3_cli(smt2, timeout_s=60, cancel=None, seed=None):
    """The z3 command-line front end uses a different default strategy than the API solver: third portfolio member."""
    text = smt2.replace("(check-sat)", "(check-sat)\n(get-model)")
    with tempfile.NamedTemporaryFile("w", suffix=".smt2", delete=False, dir=os.environ.get("TMPDIR", "/tmp")) as f:
        f.write(text)
        path = f.name
    t0 = time.time()
    model = None
    try:
        so, _se, killed = _run_cancellable([Z3CLI, f"-T:{timeout_s}"] + ([f"smt.random_seed={seed}"] if seed else []) + [path], timeout_s + 5, cancel)
        if killed:
            raise subprocess.TimeoutExpired(Z3CLI, timeout_s)
        out = (so or "")
        first = out.strip().splitlines()[0].strip() if out.strip() else "unknown"
        verdict = first if first in ("sat", "unsat") else "unknown"
        reason = "" if verdict != "unknown" else first[:200]
        if verdict == "sat":
            model = {}
            for m in _DEF.finditer(out):
                name, sort, val = m.group(1), m.group(2), m.group(3)
                if sort == "String":
                    v = val[1:-1].replace('""', '"')
                    v = re.sub(r"\\u\{([0-9a-fA-F]+)\}", lambda mm: chr(int(mm.group(1), 16)), v)
                    model[name] = {"str": v}
                elif sort == "Int":
                    model[name] = {"int": int(val.replace("(- ", "-").replace(")", ""))}
                elif sort == "Bool":
                    model[name] = {"bool": val == "true"}
    except subprocess.TimeoutExpired:
        verdict, reason = "unknown", "hard timeout (killed)"
    finally:
        try:
            os.unlink(path)
        except OSError:
            pass
    return verdict, time.time() - t0, model, reason


def decide(job):
    """job: dict(id, smt2, expect_sat, both) -> result dict."""
    smt2 = job["smt2"]
    seed = job.get("seed", 0)
    res = {"id": job["id"], "backend": None, "verdict": None, "time_s": 0.0, "model": None, "detail": ""}
    r, dt, model, why = run_z3(smt2, want_model=True, seed=seed, timeout_ms=job.get("z3_ms"))
    res["time_s"] += dt
    if r in ("sat", "unsat"):
        res.update(backend="z3", verdict=r, model=model)
        if job.get("both"):
            r2, dt2, _m, why2 = run_cvc5(smt2, min(job.get("cvc5_s") or 20, 20))      # second opinion: short budget
            res["time_s"] += dt2
            res["second"] = r2
            if r2 in ("sat", "unsat") and r2 != r:
                res["verdict"] = "disagree"
                try:      # keep the query: a disagreement must be looked at by hand
                    with open(os.path.join(os.environ.get("TMPDIR", "/tmp"), f"disagree_{os.getpid()}_{job['id']}.smt2"), "w") as fh:
                        fh.write(smt2)
                except OSError:
                    pass
                res["detail"] = f"z3={r} cvc5={r2}"
        return res
    if job.get("cvc5_s", 99) <= 6:      # cheap cover / finding probes: cvc5 only
        r2, dt2, _m, why2 = run_cvc5(smt2, job.get("cvc5_s"))
        res["time_s"] += dt2
        if r2 in ("sat", "unsat"):
            res.update(backend="cvc5", verdict=r2)
            return res
        res.update(backend="none", verdict="unknown", detail=f"z3: {why}; cvc5: {why2}")
        return res
    # cvc5 and the z3 command-line front end (different default strategy) race; the first definite answer wins
    import threading
    if job.get("slim_of") is not None and "slim_smt2" not in job:
        o = job["slim_of"]
        texts = []
        for depth in (1, 2):
            try:
                t_, st_ = to_smt2(o.pc, o.goal, False, watch=None, slim=depth)
                if st_.get("slim", {}).get("kept", 0) < st_.get("slim", {}).get("quantified_hypotheses", 0) and t_ not in texts:
                    texts.append(t_)
            except Exception:
                pass
        job = dict(job, slim_smt2=texts)
    cancel = threading.Event()
    box = {}

    def _a():
        box["cvc5"] = run_cvc5(smt2, job.get("cvc5_s"), cancel)
        if box["cvc5"][0] in ("sat", "unsat"):
            cancel.set()

    def _b():
        box["z3-cli"] = run_z3_cli(smt2, cancel=cancel)
        if box["z3-cli"][0] in ("sat", "unsat"):
            cancel.set()
    # further members on SMALLER queries (hypotheses selected by shared symbols, see slim_hypotheses): only their `unsat`
    # counts (fewer hypotheses), and they make the verdict of a hard obligation independent of the solvers' luck on the big one
    def _slim(name, text, runner):
        def go():
            r_ = runner(text, cancel=cancel)
            box[name] = r_ if r_[0] == "unsat" else ("unknown", r_[1], None, f"slim query: {r_[0]} (not a refutation)")
            if r_[0] == "unsat":
                cancel.set()
        return go
    t0 = time.time()
    ths = [threading.Thread(target=_a), threading.Thread(target=_b)]
    for k, text in enumerate(job.get("slim_smt2") or []):
        ths.append(threading.Thread(target=_slim(f"z3-cli+slim{k + 1}", text, run_z3_cli)))
        if k == 0:
            ths.append(threading.Thread(target=_slim(f"z3-cli+slim{k + 1}+seed7", text, lambda t, cancel=None: run_z3_cli(t, cancel=cancel, seed=7))))
        ths.append(threading.Thread(target=_slim(f"cvc5+slim{k + 1}", text, lambda t, cancel=None: run_cvc5(t, job.get("cvc5_s"), cancel))))
    for th in ths:
        th.start()
    for th in ths:
        th.join()
    res["time_s"] += time.time() - t0
    for name in ["cvc5", "z3-cli"] + sorted(k for k in box if "slim" in k):
        r_, _dt, m_, _why = box.get(name, ("unknown", 0, None, ""))
        if r_ in ("sat", "unsat"):
            res.update(backend=name, verdict=r_, model=m_)
            return res
    res.update(backend="none", verdict="unknown", detail=f"z3: {why}; cvc5: {box.get('cvc5', ('', 0, None, ''))[3]}; z3-cli: {box.get('z3-cli', ('', 0, None, ''))[3]}")
    return res


_OBS = None


def _work(i):
    return work_obj(_OBS[i], i)


def work_obj(o, i=0):
    t0 = time.time()
    try:
        if o.kind in ("cover", "finding"):
            # reachability witness: quantified hypotheses are dropped (cheap; `sat` here is only a sanity check
            # against contradictory quantifier-free assumptions - real reachability evidence is the differential)
            from .quant import _contains_quant
            pc = [a for a in o.pc if not _contains_quant(a)]
            smt2, stats = to_smt2(pc, o.goal, True, qf=False)
            job = {"id": i, "smt2": smt2, "z3_ms": 5000, "cvc5_s": 5}
        elif getattr(o, "qf_only", False):
            from .quant import _contains_quant
            pc = [a for a in o.pc if not _contains_quant(a)]
            smt2, stats = to_smt2(pc, o.goal, o.expect_sat, watch=o.watch)
            stats = dict(stats, qf_only=True)
            job = {"id": i, "smt2": smt2}
        else:
            smt2, stats = to_smt2(o.pc, o.goal, o.expect_sat, watch=o.watch)
            job = {"id": i, "smt2": smt2}
        if not o.expect_sat and stats.get("quantified") and o.kind not in ("cover", "finding"):
            job["slim_of"] = o          # slim variants are generated lazily (only when the z3 API leaves the query open)
        job["both"] = bool(os.environ.get("PYVC_BOTH"))
        job["seed"] = int(os.environ.get("VERIF_SEED", "0") or 0) % 1000
        gen_s = time.time() - t0
        r = decide(job)
        z3_distrusted = r["verdict"] == "disagree" and r.get("detail") == "z3=unsat cvc5=sat"
        if (r["verdict"] == "sat" or z3_distrusted) and stats.get("quantified") and not o.expect_sat:
            # (two-solver tier) z3 answered unsat and cvc5 produced a model of the SAME instantiated, relevance-filtered query: z3's
            # answer is not trusted for it (one such case was traced to z3 itself: unsat with `i >= 0`, sat with `i = 0` and with
            # `i = 5`).  The query is treated like a candidate model: the ladder below rebuilds it with every instance, and only an
            # `unsat` on which the solvers do NOT disagree is a proof; a disagreement on the last rung stays a checker failure.
            # A model of the instantiated query is only a CANDIDATE (instantiation weakens the hypotheses).  Refinement
            # ladder: the same rounds without the relevance filter, then more rounds; the first `unsat` is a proof.  A `sat`
            # is believed only from a rung that uses every instance; if those rungs are undecided so is the obligation.
            prev = os.environ.get("PYVC_RELEVANCE")
            os.environ["PYVC_RELEVANCE"] = "0"
            first, spent, cand = r, r["time_s"], None
            try:
                rungs = ([None] if stats.get("relevance") else []) + [5]
                for rounds in rungs:
                    smt2b, statsb = to_smt2(o.pc, o.goal, o.expect_sat, watch=o.watch, rounds=rounds)   # (also restores dropped hypotheses of qf_only clauses)
                    rb = decide(dict(job, smt2=smt2b))
                    spent += rb["time_s"]
                    if rb["verdict"] == "unsat":
                        rb["backend"] += "+refined"
                        r, stats, smt2, cand = rb, statsb, smt2b, None
                        break
                    if rb["verdict"] == "sat":
                        cand = (rb, statsb, smt2b)
                    if rb["verdict"] == "disagree":
                        first = rb
                else:
                    if first["verdict"] == "disagree":
                        r = first
                    elif cand is not None:
                        r, stats, smt2 = cand
                    elif stats.get("relevance"):
                        r = dict(first, verdict="unknown", model=None,
                                 detail="candidate model only under the relevance filter; the unfiltered refinements were undecided")
                    else:
                        r = dict(first, detail="refinement with more instances was undecided")
            finally:
                if prev is None:
                    os.environ.pop("PYVC_RELEVANCE", None)
                else:
                    os.environ["PYVC_RELEVANCE"] = prev
            r["time_s"] = spent
        if r["verdict"] == "unknown" and o.kind == "frame" and not o.expect_sat and z3.is_false(z3.simplify(o.goal)):
            # "this statement is reachable": decide reachability on the quantifier-free part of the path condition
            from .quant import _contains_quant
            pcq = [a for a in o.pc if not _contains_quant(a)]
            smt2q, _st = to_smt2(pcq, o.goal, o.expect_sat, qf=False)
            rq = decide(dict(job, smt2=smt2q, z3_ms=5000, cvc5_s=5))
            if rq["verdict"] == "sat":
                rq["detail"] = "reachable under the quantifier-free part of the path condition (quantified hypotheses dropped)"
                rq["time_s"] += r["time_s"]
                r = rq
        r["gen_s"] = gen_s
        r["qstats"] = stats
        r["size"] = len(smt2)
        r["smt2"] = smt2 if len(smt2) < 20000 or os.environ.get("PYVC_DUMP") else None
        if os.environ.get("PYVC_DUMP") and r["time_s"] > 8:
            os.makedirs(os.environ["PYVC_DUMP"], exist_ok=True)
            with open(os.path.join(os.environ["PYVC_DUMP"], f"slow_{i}_{r['verdict']}_{int(r['time_s'])}s.smt2"), "w") as fh:
                fh.write(f"; {o.unit}/{o.name} path={o.path} backend={r['backend']}\n" + smt2)
        return r
    except Exception as e:
        import traceback
        return {"id": i, "backend": "none", "verdict": "error", "time_s": time.time() - t0, "model": None,
                "detail": "".join(traceback.format_exception_only(type(e), e))[:500], "gen_s": 0, "qstats": {}, "size": 0, "smt2": None}


def solve_obligations(obs, procs=None):
    """Fork workers that inherit the obligation list; each builds its SMT-LIB text and runs the portfolio."""
    global _OBS
    procs = procs or min(16, os.cpu_count() or 4)
    if not obs:
        return []
    _OBS = obs
    from concurrent.futures import ProcessPoolExecutor
    ctx = mp.get_context("fork")
    with ProcessPoolExecutor(max_workers=min(procs, len(obs)), mp_context=ctx) as pool:
        res = list(pool.map(_work, range(len(obs)), chunksize=1))
    _OBS = None
    return res
