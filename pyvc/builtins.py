"""Builtin functions and methods of str / list / dict / set over symbolic values."""
import ast

import z3

from . import ops
from .types import (NONE, Conc, TAny, TBool, TDict, TInt, TNone, TObj, TOpt, TRef, TSeq, TSet, TStr, TTup, Ty, Val,
                    VTuple, mk_bool, mk_int, mk_str)

BUILTINS = {"len", "isinstance", "str", "int", "bool", "list", "tuple", "set", "dict", "any", "all", "enumerate",
            "reversed", "range", "min", "max", "callable", "getattr", "hasattr", "type", "sorted", "zip", "repr",
            "print", "id", "iter", "next", "frozenset", "abs", "object", "bytes"}


def err(msg):
    from .interp import EngineError
    return EngineError(msg)


def _unit_items(t):
    """elements of a sequence term that is literally a concatenation of units (None otherwise)"""
    if z3.is_app(t) and t.decl().kind() == z3.Z3_OP_SEQ_UNIT:
        return [t.arg(0)]
    if z3.is_app(t) and t.decl().kind() == z3.Z3_OP_SEQ_EMPTY:
        return []
    if z3.is_app(t) and t.decl().kind() == z3.Z3_OP_SEQ_CONCAT:
        out = []
        for ch in t.children():
            sub = _unit_items(ch)
            if sub is None:
                return None
            out.extend(sub)
        return out
    return None


def isinstance_check(run, v, cls, node):
    """z3 Bool for isinstance(v, cls) decided from the static encoding of v."""
    if isinstance(cls, VTuple):
        return z3.Or(*[isinstance_check(run, v, c, node) for c in cls.items])
    if not isinstance(cls, Conc):
        raise err(f"isinstance against {cls}")
    o = cls.obj
    name = o[1] if isinstance(o, tuple) and o[0] == "builtin" else (o[-1] if isinstance(o, tuple) else str(o))
    if isinstance(o, tuple) and o[0] == "ext":
        name = o[1].split(".")[-1]
    if isinstance(o, tuple) and o[0] == "module":
        name = o[1]
    pytypes = {TStr: {"str", "bytes"}, TInt: {"int"}, TBool: {"bool", "int"}, TNone: set()}
    if isinstance(v, VTuple):
        return z3.BoolVal(name == "tuple")
    if isinstance(v, Conc):
        from .interp import ExcVal, exc_isinstance
        if isinstance(v.obj, ExcVal) and isinstance(o, tuple) and o[0] == "exc_class":
            r = exc_isinstance(v.obj.tname, o[1])
            if r is None:
                raise err("isinstance of unknown exception type")
            return z3.BoolVal(r)
        h = run.x.reg.stubs.get(("isinstance", name))
        if h is not None:
            return h(run, v)
        raise err(f"isinstance({v}, {name})")
    ty = v.ty
    h = run.x.reg.stubs.get(("isinstance_of", ty.name))
    if h is not None:
        return h(run, v, name)
    if isinstance(ty, TOpt):
        inner = isinstance_check(run, Val(ty.inner, ty.get(v.t)), cls, node)
        return z3.And(z3.Not(ty.is_none(v.t)), inner)
    if ty is TAny:
        P = TAny.sort()
        m = {"str": z3.Or(P.is_StrV(v.t), P.is_SafeV(v.t)), "SafeString": P.is_SafeV(v.t), "SafeData": P.is_SafeV(v.t), "int": z3.Or(P.is_IntV(v.t), P.is_BoolV(v.t)),
             "bool": P.is_BoolV(v.t)}
        if name in m:
            return m[name]
        h = run.x.reg.stubs.get(("isinstance", name))
        if h is not None:
            return h(run, v)
        raise err(f"isinstance(PyVal, {name})")
    if ty in pytypes:
        return z3.BoolVal(name in pytypes[ty])
    if isinstance(ty, TSeq):
        return z3.BoolVal(name in ("list", "tuple", "Sequence", "Iterable"))
    if isinstance(ty, TDict):
        return z3.BoolVal(name in ("dict", "Mapping"))
    if isinstance(ty, TSet):
        return z3.BoolVal(name in ("set",))
    h = run.x.reg.stubs.get(("isinstance", name))
    if h is not None:
        return h(run, v)
    if isinstance(ty, TRef):
        return z3.And(v.t != 0, z3.BoolVal(name == ty.cls))
    raise err(f"isinstance({ty}, {name})")


def call_builtin(run, name, args, kwargs, node, fr):
    if name == "len":
        v = ops.unopt(run, args[0], node, "len() argument")
        if isinstance(v, VTuple):
            return mk_int(len(v.items))
        ty = v.ty
        if ty is TStr or isinstance(ty, TSeq):
            return Val(TInt, z3.Length(v.t))
        if isinstance(ty, (TDict, TSet)):
            return Val(TInt, ty.size(v.t))
        h = run.x.reg.stubs.get(("len", ty.name))
        if h is not None:
            return h(run, v)
        raise err(f"len of {ty}")
    if name == "isinstance":
        return Val(TBool, isinstance_check(run, args[0], args[1], node))
    if name == "str":
        if not args:
            return mk_str("")
        return ops.to_str(run, args[0], node)
    if name == "bool":
        return Val(TBool, run.truth(args[0]))
    if name == "int":
        v = args[0]
        if isinstance(v, Val) and v.ty is TInt:
            return v
        if isinstance(v, Val) and v.ty is TBool:
            return run.coerce(v, TInt)
        if isinstance(v, Val) and v.ty is TStr:
            ok = ops.uf("str_is_int", z3.StringSort(), z3.BoolSort())(v.t)
            run.implicit_raise(ok, "ValueError", node, "invalid literal for int()")
            return Val(TInt, ops.uf("str_to_int", z3.StringSort(), z3.IntSort())(v.t))
        raise err(f"int() of {v}")
    if name in ("list", "tuple"):
        if not args:
            return VTuple([]) if name == "tuple" else Conc(("emptylist",))
        v = args[0]
        if isinstance(v, VTuple):
            return v if name == "tuple" else ops.seq_from_items(run, v.items, None)
        if isinstance(v, Conc) and isinstance(v.obj, tuple) and v.obj[0] == "seqview":
            return v.obj[1]
        if isinstance(v, Conc) and isinstance(v.obj, tuple) and v.obj[0] == "dictkeys":
            return dict_keys_enum(run, v.obj[1])
        return ops.iter_to_seq(run, v, node)
    if name in ("set", "frozenset"):
        if not args:
            raise err("empty set() without declared type; add the variable to the sidecar `locals`")
        raise err("set(iterable) unsupported")
    if name == "dict":
        if len(args) == 1 and not kwargs and isinstance(args[0], Val) and isinstance(args[0].ty, TDict):
            return Val(args[0].ty, args[0].t)        # dict(d): a copy - containers are values here
        if not args and not kwargs:
            return Conc(("emptydict",))
        if len(args) == 1 and not kwargs and isinstance(args[0], Conc) and args[0].obj == ("emptydict",):
            return Conc(("emptydict",))
        if len(args) == 1 and not kwargs and isinstance(args[0], Val) and isinstance(args[0].ty, TOpt) and isinstance(args[0].ty.inner, TDict):
            v = run.coerce(args[0], args[0].ty.inner)
            return Val(v.ty, v.t)
        raise err("dict() without declared type")
    if name in ("any", "all"):
        g = args[0]
        if isinstance(g, Conc) and isinstance(g.obj, tuple) and g.obj[0] == "genexp":
            return any_all_genexp(run, name, g.obj[1], g.obj[2], node)
        raise err(f"{name}() over {g}")
    if name == "callable":
        v = args[0]
        return mk_bool(isinstance(v, Conc))
    if name == "reversed":
        s = ops.iter_to_seq(run, args[0], node)
        r = z3.FreshConst(s.ty.sort(), "rev")
        i = z3.FreshConst(z3.IntSort(), "ri")
        run.assume(z3.Length(r) == z3.Length(s.t))
        run.assume(z3.ForAll([i], z3.Implies(z3.And(0 <= i, i < z3.Length(r)), r[i] == s.t[z3.Length(r) - 1 - i])))
        return Val(s.ty, r)
    if name == "enumerate":
        s = ops.iter_to_seq(run, args[0], node)
        ety = TTup([TInt, s.ty.elem])
        rty = TSeq(ety)
        r = z3.FreshConst(rty.sort(), "enum")
        i = z3.FreshConst(z3.IntSort(), "ei")
        run.assume(z3.Length(r) == z3.Length(s.t))
        run.assume(z3.ForAll([i], z3.Implies(z3.And(0 <= i, i < z3.Length(r)), r[i] == ety.mk(i, s.t[i]))))
        return Val(rty, r)
    if name == "range":
        ints = [run.coerce(a, TInt).t for a in args]
        lo, hi = (z3.IntVal(0), ints[0]) if len(ints) == 1 else (ints[0], ints[1])
        if len(ints) == 3:
            raise err("range with step")
        rty = TSeq(TInt)
        r = z3.FreshConst(rty.sort(), "range")
        i = z3.FreshConst(z3.IntSort(), "ri")
        run.assume(z3.Length(r) == z3.If(hi > lo, hi - lo, 0))
        run.assume(z3.ForAll([i], z3.Implies(z3.And(0 <= i, i < z3.Length(r)), r[i] == lo + i)))
        return Val(rty, r)
    if name == "tuple" and False:
        pass
    if name in ("min", "max"):
        if len(args) == 2:
            a, b = run.coerce(args[0], TInt), run.coerce(args[1], TInt)
            c = a.t <= b.t if name == "min" else a.t >= b.t
            return Val(TInt, z3.If(c, a.t, b.t))
        raise err(f"{name} over iterable")
    if name == "abs":
        a = run.coerce(args[0], TInt)
        return Val(TInt, z3.If(a.t >= 0, a.t, -a.t))
    if name == "print":
        return NONE
    if name == "getattr":
        if len(args) >= 2 and isinstance(args[1], Val) and args[1].ty is TStr:
            s = z3.simplify(args[1].t)
            if z3.is_string_value(s):
                # a declared field stands for the attribute; "absent" must be modelled by the field's own value
                # (e.g. an empty list) - the default argument is then never needed
                return run.get_attr(args[0], s.as_string(), node)
        raise err("getattr with symbolic name")
    h = run.x.reg.stubs.get(("builtin", name))
    if h is not None:
        return h(run, args, kwargs, node)
    raise err(f"builtin {name} not supported (line {getattr(node, 'lineno', '?')})")


def dict_keys_enum(run, d):
    """list(d.keys()) of a dict whose insertion order is not tracked: SOME duplicate-free enumeration of the key set
    (every order Python could produce is covered)."""
    ty = d.ty
    sty = TSeq(ty.k)
    K = z3.FreshConst(sty.sort(), "keys")
    pos = lambda key: ops.keypos(K, key)
    i, j = z3.FreshConst(z3.IntSort(), "ki"), z3.FreshConst(z3.IntSort(), "kj")
    k = z3.FreshConst(ty.k.sort(), "kk")
    n = z3.Length(K)
    for ax in (
        n == ty.size(d.t),
        z3.ForAll([i], z3.Implies(z3.And(0 <= i, i < n), z3.And(z3.Select(ty.has(d.t), K[i]), pos(K[i]) == i))),
        z3.ForAll([k], z3.Implies(z3.Select(ty.has(d.t), k), z3.And(0 <= pos(k), pos(k) < n, K[pos(k)] == k))),
    ):
        run.pc.append(ax)
        run.solver_add(ax)
    return Val(sty, K)


def any_all_genexp(run, name, gen, fr, node):
    """any/all over a single-generator comprehension: desugared to a bounded quantifier over the sequence."""
    from .interp import Frame
    if len(gen.generators) != 1 or gen.generators[0].ifs:
        raise err("any/all over a multi-generator / filtered comprehension")
    g = gen.generators[0]
    it = run.ev(g.iter, fr)
    if isinstance(it, VTuple):
        vals = []
        for item in it.items:
            f2 = Frame(fr.finfo, parent=fr)
            run.assign(g.target, item, f2)
            run.spec += 1
            try:
                vals.append(run.truth(run.ev(gen.elt, f2)))
            finally:
                run.spec -= 1
        if not vals:
            return mk_bool(name == "all")
        return Val(TBool, z3.Or(*vals) if name == "any" else z3.And(*vals))
    seq = ops.iter_to_seq(run, it, node)
    i = z3.FreshConst(z3.IntSort(), "gi")
    f2 = Frame(fr.finfo, parent=fr)
    run.assign(g.target, Val(seq.ty.elem, seq.t[i]), f2)
    # the element expression must be total here (evaluated as a spec term, without forking)
    run.spec += 1
    try:
        body = run.truth(run.ev(gen.elt, f2))
    finally:
        run.spec -= 1
    rng = z3.And(0 <= i, i < z3.Length(seq.t))
    if name == "any":
        return Val(TBool, z3.Exists([i], z3.And(rng, body)))
    return Val(TBool, z3.ForAll([i], z3.Implies(rng, body)))


# ---------------------------------------------------------------------------- methods
def call_method(run, obj, attr, args, kwargs, node):
    """Returns (result, new_container_or_None).  new_container is written back through the lvalue."""
    if isinstance(obj, VTuple):
        if attr == "count":
            return Val(TInt, z3.Sum([z3.If(ops.eq_terms(run, i, args[0]), 1, 0) for i in obj.items])), None
        raise err(f"tuple method {attr}")
    if isinstance(obj.ty, TOpt):
        run.implicit_raise(z3.Not(obj.ty.is_none(obj.t)), "AttributeError", node, f"None has no attribute {attr}")
        inner = Val(obj.ty.inner, obj.ty.get(obj.t))
        res, new = call_method(run, inner, attr, args, kwargs, node)
        if new is not None:
            new = Val(obj.ty, obj.ty.some(new.t))
        return res, new
    ty = obj.ty
    if ty is TStr:
        return str_method(run, obj, attr, args, kwargs, node), None
    if isinstance(ty, TSeq):
        return seq_method(run, obj, attr, args, kwargs, node)
    if isinstance(ty, TDict):
        return dict_method(run, obj, attr, args, kwargs, node)
    if isinstance(ty, TSet):
        return set_method(run, obj, attr, args, kwargs, node)
    if ty is TAny:
        h = run.x.reg.stubs.get(("method", "PyVal", attr))
        if h:
            return h(run, obj, args, kwargs, node), None
    raise err(f"method {attr} on {ty} (line {getattr(node, 'lineno', '?')})")


def _s(run, v, node):
    v = ops.unopt(run, v, node)
    if v.ty is TAny:
        return run.coerce(v, TStr)
    if v.ty is not TStr:
        run.implicit_raise(z3.BoolVal(False), "TypeError", node, "str expected")
    return v


def str_method(run, s, attr, args, kwargs, node):
    t = s.t
    S = z3.StringSort()
    if attr in ("startswith", "endswith"):
        a = args[0]
        f = z3.PrefixOf if attr == "startswith" else z3.SuffixOf
        if isinstance(a, VTuple):
            return Val(TBool, z3.Or(*[f(_s(run, x, node).t, t) for x in a.items]))
        return Val(TBool, f(_s(run, a, node).t, t))
    if attr == "strip" and not args:
        return Val(TStr, ops.str_strip(t))
    if attr == "lower":
        return Val(TStr, ops.str_lower(t))
    if attr == "count":
        return Val(TInt, ops.str_count(t, _s(run, args[0], node).t))
    if attr == "join":
        seq = args[0]
        if isinstance(seq, VTuple):
            parts = []
            for k, it in enumerate(seq.items):
                if k:
                    parts.append(t)
                parts.append(_s(run, it, node).t)
            if not parts:
                return mk_str("")
            return Val(TStr, z3.Concat(*parts) if len(parts) > 1 else parts[0])
        seq = ops.iter_to_seq(run, seq, node)
        if seq.ty.elem is not TStr:
            raise err("join over non-str sequence")
        units = _unit_items(seq.t)
        if units is not None:
            # a list of statically known length (e.g. a list display): join is the concatenation with separators
            parts = []
            for k, it in enumerate(units):
                if k:
                    parts.append(t)
                parts.append(it)
            return Val(TStr, (z3.Concat(*parts) if len(parts) > 1 else parts[0]) if parts else z3.StringVal(""))
        return Val(TStr, ops.str_join(t, seq.t))
    if attr == "find":
        return Val(TInt, z3.IndexOf(t, _s(run, args[0], node).t, run.coerce(args[1], TInt).t if len(args) > 1 else 0))
    if attr == "removeprefix":
        p = _s(run, args[0], node).t
        return Val(TStr, z3.If(z3.PrefixOf(p, t), z3.SubString(t, z3.Length(p), z3.Length(t) - z3.Length(p)), t))
    if attr == "removesuffix":
        p = _s(run, args[0], node).t
        return Val(TStr, z3.If(z3.SuffixOf(p, t), z3.SubString(t, 0, z3.Length(t) - z3.Length(p)), t))
    if attr == "replace":
        return Val(TStr, ops.uf("str_replace_all", S, S, S, S)(t, _s(run, args[0], node).t, _s(run, args[1], node).t))
    if attr in ("isidentifier", "isdigit", "isspace", "isalnum", "isupper", "islower"):
        return Val(TBool, ops.uf(f"str_{attr}", S, z3.BoolSort())(t))
    if attr in ("encode", "decode"):
        h = run.x.reg.stubs.get(("method", "Str", attr))
        if h:
            return h(run, s, args, kwargs, node)
        return Val(TStr, ops.uf(f"str_{attr}", S, S)(t))
    if attr == "format" and not args and kwargs:
        c = z3.simplify(t)
        if z3.is_string_value(c):
            import re as _re
            txt = c.as_string()
            parts = []
            pos = 0
            for m in _re.finditer(r"\{(\w+)\}", txt):
                if m.start() > pos:
                    parts.append(z3.StringVal(txt[pos:m.start()]))
                if m.group(1) not in kwargs:
                    run.implicit_raise(z3.BoolVal(False), "KeyError", node)
                parts.append(ops.to_str(run, kwargs[m.group(1)], node).t)
                pos = m.end()
            if pos < len(txt):
                parts.append(z3.StringVal(txt[pos:]))
            return Val(TStr, z3.Concat(*parts) if len(parts) > 1 else parts[0])
    if attr in ("upper", "title", "lstrip", "rstrip", "capitalize", "format"):
        return Val(TStr, ops.uf(f"str_{attr}_{len(args)}", S, *([S] * len(args)), S)(t, *[_s(run, a, node).t for a in args]))
    if attr == "split":
        h = run.x.reg.stubs.get(("method", "Str", "split"))
        if h:
            return h(run, s, args, kwargs, node)
    raise err(f"str method {attr} (line {getattr(node, 'lineno', '?')})")


def seq_method(run, s, attr, args, kwargs, node):
    ty, t = s.ty, s.t
    if attr == "append":
        v = run.coerce(args[0], ty.elem)
        new = z3.Concat(t, z3.Unit(v.t))
        if not run.spec:
            # consequences of the sequence theory, stated explicitly (the solvers are slow at deriving them under many
            # other constraints): length, last element, prefix unchanged
            kk = z3.FreshConst(z3.IntSort(), "ak")
            for fact in (z3.Length(new) == z3.Length(t) + 1, new[z3.Length(t)] == v.t,
                         z3.ForAll([kk], z3.Implies(z3.And(0 <= kk, kk < z3.Length(t)), new[kk] == t[kk]))):
                run.pc.append(fact)
                run.solver_add(fact)
        if ty.elem is TStr and not run.spec:
            # "".join(xs + [x]) == "".join(xs) + x   (instance of the defining equation of str.join, A-PY)
            e = z3.StringVal("")
            fact = ops.str_join(e, new) == z3.Concat(ops.str_join(e, t), v.t)
            run.pc.append(fact)
            run.solver_add(fact)
        return NONE, Val(ty, new)
    if attr == "extend":
        o = args[0]
        if isinstance(o, VTuple):
            o = ops.seq_from_items(run, o.items, ty)
        if isinstance(o, Val) and o.ty != ty and run.x.reg.stubs.get(("coerce", o.ty.name, ty.name)):
            o = run.coerce(o, ty)
        o = ops.iter_to_seq(run, o, node)
        return NONE, Val(ty, z3.Concat(t, o.t))
    if attr == "pop":
        n = z3.Length(t)
        if not args:
            run.implicit_raise(n > 0, "IndexError", node, "pop from empty list")
            return Val(ty.elem, t[n - 1]), Val(ty, z3.Extract(t, 0, n - 1))
        i = run.coerce(args[0], TInt).t
        run.implicit_raise(z3.And(i >= -n, i < n), "IndexError", node, "pop index out of range")
        j = ops.norm_index(i, n)
        new = z3.Concat(z3.Extract(t, 0, j), z3.Extract(t, j + 1, n - j - 1))
        if run.spec:
            return Val(ty.elem, t[j]), Val(ty, new)
        r = z3.FreshConst(ty.sort(), "seq_pop")
        p = z3.FreshConst(z3.IntSort(), "p")
        run.assume(z3.And(r == new, z3.Length(r) == n - 1))
        run.assume(z3.ForAll([p], z3.Implies(z3.And(0 <= p, p < n - 1), r[p] == z3.If(p < j, t[p], t[p + 1]))))
        return Val(ty.elem, t[j]), Val(ty, r)
    if attr == "insert":
        n = z3.Length(t)
        i = run.coerce(args[0], TInt).t
        v = run.coerce(args[1], ty.elem)
        j = z3.If(i < 0, z3.If(i + n < 0, 0, i + n), z3.If(i > n, n, i))
        new = z3.Concat(z3.Extract(t, 0, j), z3.Unit(v.t), z3.Extract(t, j, n - j))
        if run.spec:
            return NONE, Val(ty, new)
        # element-wise view of the insertion (consequence of the definition; spares concat / extract reasoning)
        r = z3.FreshConst(ty.sort(), "seq_ins")
        p = z3.FreshConst(z3.IntSort(), "p")
        run.assume(z3.And(r == new, z3.Length(r) == n + 1, 0 <= j, j <= n))
        run.assume(z3.ForAll([p], z3.Implies(z3.And(0 <= p, p <= n), r[p] == z3.If(p < j, t[p], z3.If(p == j, v.t, t[p - 1])))))
        return NONE, Val(ty, r)
    if attr == "clear":
        return NONE, Val(ty, z3.Empty(ty.sort()))
    if attr == "copy":
        return s, None
    if attr == "index":
        v = run.coerce(args[0], ty.elem)
        run.implicit_raise(z3.Contains(t, z3.Unit(v.t)), "ValueError", node, "not in list")
        return Val(TInt, z3.IndexOf(t, z3.Unit(v.t), 0)), None
    raise err(f"list method {attr}")


def dict_method(run, d, attr, args, kwargs, node):
    ty, t = d.ty, d.t
    h2 = run.x.reg.stubs.get(("method2", ty.name, attr)) if attr != "update" else None
    if h2 is not None:
        return h2(run, d, args, kwargs, node)
    if attr == "get":
        k = run.coerce(args[0], ty.k)
        has = z3.Select(ty.has(t), k.t)
        val = Val(ty.v, z3.Select(ty.val(t), k.t))
        if len(args) > 1:
            dflt = args[1]
            if isinstance(dflt, Val) and dflt.ty == ty.v:
                return Val(ty.v, z3.If(has, val.t, dflt.t)), None
        else:
            dflt = NONE
        if isinstance(ty.v, TRef):
            return Val(ty.v, z3.If(has, val.t, run.coerce(dflt, ty.v).t)), None
        oty = ty.v if isinstance(ty.v, TOpt) else TOpt(ty.v)
        r = Val(oty, z3.If(has, run.coerce(val, oty).t, run.coerce(dflt, oty).t))
        return r, None
    if attr == "pop":
        k = run.coerce(args[0], ty.k)
        has = z3.Select(ty.has(t), k.t)
        if len(args) == 1:
            run.implicit_raise(has, "KeyError", node)
            v = Val(ty.v, z3.Select(ty.val(t), k.t))
            run.wf(v)
            return v, Val(ty, ops.dict_remove(ty, t, k.t))
        if run.branch(has):
            return Val(ty.v, z3.Select(ty.val(t), k.t)), Val(ty, ops.dict_remove(ty, t, k.t))
        return args[1], None
    if attr == "clear":
        return NONE, Val(ty, ty.empty())
    if attr == "keys":
        if not ty.ordered:
            return Conc(("dictkeys", d)), None
        return Conc(("seqview", Val(TSeq(ty.k), ty.order(t)))), None
    if attr == "items":
        ety = TTup([ty.k, ty.v])
        rty = TSeq(ety)
        r = z3.FreshConst(rty.sort(), "items")
        i = z3.FreshConst(z3.IntSort(), "ii")
        # insertion order when it is tracked, otherwise SOME duplicate-free enumeration of the keys
        order = ty.order(t) if ty.ordered else dict_keys_enum(run, d).t
        run.assume(z3.Length(r) == z3.Length(order))
        run.assume(z3.ForAll([i], z3.Implies(z3.And(0 <= i, i < z3.Length(r)), r[i] == ety.mk(order[i], z3.Select(ty.val(t), order[i])))))
        return Conc(("seqview", Val(rty, r))), None
    if attr == "values":
        raise err("dict.values(): use a stub")
    if attr == "copy":
        return d, None
    if attr == "setdefault":
        k = run.coerce(args[0], ty.k)
        has = z3.Select(ty.has(t), k.t)
        if run.branch(has):
            return Val(ty.v, z3.Select(ty.val(t), k.t)), None
        new = ops.setitem(run, d, k, args[1], node)
        return run.coerce(args[1], ty.v), new
    if attr == "update":
        h = run.x.reg.stubs.get(("method2", ty.name, "update"))
        if h is not None:
            return h(run, d, args, kwargs, node)
        other = args[0]
        if isinstance(other, Val) and isinstance(other.ty, TOpt):
            other = ops.unopt(run, other, node)
        if isinstance(other, Conc) and other.obj == ("emptydict",):
            return NONE, None               # d.update({}) changes nothing
        if isinstance(other, Val) and isinstance(other.ty, TDict) and other.ty.k == ty.k and other.ty.v == ty.v:
            # d.update(o): pointwise, `o` wins.  For an ordered dict the resulting insertion ORDER is left unspecified
            # (weaker than Python: old keys keep their place, new keys follow in o's order) - only the typing invariant holds
            kx = z3.FreshConst(ty.k.sort(), "uk")
            new = ty.fresh("updated")
            o = other.t
            oty = other.ty
            ax = z3.ForAll([kx], z3.And(z3.Select(ty.has(new), kx) == z3.Or(z3.Select(ty.has(t), kx), z3.Select(oty.has(o), kx)),
                                        z3.Select(ty.val(new), kx) == z3.If(z3.Select(oty.has(o), kx), z3.Select(oty.val(o), kx), z3.Select(ty.val(t), kx))))
            run.pc.append(ax)
            nv = Val(ty, new)
            run.wf(nv)
            return NONE, nv
        raise err("dict.update: use a stub")
    raise err(f"dict method {attr}")


def set_method(run, s, attr, args, kwargs, node):
    ty, t = s.ty, s.t
    if attr == "add":
        k = run.coerce(args[0], ty.k)
        had = z3.Select(ty.has(t), k.t)
        return NONE, Val(ty, ty.mk(z3.Store(ty.has(t), k.t, True), z3.If(had, ty.size(t), ty.size(t) + 1)))
    if attr in ("remove", "discard"):
        k = run.coerce(args[0], ty.k)
        had = z3.Select(ty.has(t), k.t)
        if attr == "remove":
            run.implicit_raise(had, "KeyError", node)
        new = Val(ty, ty.mk(z3.Store(ty.has(t), k.t, False), z3.If(had, ty.size(t) - 1, ty.size(t))))
        run.wf(new)
        return NONE, new
    if attr == "copy":
        return s, None
    if attr == "clear":
        return NONE, Val(ty, ty.empty())
    raise err(f"set method {attr}")
