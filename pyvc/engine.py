"""Explorer: runs one verification unit (a real function of /repo + its sidecar contract) over all paths."""
import ast
import os
import re as _re

import z3

from . import ops
from .builtins import BUILTINS, call_builtin, call_method, isinstance_check
from .interp import (EXC_PARENT, Closure, EngineError, ExcVal, Frame, Loop, Obligation, PathEnd, PyRaise, Run, _Break,
                     _Continue, _Return, exc_isinstance)
from .repo import ExtractionError, FuncInfo, get_func, is_repo_module, load_module
from .types import (NONE, Conc, Opt, TAny, TBool, TDict, TInt, TNone, TObj, TOpt, TRef, TSeq, TSet, TStr, TTup, Ty, Val,
                    VTuple, is_none_val, mk_bool, mk_int, mk_str)

MUTATORS = {"append", "add", "pop", "remove", "update", "clear", "insert", "extend", "setdefault", "discard", "popitem",
            "appendleft", "popleft", "sort", "reverse"}
NOOP_CALLS = {"trace_component_msg", "trace_node_msg", "logger.debug", "logger.warning", "logger.info", "logger.log"}


class Explorer:
    def __init__(self, reg, contract, branch_timeout_ms=400, max_paths=4000):
        self.reg = reg
        self.c = contract
        self.finfo = get_func(contract.fq)
        self.unit_name = contract.fq
        self.branch_timeout_ms = branch_timeout_ms
        self.max_paths = max_paths
        self.pending = []
        self.trivial = 0
        self.trivial_names = {}
        self.weak_loops = set()
        self.stubs_used = set()
        self.contracts_used = set()
        self.inlined = set()
        self._inline_stack = []
        self.paths = 0
        self.exits = {"normal": 0, "raise": 0, "cut": 0}
        self._loop_ids = {}
        self.maybe_foreign = set()
        self._spec_cache = {}
        self._index_loops(self.finfo.node, None)

    def finding_region(self, name):
        if not self.c.findings:
            return None
        base = name
        if base not in self.c.findings:
            return None
        from .driver import load_known_findings
        for k in load_known_findings():
            if k.get("status", "open") == "open" and k.get("unit") == self.c.fq and k.get("obligation") == base:
                return self.c.findings[base]
        return None

    def note_trivial(self, name):
        self.trivial_names[name] = self.trivial_names.get(name, 0) + 1

    # ------------------------------------------------------------------ static info
    def _index_loops(self, fnode, prefix):
        k = 0
        for n in _source_order(fnode):
            if isinstance(n, (ast.For, ast.While)):
                self._loop_ids[id(n)] = k if prefix is None else f"{prefix}#{k}"
                k += 1

    def loop_ordinal(self, st):
        if id(st) not in self._loop_ids:
            raise EngineError(f"loop at line {st.lineno} not indexed")
        return self._loop_ids[id(st)]

    def loop_spec(self, ordinal):
        return self.c.loops.get(ordinal)

    def field_type(self, cls, field):
        try:
            return self.reg.classes[cls][field]
        except KeyError:
            raise EngineError(f"field {cls}.{field} has no declared type in the sidecar")

    def has_field(self, cls, field):
        return cls in self.reg.classes and field in self.reg.classes[cls] and not field.startswith("__")

    def initial_field(self, run, cls, field):
        fty = self.field_type(cls, field)
        return z3.Const(f"heap0!{cls}.{field}", z3.ArraySort(z3.IntSort(), fty.sort()))

    def class_module(self, cls):
        m = self.reg.classes.get(cls, {}).get("__module__")
        return load_module(m) if m else self.finfo.module

    def find_method(self, cls, name):
        m = self.class_module(cls)
        return m.funcs.get(f"{cls}.{name}")

    def local_type(self, finfo, name):
        if finfo is self.finfo or finfo.qualname.startswith(self.finfo.qualname + ".<locals>"):
            return self.c.locals.get(name)
        c2 = self.reg.contracts.get(finfo.fq)
        return c2.locals.get(name) if c2 else None

    def type_from_annotation(self, ann, fr=None, soft=False):
        try:
            return self._ann(ann)
        except EngineError:
            if soft:
                return None
            raise

    def _ann(self, a):
        if isinstance(a, ast.Constant) and isinstance(a.value, str):
            return self._ann(ast.parse(a.value, mode="eval").body)
        if isinstance(a, ast.Constant) and a.value is None:
            return TNone
        if isinstance(a, ast.Name):
            if a.id in ("str", "bytes"):
                return TStr
            if a.id == "int":
                return TInt
            if a.id == "bool":
                return TBool
            if a.id in self.reg.classes:
                return TRef(a.id)
            if a.id in self.reg.records:
                return self.reg.records[a.id]
            raise EngineError(f"no SMT sort for annotation {a.id}")
        if isinstance(a, ast.Subscript):
            base = a.value.id if isinstance(a.value, ast.Name) else getattr(a.value, "attr", None)
            args = a.slice.elts if isinstance(a.slice, ast.Tuple) else [a.slice]
            if base == "Optional":
                inner = self._ann(args[0])
                return inner if isinstance(inner, TRef) else Opt(inner)
            if base in ("List", "list", "Sequence", "Iterable"):
                return TSeq(self._ann(args[0]))
            if base in ("Dict", "dict", "Mapping"):
                return TDict(self._ann(args[0]), self._ann(args[1]))
            if base in ("Set", "set"):
                return TSet(self._ann(args[0]))
            if base in ("Tuple", "tuple"):
                if len(args) == 2 and isinstance(args[1], ast.Constant) and args[1].value is Ellipsis:
                    return TSeq(self._ann(args[0]))
                return TTup([self._ann(x) for x in args])
            if base in self.reg.classes:
                return TRef(base)
        raise EngineError(f"no SMT sort for annotation {ast.unparse(a)}")

    def parse_spec(self, text):
        if text not in self._spec_cache:
            try:
                self._spec_cache[text] = ast.parse(text.strip(), mode="eval").body
            except SyntaxError as e:
                raise EngineError(f"bad spec expression {text!r}: {e}")
        return self._spec_cache[text]

    # ------------------------------------------------------------------ name resolution
    def resolve_global(self, run, module, name, node):
        if name in ("forall", "exists", "implies", "old", "result_is", "iff", "Int", "Str", "Bool", "ite", "count",
                    "strip", "select", "seq_len", "dom", "card", "raised", "typeof", "fresh_old"):
            if run.spec:
                if name in ("Int", "Str", "Bool"):
                    return Conc({"Int": TInt, "Str": TStr, "Bool": TBool}[name])
                return Conc(("spec", name))
        if run.spec:
            for sfs in reversed(run.specfun_stack):
                if name in sfs:
                    f = sfs[name]
                    return Conc(("stubfn", lambda run_, args, kwargs, node_, f=f: f(run_, *args, **kwargs)))
        if name in module.funcs:
            return Conc(("func", module.funcs[name]))
        if name in module.classes:
            return self._class_ref(module, name)
        if name in module.consts:
            try:
                v = self.eval_const(run, module, name)
                if isinstance(v, Conc) and isinstance(v.obj, tuple) and v.obj[0] in ("emptydict", "emptylist") and not run.spec:
                    # a module-level mutable container that the contract's footprint (`globals=`) does not declare
                    return Conc(("unmodelled_global", name, "module-level mutable container"))
                return v
            except EngineError as e:
                if run.spec:
                    raise
                # module-level state that the engine cannot model and the contract does not declare
                return Conc(("unmodelled_global", name, str(e)))
        if name in module.imports:
            imp = module.imports[name]
            if imp[0] == "module":
                return Conc(("module", imp[1]))
            return self.resolve_import(imp[1], imp[2])
        if name in BUILTINS:
            return Conc(("builtin", name))
        if name in EXC_PARENT:
            return Conc(("exc_class", name))
        raise EngineError(f"unresolved name '{name}' (line {getattr(node, 'lineno', '?')}) in {module.name}")

    def _class_ref(self, module, name):
        cnode = module.classes[name]
        for b in cnode.bases:
            bn = b.id if isinstance(b, ast.Name) else getattr(b, "attr", "")
            if bn in EXC_PARENT:
                if name not in EXC_PARENT:
                    EXC_PARENT[name] = bn
                return Conc(("exc_class", name))
        if name in EXC_PARENT:
            return Conc(("exc_class", name))
        return Conc(("class", module.name, name))

    def resolve_import(self, modname, name):
        if modname and is_repo_module(modname):
            m = load_module(modname)
            if name in m.funcs:
                return Conc(("func", m.funcs[name]))
            if name in m.classes:
                return self._class_ref(m, name)
            if name in m.consts:
                return Conc(("lazyconst", modname, name))
            if name in m.imports:
                imp = m.imports[name]
                if imp[0] == "from":
                    return self.resolve_import(imp[1], imp[2])
            if is_repo_module(modname + "." + name):
                return Conc(("module", modname + "." + name))
            raise EngineError(f"cannot resolve {modname}.{name}")
        if name in EXC_PARENT:
            return Conc(("exc_class", name))
        return Conc(("ext", f"{modname}.{name}"))

    def eval_const(self, run, module, name):
        expr = module.consts[name]
        fi = FuncInfo(module, "<module>", ast.FunctionDef(name="<module>", args=None, body=[], decorator_list=[], lineno=0), None)
        fr = Frame(fi)
        saved = run.spec
        run.spec = 0
        try:
            return run.ev(expr, fr)
        finally:
            run.spec = saved

    # ------------------------------------------------------------------ hooks for special attribute access
    def attr_getter(self, obj, attr):
        if isinstance(obj, Conc):
            o = obj.obj
            if isinstance(o, tuple) and o[0] == "lazyconst":
                return lambda run, ob, node: run.get_attr(self.eval_const(run, load_module(o[1]), o[2]), attr, node)
            if isinstance(o, tuple) and o[0] == "module":
                def g(run, ob, node):
                    mn = o[1]
                    if is_repo_module(mn):
                        return self.resolve_import(mn, attr)
                    if is_repo_module(mn + "." + attr):
                        return Conc(("module", mn + "." + attr))
                    if ("value", f"{mn}.{attr}") in self.reg.stubs:
                        return self.reg.stubs[("value", f"{mn}.{attr}")]
                    if attr in EXC_PARENT or f"{mn}.{attr}" in EXC_PARENT:
                        return Conc(("exc_class", attr if attr in EXC_PARENT else f"{mn}.{attr}"))
                    return Conc(("ext", f"{mn}.{attr}"))
                return g
            if isinstance(o, ExcVal):
                if ("getattr", "conc:ExcVal", attr) in self.reg.stubs:
                    return self.reg.stubs[("getattr", "conc:ExcVal", attr)]
                if attr == "args":
                    return lambda run, ob, node: VTuple(o.args)
            if isinstance(o, tuple) and o[0] == "class":
                def g2(run, ob, node):
                    m = load_module(o[1])
                    key = f"{o[2]}.{attr}"
                    if key in m.funcs:
                        return Conc(("func", m.funcs[key]))
                    if key in m.consts:
                        return self.eval_const(run, m, key)
                    raise EngineError(f"class attribute {key}")
                return g2
            if isinstance(o, tuple) and o[0] == "ext":
                if ("value", f"{o[1]}.{attr}") in self.reg.stubs:
                    return lambda run, ob, node: self.reg.stubs[("value", f"{o[1]}.{attr}")]
                return lambda run, ob, node: Conc(("ext", f"{o[1]}.{attr}"))
            if isinstance(o, tuple) and o[0] == "obj":
                # meta-level record with named attributes (produced by stubs)
                if attr in o[1]:
                    return lambda run, ob, node: o[1][attr]
        h = self.reg.stubs.get(("getattr", _tyname(obj), attr))
        if h is not None:
            return h
        return None

    def attr_setter(self, obj, attr):
        return self.reg.stubs.get(("setattr", _tyname(obj), attr))

    def getitem_hook(self, base):
        return self.reg.stubs.get(("getitem", _tyname(base)))

    def setitem_hook(self, base):
        return self.reg.stubs.get(("setitem", _tyname(base)))

    def context_manager(self, run, cm, node):
        if isinstance(cm, Conc) and isinstance(cm.obj, tuple) and cm.obj[0] == "cm":
            return cm.obj[1], cm.obj[2]
        raise EngineError(f"`with` on {cm} (line {node.lineno}): no context-manager contract")

    # ------------------------------------------------------------------ calls
    def do_call(self, run, node, fr):
        run.call_frame = fr
        src = ast.unparse(node.func)
        if src in NOOP_CALLS or src.split(".")[-1] in ("trace_component_msg", "trace_node_msg"):
            return NONE
        if src == "cast" or src == "typing.cast":
            return run.ev(node.args[1], fr)
        if src == "getattr" and len(node.args) == 3 and src not in self.c.calls:
            # default argument is not evaluated: the declared field models the attribute (see builtins.getattr)
            from .builtins import call_builtin as _cb
            return _cb(run, "getattr", [run.ev(node.args[0], fr), run.ev(node.args[1], fr)], {}, node, fr)
        # per-unit call mapping (sidecar `calls`)
        if src in self.c.calls:
            args, kwargs = self.eval_args(run, node, fr)
            self.stubs_used.add(f"calls[{src}]")
            return self.c.calls[src](run, args, kwargs, node)
        # spec helpers
        if run.spec and isinstance(node.func, ast.Name) and node.func.id in ("forall", "exists", "implies", "old", "iff", "ite"):
            if fr.lookup(node.func.id) is None:
                return self.spec_call(run, node, fr)
        # method call on a symbolic value: may mutate in place -> write back through the lvalue
        if isinstance(node.func, ast.Attribute):
            objnode = node.func.value
            if isinstance(objnode, ast.Call) and isinstance(objnode.func, ast.Name) and objnode.func.id == "super":
                raise EngineError("super() not supported")
            if (isinstance(objnode, ast.Call) and isinstance(objnode.func, ast.Attribute) and objnode.func.attr == "setdefault"
                    and len(objnode.args) == 2):
                # d.setdefault(k, v).m(...)  mutates the value stored in d: evaluate the setdefault, then treat the
                # receiver as the lvalue d[k] so that the mutation is written back
                run.ev(objnode, fr)
                objnode = ast.Subscript(value=objnode.func.value, slice=objnode.args[0], ctx=ast.Load(), lineno=node.lineno, col_offset=node.col_offset)
            obj = run.ev(objnode, fr)
            attr = node.func.attr
            if isinstance(obj, Conc) and isinstance(obj.obj, tuple) and obj.obj[0] == "unmodelled_global":
                if attr in MUTATORS:
                    # the function changes module-level state that its contract's frame (`modifies` / `globals`) does not list
                    run.oblige(f"frame#{obj.obj[1]}", z3.BoolVal(False), kind="frame",
                               note=f"{self.c.fq} mutates the module-level object `{obj.obj[1]}` ({attr} at line {node.lineno}), which is outside the frame of its contract")
                    raise PathEnd()
                run.oblige(f"frame#{obj.obj[1]}", z3.BoolVal(False), kind="frame",
                           note=f"{self.c.fq} uses the module-level object `{obj.obj[1]}` (.{attr} at line {node.lineno}), which is outside the footprint of its contract ({obj.obj[2]})")
                raise PathEnd()
            if isinstance(obj, Val) and isinstance(obj.ty, TDict) and attr == "setdefault" and len(node.args) == 2:
                key = run.ev(node.args[0], fr)
                dflt = run.ev_typed(node.args[1], fr, obj.ty.v)
                res, new = call_method(run, obj, attr, [key, dflt], {}, node)
                if new is not None:
                    run.assign(objnode, new, fr, writeback=True)
                return res
            if isinstance(obj, (Val, VTuple)) and not (isinstance(obj, Val) and isinstance(obj.ty, TRef) and not self.reg.stubs.get(("method", obj.ty.name, attr))):
                hook = self.reg.stubs.get(("method", _tyname(obj), attr))
                args, kwargs = self.eval_args(run, node, fr)
                if hook is not None:
                    self.stubs_used.add(f"{_tyname(obj)}.{attr}")
                    return hook(run, obj, args, kwargs, node)
                res, new = call_method(run, obj, attr, args, kwargs, node)
                if new is not None:
                    run.assign(objnode, new, fr, writeback=True)
                return res
            callee = run.get_attr(obj, attr, node.func)
        else:
            callee = run.ev(node.func, fr)
        args, kwargs = self.eval_args(run, node, fr)
        return self.call_value(run, callee, args, kwargs, node, fr)

    def eval_args(self, run, node, fr):
        args = []
        for a in node.args:
            if isinstance(a, ast.Starred):
                s = run.ev(a.value, fr)
                if isinstance(s, VTuple):
                    args.extend(s.items)
                else:
                    # *seq with a symbolic sequence: may only flow into the callee's *args parameter
                    args.append(Conc(("starseq", ops.iter_to_seq(run, s, node))))
            else:
                args.append(run.ev(a, fr))
        kwargs = {}
        for k in node.keywords:
            if k.arg is None:
                if ast.unparse(node.func) in self.c.calls:
                    kwargs["**"] = run.ev(k.value, fr)        # handed to the sidecar's call mapping as one mapping value
                    continue
                raise EngineError(f"**kwargs call (line {node.lineno})")
            kwargs[k.arg] = run.ev(k.value, fr)
        return args, kwargs

    def call_value(self, run, callee, args, kwargs, node, fr=None):
        if not isinstance(callee, Conc):
            raise EngineError(f"call of non-callable {callee} (line {getattr(node, 'lineno', '?')})")
        o = callee.obj
        if isinstance(o, Closure):
            return self.inline_call(run, o, args, kwargs, node)
        if isinstance(o, tuple):
            kind = o[0]
            if kind == "func":
                return self.call_function(run, o[1], args, kwargs, node)
            if kind == "bound":
                return self.call_function(run, o[1], [o[2]] + args, kwargs, node)
            if kind == "builtin":
                return call_builtin(run, o[1], args, kwargs, node, fr)
            if kind == "exc_class":
                return Conc(ExcVal(o[1], args, site=f"line {getattr(node, 'lineno', '?')}"))
            if kind == "class":
                return self.instantiate(run, o[1], o[2], args, kwargs, node)
            if kind == "ext":
                st = self.reg.stubs.get(o[1])
                if st is None:
                    raise EngineError(f"unresolved external callee {o[1]} (line {getattr(node, 'lineno', '?')}): add a stub")
                self.stubs_used.add(o[1])
                return st(run, args, kwargs, node)
            if kind == "method" and isinstance(o[1], Conc) and o[1].obj == ("builtin", "dict") and o[2] == "fromkeys" and len(args) == 1:
                # dict.fromkeys(seq): the distinct elements of seq in first-appearance order (opaque `dedupe`)
                sq = ops.iter_to_seq(run, args[0], node)
                return Conc(("seqview", Val(sq.ty, ops.uf(f"dedupe_{sq.ty.name}", sq.ty.sort(), sq.ty.sort())(sq.t))))
            if kind == "method":
                obj, attr = o[1], o[2]
                hook = self.reg.stubs.get(("method", _tyname(obj), attr))
                if hook is not None:
                    self.stubs_used.add(f"{_tyname(obj)}.{attr}")
                    return hook(run, obj, args, kwargs, node)
                raise EngineError(f"unresolved method {attr} on {obj} (line {getattr(node, 'lineno', '?')})")
            if kind == "spec":
                raise EngineError(f"spec helper {o[1]} called outside spec")
            if kind == "stubfn":
                return o[1](run, args, kwargs, node)
        raise EngineError(f"cannot call {callee}")

    def instantiate(self, run, modname, cname, args, kwargs, node):
        st = self.reg.stubs.get(("new", cname))
        if st is not None:
            self.stubs_used.add(f"new {cname}")
            return st(run, args, kwargs, node)
        if cname in self.reg.classes:
            ref = run.alloc(cname)
            m = load_module(modname)
            init = m.funcs.get(f"{cname}.__init__")
            if init is not None:
                self.call_function(run, init, [ref] + args, kwargs, node)
                return ref
            cnode = m.classes.get(cname)
            if cnode is not None and any(ast.unparse(d).split("(")[0] in ("dataclass", "dataclasses.dataclass") for d in cnode.decorator_list):
                # @dataclass without an explicit __init__: fields in annotation order, defaults from the class body
                fields = [(st.target.id, st.value) for st in cnode.body if isinstance(st, ast.AnnAssign) and isinstance(st.target, ast.Name)]
                given = dict(zip([f for f, _d in fields], args))
                for k, v in kwargs.items():
                    if k in given or k not in dict(fields):
                        raise EngineError(f"{cname}(...): bad argument {k}")
                    given[k] = v
                decl = self.reg.classes[cname]
                for f, dflt in fields:
                    if f not in given:
                        if dflt is None:
                            raise EngineError(f"{cname}(...): missing field {f}")
                        given[f] = run.ev(dflt, Frame(FuncInfo(m, "<class>", ast.FunctionDef(name="<class>", args=None, body=[], decorator_list=[], lineno=0), None)))
                    if f in decl:
                        run.store_field(ref.t, cname, f, run.coerce(given[f], decl[f]))
                return ref
            return ref
        raise EngineError(f"instantiation of {modname}.{cname}: class not declared in the sidecar")

    KNOWN_DECORATORS = ("property", "classmethod", "staticmethod", "contextmanager", "dataclass", "abc.abstractmethod", "abstractmethod",
                        "functools.wraps", "wraps", "typing.no_type_check", "runtime_checkable", "overload", "typing.overload",
                        "register", "template_tag", "sync_and_async_middleware")
    MEMO_DECORATORS = ("lru_cache", "functools.lru_cache", "cache", "functools.cache")

    def check_decorators(self, finfo):
        """decorators either have a stated meaning or the code cannot be read (never silently ignored)"""
        memo = False
        for d in finfo.decorators:
            head = d.split("(")[0]
            if head in self.MEMO_DECORATORS:
                memo = True
            elif head not in self.KNOWN_DECORATORS and not head.endswith(".setter"):
                raise EngineError(f"decorator @{d} on {finfo.fq} has no stated meaning in the extraction (pyvc.repo.DROPPED)")
        return memo

    def call_function(self, run, finfo, args, kwargs, node):
        if self.check_decorators(finfo) and not getattr(run, "_in_memo", False):
            # functools.lru_cache: the result may be the one computed EARLIER for arguments that are equal (== / hash) to
            # these - which is not the same as identical (SafeString("x") == "x", True == 1)
            if run.choose(2, None) == 1:
                def earlier(v):
                    if isinstance(v, Val) and v.ty is not TNone:
                        w = Val(v.ty, v.ty.fresh("memo_arg"))
                        run.wf(w)
                        run.assume(_memo_equal(run, w, v))
                        return w
                    return v
                args = [earlier(a) for a in args]
                kwargs = {k: earlier(v) for k, v in kwargs.items()}
                self.stubs_used.add(f"lru_cache[{finfo.fq}]")
        fq = finfo.fq
        c2 = self.reg.contracts.get(fq)
        if fq in self.c.inline or (c2 is None and fq in self.reg.stubs.get("__inline_ok__", ())):
            self.inlined.add(fq)
            if id(finfo.node) not in self._loop_ids and not getattr(finfo, "_indexed", False):
                self._index_loops(finfo.node, finfo.qualname)
                finfo._indexed = True
            return self.inline_call(run, Closure(finfo.node, None, finfo), args, kwargs, node)
        st = self.reg.stubs.get(fq)
        if st is not None and c2 is None:
            self.stubs_used.add(fq)
            return st(run, args, kwargs, node)
        if c2 is None:
            # a helper of the package without a contract: its real body is analysed in place (exact, nothing assumed);
            # loops in it still need invariants, recursion is refused
            if fq in self._inline_stack:
                raise EngineError(f"callee {fq} is recursive and has no contract (line {getattr(node, 'lineno', '?')})")
            self.inlined.add(fq + " (no contract: body analysed in place)")
            if id(finfo.node) not in self._loop_ids and not getattr(finfo, "_indexed", False):
                self._index_loops(finfo.node, finfo.qualname)
                finfo._indexed = True
            self._inline_stack.append(fq)
            try:
                return self.inline_call(run, Closure(finfo.node, None, finfo), args, kwargs, node)
            finally:
                self._inline_stack.pop()
        return self.modular_call(run, finfo, c2, args, kwargs, node)

    def bind_params(self, run, fnode, args, kwargs, def_frame, finfo):
        a = fnode.args
        names = [p.arg for p in a.posonlyargs + a.args]
        bound = {}
        if len(args) > len(names) and a.vararg is None:
            raise EngineError(f"too many positional arguments for {finfo.qualname}")
        stars = [i for i, v in enumerate(args) if isinstance(v, Conc) and isinstance(v.obj, tuple) and v.obj[0] == "starseq"]
        if stars and (a.vararg is None or stars[0] < len(names)):
            raise EngineError(f"*seq argument does not flow into *args of {finfo.qualname}")
        for n, v in zip(names, args):
            bound[n] = v
        if a.vararg is not None:
            rest = args[len(names):]
            if stars:
                vty = None
                for v in rest:
                    if isinstance(v, Conc):
                        vty = v.obj[1].ty
                parts = [v.obj[1].t if isinstance(v, Conc) else z3.Unit(run.coerce(v, vty.elem).t) for v in rest]
                bound[a.vararg.arg] = Val(vty, z3.Concat(*parts) if len(parts) > 1 else parts[0])
            else:
                bound[a.vararg.arg] = VTuple(rest)
        for k, v in kwargs.items():
            if k in bound:
                raise EngineError(f"duplicate argument {k}")
            if k in names or k in [p.arg for p in a.kwonlyargs]:
                bound[k] = v
            else:
                raise EngineError(f"unexpected keyword {k} for {finfo.qualname}")
        defaults = a.defaults
        for n, d in zip(names[len(names) - len(defaults):], defaults):
            if n not in bound:
                bound[n] = run.ev(d, def_frame or Frame(finfo))
        for p, d in zip(a.kwonlyargs, a.kw_defaults):
            if p.arg not in bound and d is not None:
                bound[p.arg] = run.ev(d, def_frame or Frame(finfo))
        for n in names + [p.arg for p in a.kwonlyargs]:
            if n not in bound:
                raise EngineError(f"missing argument {n} for {finfo.qualname}")
        return bound

    def inline_call(self, run, clo, args, kwargs, node):
        fnode = clo.node
        fr = Frame(clo.finfo, parent=clo.frame)
        if isinstance(fnode, ast.Lambda):
            bound = self.bind_params(run, fnode, args, kwargs, clo.frame, clo.finfo)
            fr.vars.update(bound)
            return run.ev(fnode.body, fr)
        bound = self.bind_params(run, fnode, args, kwargs, clo.frame, clo.finfo)
        for n, v in bound.items():
            lt = self.local_type(clo.finfo, n)
            fr.vars[n] = run.coerce(v, lt) if lt is not None and not isinstance(v, Conc) else v
        if run.spec:
            raise EngineError("call of repository code inside a spec")
        try:
            run.exec_block(fnode.body, fr)
        except _Return as r:
            return r.val
        return NONE

    def param_types(self, finfo, c):
        a = finfo.node.args
        out = {}
        allp = a.posonlyargs + a.args + a.kwonlyargs
        for i, p in enumerate(allp):
            if p.arg in c.types:
                out[p.arg] = c.types[p.arg]
            elif i == 0 and finfo.cls and p.arg in ("self",):
                out[p.arg] = c.self_type or TRef(finfo.cls)
            elif p.annotation is not None:
                out[p.arg] = self._ann(p.annotation)
            else:
                raise EngineError(f"parameter {p.arg} of {finfo.fq} has no type")
        return out

    def modular_call(self, run, finfo, c2, args, kwargs, node):
        """Caller is checked against the callee's CONTRACT, never its body."""
        self.contracts_used.add(c2.fq)
        k = run.call_counter.get(c2.fq, 0)
        run.call_counter[c2.fq] = k + 1
        site = f"{finfo.qualname}@{getattr(node, 'lineno', '?')}"
        bound = self.bind_params(run, finfo.node, args, kwargs, None, finfo)
        ptypes = self.param_types(finfo, c2)
        for extra in (finfo.node.args.vararg, finfo.node.args.kwarg):
            if extra is not None and extra.arg in c2.types:
                ptypes[extra.arg] = c2.types[extra.arg]
        sf = Frame(finfo)
        for n, v in bound.items():
            if isinstance(v, VTuple) and n in ptypes and isinstance(ptypes[n], TSeq):
                v = ops.seq_from_items(run, v.items, ptypes[n]) if v.items else Val(ptypes[n], z3.Empty(ptypes[n].sort()))
            sf.vars[n] = run.coerce(v, ptypes[n]) if not isinstance(v, Conc) else v
        saved_old = run.old
        run.old = {"heap": dict(run.heap), "globals": dict(run.globals), "vars": dict(sf.vars), "ghost": dict(run.ghost), "next_ref": run.next_ref}
        run.specfun_stack.append(c2.specfuns)
        run.modular += 1
        try:
            for j, req in enumerate(c2.requires):
                run.oblige(f"pre@{site}#{j}", run.spec_bool(req, sf), kind="pre", note=str(req) if isinstance(req, str) else getattr(req, "__name__", "pre"))
            # havoc what the callee may modify
            for m in c2.modifies:
                if "." in m:
                    cls, fld = m.split(".")
                    arr = run.field_array(cls, fld)
                    run.heap[m] = z3.FreshConst(arr.sort(), f"heap!{m}!c")
                elif m in run.globals:
                    cur = run.globals[m]
                    run.globals[m] = Val(cur.ty, cur.ty.fresh(f"{m}!c"))
                    run.wf(run.globals[m])
                else:
                    raise EngineError(f"modifies entry {m} of {c2.fq} is neither Class.field nor a declared global of this unit")
            if any("." in m for m in c2.modifies):
                # the callee may allocate: objects the caller creates afterwards are distinct from the callee's
                nr = z3.FreshConst(z3.IntSort(), "next_ref!c")
                run.assume(nr >= run.next_ref)
                run.next_ref = nr
            outcomes = ["normal"] + sorted(c2.raises.keys())
            which = run.choose(len(outcomes), None) if len(outcomes) > 1 else 0
            if which == 0:
                res = NONE
                if c2.result is not None and c2.result is not TNone:
                    if c2.pure and not c2.modifies:
                        # deterministic, state-free callee: its result is a FUNCTION of its arguments
                        pn = [p_.arg for p_ in finfo.node.args.posonlyargs + finfo.node.args.args + finfo.node.args.kwonlyargs]
                        ats = [sf.vars[n_] for n_ in pn]
                        if not all(isinstance(a_, Val) for a_ in ats):
                            raise EngineError(f"pure callee {c2.fq} called with a non-symbolic argument")
                        fn = ops.uf(f"pure_{c2.fq}", *[a_.ty.sort() for a_ in ats], c2.result.sort())
                        res = Val(c2.result, fn(*[a_.t for a_ in ats]))
                    else:
                        res = Val(c2.result, c2.result.fresh(f"ret_{finfo.node.name}"))
                    run.wf(res)
                sf.vars["result"] = res
                if c2.call_entry is not None:
                    c2.call_entry(run, sf)
                from .interp import SpecCtx
                if c2.ghost_update is not None:
                    run.spec += 1
                    try:
                        c2.ghost_update(SpecCtx(run, sf))
                    finally:
                        run.spec -= 1
                elif c2.ghost_havoc is not None:
                    c2.ghost_havoc(SpecCtx(run, sf))
                for lab, ens in c2.ensures.items():
                    run.assume(run.spec_bool(ens, sf))
                return res
            cls = outcomes[which]
            cond = c2.raises[cls]
            if cond is not None:
                ct = run.spec_bool(cond, sf)
                reg = (c2.findings or {}).get(f"xpre#{cls}")
                if reg is not None:
                    # a recorded known finding of the callee: inside its region the exception DOES escape
                    ct = z3.Or(ct, run.spec_bool(reg, sf))
                run.assume(ct)
            for lab, ens in c2.xensures.get(cls, {}).items():
                run.assume(run.spec_bool(ens, sf))
            raise PyRaise(ExcVal(cls, [], site=f"raised by {site}"))
        finally:
            run.modular -= 1
            run.old = saved_old
            run.specfun_stack.pop()

    # ------------------------------------------------------------------ spec helper calls
    def spec_call(self, run, node, fr):
        name = node.func.id
        if name == "implies":
            a = run.truth(run.ev(node.args[0], fr))
            b = run.truth(run.ev(node.args[1], fr))
            return Val(TBool, z3.Implies(a, b))
        if name == "iff":
            a = run.truth(run.ev(node.args[0], fr))
            b = run.truth(run.ev(node.args[1], fr))
            return Val(TBool, a == b)
        if name == "ite":
            c = run.truth(run.ev(node.args[0], fr))
            return ops.ite(run, c, run.ev(node.args[1], fr), run.ev(node.args[2], fr))
        if name == "old":
            o = run.old
            sh, sg = run.heap, run.globals
            of = Frame(fr.finfo)
            of.vars.update(o["vars"])
            # bound variables of enclosing quantifiers stay visible
            f = fr
            while f is not None:
                for k2, v2 in f.vars.items():
                    if k2.startswith("_q_"):
                        of.vars[k2[3:]] = v2
                f = f.parent
            run.heap, run.globals = dict(o["heap"]), dict(o["globals"])
            try:
                return run.ev(node.args[0], of)
            finally:
                run.heap, run.globals = sh, sg
        if name in ("forall", "exists"):
            lam = node.args[0]
            if not isinstance(lam, ast.Lambda):
                raise EngineError("forall/exists need a lambda")
            names = [a.arg for a in lam.args.args]
            rest = node.args[1:]
            qf = Frame(fr.finfo, parent=fr)
            bvs = []
            guards = []
            if len(rest) == 2 and len(names) == 1:
                lo = run.coerce(run.ev(rest[0], fr), TInt).t
                hi = run.coerce(run.ev(rest[1], fr), TInt).t
                bv = z3.FreshConst(z3.IntSort(), names[0])
                bvs.append(bv)
                guards.append(z3.And(lo <= bv, bv < hi))
                qf.vars[names[0]] = Val(TInt, bv)
                qf.vars["_q_" + names[0]] = Val(TInt, bv)
            else:
                tys = [run.ev(r, fr) for r in rest]
                if len(tys) != len(names):
                    raise EngineError("forall(lambda x..: body, Type..) needs one type per variable")
                for n, t in zip(names, tys):
                    ty = t.obj if isinstance(t, Conc) and isinstance(t.obj, Ty) else None
                    if ty is None:
                        raise EngineError("forall type must be a Ty")
                    bv = ty.fresh(n)
                    bvs.append(bv)
                    qf.vars[n] = Val(ty, bv)
                    qf.vars["_q_" + n] = Val(ty, bv)
            body = run.truth(run.ev(lam.body, qf))
            if name == "forall":
                return Val(TBool, z3.ForAll(bvs, z3.Implies(z3.And(*guards), body) if guards else body))
            return Val(TBool, z3.Exists(bvs, z3.And(*guards, body) if guards else body))
        raise EngineError(f"unknown spec helper {name}")

    # ------------------------------------------------------------------ loop frame analysis
    def loop_assigned(self, st, fr):
        names, fields, globs = set(), set(), set()
        direct = set()       # names that are themselves rebound (as opposed to objects mutated in place through them)
        seen = set()

        def field_keys(attr):
            return {f"{c}.{attr}" for c, fs in self.reg.classes.items() if attr in fs}

        def store_target(t, frame):
            if isinstance(t, ast.Name):
                names.add(t.id)
                direct.add(t.id)
                if frame is not None and t.id in frame.globals_decl:
                    globs.add(t.id)
            elif isinstance(t, (ast.Tuple, ast.List)):
                for e in t.elts:
                    store_target(e, frame)
            elif isinstance(t, ast.Attribute):
                fields.update(field_keys(t.attr))
            elif isinstance(t, ast.Subscript):
                mutated(t.value, frame)
            elif isinstance(t, ast.Starred):
                store_target(t.value, frame)

        def mutated(expr, frame):
            # the container denoted by expr is changed in place
            if isinstance(expr, ast.Name):
                names.add(expr.id)
                if expr.id in self.c.globals:
                    globs.add(expr.id)
            elif isinstance(expr, ast.Attribute):
                fields.update(field_keys(expr.attr))
            elif isinstance(expr, ast.Subscript):
                mutated(expr.value, frame)

        def walk(nodes, frame, own_locals=False):
            for n in nodes:
                for sub in ast.walk(n):
                    if isinstance(sub, (ast.Assign,)):
                        for t in sub.targets:
                            store_target(t, frame)
                    elif isinstance(sub, (ast.AugAssign, ast.AnnAssign)):
                        store_target(sub.target, frame)
                    elif isinstance(sub, (ast.For,)):
                        store_target(sub.target, frame)
                    elif isinstance(sub, ast.NamedExpr):
                        store_target(sub.target, frame)
                    elif isinstance(sub, ast.With):
                        for it in sub.items:
                            if it.optional_vars is not None:
                                store_target(it.optional_vars, frame)
                    elif isinstance(sub, ast.ExceptHandler) and sub.name:
                        names.add(sub.name)
                    elif isinstance(sub, ast.Delete):
                        for t in sub.targets:
                            store_target(t, frame)
                    elif isinstance(sub, ast.Call):
                        call(sub, frame)

        def call(cn, frame):
            f = cn.func
            src = ast.unparse(f)
            if src in self.c.calls:
                return      # replaced by the sidecar's call mapping: its effects are whatever that stub does explicitly
            if isinstance(f, ast.Attribute) and f.attr in MUTATORS:
                mutated(f.value, frame)
            target = None
            if isinstance(f, ast.Name):
                v = frame.lookup(f.id) if frame else None
                if isinstance(v, Conc) and isinstance(v.obj, Closure):
                    target = ("closure", v.obj)
                elif f.id in self.finfo.module.funcs:
                    target = ("func", self.finfo.module.funcs[f.id])
                elif f.id in self.finfo.module.imports:
                    imp = self.finfo.module.imports[f.id]
                    if imp[0] == "from" and imp[1] and is_repo_module(imp[1]):
                        m = load_module(imp[1])
                        if imp[2] in m.funcs:
                            target = ("func", m.funcs[imp[2]])
            elif isinstance(f, ast.Attribute):
                # method of a heap class: by name across declared classes
                for cname in self.reg.classes:
                    m = self.find_method(cname, f.attr)
                    if m is not None:
                        fn_effects(m)
            if target is None:
                return
            if target[0] == "closure":
                clo = target[1]
                if id(clo.node) in seen:
                    return
                seen.add(id(clo.node))
                if isinstance(clo.node, ast.Lambda):
                    return
                nl = set()
                for sub in ast.walk(clo.node):
                    if isinstance(sub, ast.Nonlocal):
                        nl.update(sub.names)
                before = set(names)
                walk(clo.node.body, clo.frame)
                # only nonlocal names of the closure leak out
                added = names - before
                for a in added:
                    if a not in nl:
                        names.discard(a)
            else:
                fn_effects(target[1])

        def fn_effects(finfo):
            if id(finfo.node) in seen:
                return
            seen.add(id(finfo.node))
            if finfo.fq in self.reg.stubs and finfo.fq not in self.reg.contracts:
                return      # replaced by an assumed stub: its effects are whatever the stub does
            c2 = self.reg.contracts.get(finfo.fq)
            if c2 is not None and finfo.fq not in self.c.inline:
                for m in c2.modifies:
                    (fields if "." in m else globs).add(m)
                return
            before = set(names)
            walk(finfo.node.body, None)
            for a in names - before:
                names.discard(a)
            for sub in ast.walk(finfo.node):
                if isinstance(sub, ast.Global):
                    globs.update(sub.names)

        body = list(st.body)
        if isinstance(st, ast.For):
            store_target(st.target, fr)
        walk(body, fr)
        if isinstance(st, ast.While):
            walk([st.test], fr)
        # names of the unit's declared globals that are mutated in place
        for n in list(names):
            if n in self.c.globals and fr.lookup(n) is None:
                globs.add(n)
        self.loop_rebound = direct
        return names, fields, globs

    # ------------------------------------------------------------------ running the unit
    def explore(self):
        for _round in range(4):
            before = set(self.maybe_foreign)
            obligations = self._explore_once()
            if self.maybe_foreign == before:
                return obligations
            # a loop body can make a variable alias a foreign object: explore again with that knowledge at the loop heads
            self.paths = 0
            self.trivial = 0
            self.trivial_names = {}
            self.exits = {"normal": 0, "raise": 0, "cut": 0}
        return obligations

    def warmup(self, want=32, max_runs=48):
        """Breadth-first exploration until `want` unexplored decision prefixes are queued (or everything is explored).
        Returns the obligations of the completed runs; self.pending holds the prefixes of the unexplored subtrees."""
        obligations = []
        self.pending = [[]]
        runs = 0
        while self.pending and len(self.pending) < want and runs < max_runs:
            prefix = self.pending.pop(0)
            runs += 1
            self.paths += 1
            run = Run(self, prefix)
            try:
                self.run_unit(run)
            except PathEnd:
                self.exits["cut"] += 1
            obligations.extend(run.obligations)
        return obligations

    def explore_subtree(self, prefix):
        obligations = []
        self.pending = [prefix]
        while self.pending:
            p = self.pending.pop()
            self.paths += 1
            if self.paths > self.max_paths:
                raise EngineError(f"{self.unit_name}: more than {self.max_paths} paths")
            run = Run(self, p)
            try:
                self.run_unit(run)
            except PathEnd:
                self.exits["cut"] += 1
            # obligations created before the end of the prefix belong to the run that queued this subtree
            obligations.extend(o for o in run.obligations if len(o.path) >= len(prefix))
        return obligations

    def _explore_once(self):
        obligations = []
        self.pending = [[]]
        while self.pending:
            prefix = self.pending.pop()
            self.paths += 1
            if self.paths > self.max_paths:
                raise EngineError(f"{self.unit_name}: more than {self.max_paths} paths")
            run = Run(self, prefix)
            try:
                self.run_unit(run)
            except PathEnd:
                self.exits["cut"] += 1
            obligations.extend(run.obligations)
        return obligations

    def setup_state(self, run):
        c, finfo = self.c, self.finfo
        run.specfun_stack = [c.specfuns]
        run.next_ref = z3.Int("next_ref0")
        run.assume(run.next_ref >= 1)
        for name, ty in c.globals.items():
            run.globals[name] = Val(ty, ty.const(f"g!{name}"))
            run.wf(run.globals[name])
        fr = Frame(finfo)
        ptypes = self.param_types(finfo, c)
        for name, ty in ptypes.items():
            v = Val(ty, ty.const(f"in!{name}"))
            # a list / dict / set argument is the CALLER's object (containers are modelled by value, so an in-place change
            # would otherwise stay invisible): mutating it is the obligation frame#foreign_object_mutated_through_<name>,
            # unless the contract names the parameter in `mutates`
            inner = ty.inner if isinstance(ty, TOpt) else ty
            if isinstance(inner, (TDict, TSet, TSeq)) and name not in getattr(c, "mutates", ()) and os.environ.get("PYVC_PARAMS_FOREIGN") == "1":
                v.foreign = True
                run.foreign_vars.setdefault(id(fr), set()).add(name)
            fr.vars[name] = v
            run.wf(v)
            if name == "self" and isinstance(ty, TRef):
                run.assume(v.t != 0)
        a = finfo.node.args
        if a.vararg is not None:
            ty = c.types.get(a.vararg.arg)
            if ty is None:
                raise EngineError(f"*{a.vararg.arg} needs a sidecar type")
            fr.vars[a.vararg.arg] = Val(ty, ty.const(f"in!{a.vararg.arg}"))
        if a.kwarg is not None:
            ty = c.types.get(a.kwarg.arg)
            if ty is None:
                raise EngineError(f"**{a.kwarg.arg} needs a sidecar type")
            fr.vars[a.kwarg.arg] = Val(ty, ty.const(f"in!{a.kwarg.arg}"))
        for name, ty in c.ghost.items():
            run.ghost[name] = Val(ty, ty.const(f"ghost!{name}"))
            run.wf(run.ghost[name])
        run.old = {"heap": {}, "globals": dict(run.globals), "vars": dict(fr.vars), "ghost": dict(run.ghost)}
        if c.entry is not None:
            c.entry(run, fr)
        run.old = {"heap": dict(run.heap), "globals": dict(run.globals), "vars": dict(fr.vars), "ghost": dict(run.ghost)}
        for req in c.requires:
            run.assume(run.spec_bool(req, fr))
        self.add_watch(run, fr, "pre")
        return fr

    def add_watch(self, run, fr, when):
        if self.c.watch is None:
            return
        from .interp import SpecCtx
        run.spec += 1
        try:
            for k, t in (self.c.watch(SpecCtx(run, fr), when) or {}).items():
                run.watch[f"{when}.{k}"] = t
        finally:
            run.spec -= 1

    def run_unit(self, run):
        c = self.c
        self.check_decorators(self.finfo)
        fr = self.setup_state(run)
        run.entry_frame = fr
        if not run.prefix:
            run.oblige("cover#pre", z3.BoolVal(True), kind="cover", expect_sat=True, note="precondition satisfiable")
        try:
            run.exec_block(self.finfo.node.body, fr)
            result = NONE
        except _Return as r:
            result = r.val
        except PyRaise as pr:
            self.exits["raise"] += 1
            self.exceptional_exit(run, fr, pr.exc)
            return
        except (_Break, _Continue):
            raise EngineError("break/continue escaped the function")
        self.exits["normal"] += 1
        self.normal_exit(run, fr, result)

    def post_frame(self, run, fr, result=None):
        pf = Frame(self.finfo)
        pf.vars.update(run.old["vars"])     # parameters denote their entry values in postconditions...
        for k, v in fr.vars.items():
            if k.startswith("_ghost_"):
                pf.vars[k] = v
        if result is not None:
            pf.vars["result"] = result
        return pf

    def normal_exit(self, run, fr, result):
        c = self.c
        if c.result is not None:
            result = run.coerce(result, c.result)
        pf = self.post_frame(run, fr, result)
        self.add_watch(run, pf, "post")
        run.oblige("cover#normal-exit", z3.BoolVal(True), kind="cover", expect_sat=True, note="a normal exit is reachable")
        if c.ghost_update is not None:
            from .interp import SpecCtx
            run.spec += 1
            try:
                c.ghost_update(SpecCtx(run, pf))
            finally:
                run.spec -= 1
        for lab, ens in c.ensures.items():
            run.oblige(f"post#{lab}", run.spec_bool(ens, pf), kind="post", note=ens if isinstance(ens, str) else lab, qf_only=getattr(ens, "_qf_only", False))
        self.frame_obligations(run)

    def exceptional_exit(self, run, fr, exc):
        c = self.c
        match = exc.tname if exc.tname in c.raises else None      # the most specific clause wins
        for cls in (c.raises if match is None else ()):
            r = exc_isinstance(exc.tname, cls)
            if r:
                match = cls
                break
        if match is None:
            run.oblige(f"raises-only#{exc.tname}", z3.BoolVal(False), kind="raises-only",
                       note=f"{exc.tname} escapes ({exc.site}) but the contract allows only {sorted(c.raises)}")
            return
        pf = self.post_frame(run, fr, None)
        pf.vars["raised"] = Conc(exc)
        for k, v in fr.vars.items():
            pf.vars.setdefault("loc_" + k, v)      # locals at the raise point (for prover hints only)
        if c.ghost_update is not None:
            from .interp import SpecCtx
            run.spec += 1
            try:
                c.ghost_update(SpecCtx(run, pf))
            finally:
                run.spec -= 1
        cond = c.raises[match]
        if cond is not None:
            run.oblige(f"xpre#{match}", run.spec_bool(cond, pf), kind="xpost", note=f"{match} raised only when: {cond if isinstance(cond, str) else ''} ({exc.site})")
        for lab, ens in c.xensures.get(match, {}).items():
            run.oblige(f"xpost#{match}#{lab}", run.spec_bool(ens, pf), kind="xpost", note=f"{exc.site}")
        self.frame_obligations(run)

    def frame_obligations(self, run):
        c = self.c
        mods = set(c.modifies)
        for key, arr in run.heap.items():
            if key in mods:
                continue
            cls, fld = key.split(".")
            init = self.initial_field(run, cls, fld)
            if arr.eq(init):
                continue
            # objects allocated during the call may be initialised freely
            r = z3.FreshConst(z3.IntSort(), "r")
            run.oblige(f"frame#{key}", z3.ForAll([r], z3.Implies(z3.And(r >= 0, r < z3.Int("next_ref0")), z3.Select(arr, r) == z3.Select(init, r))), kind="frame")
        for g, v in run.globals.items():
            if g in mods:
                continue
            o = run.old["globals"][g]
            if v.t.eq(o.t):
                continue
            run.oblige(f"frame#{g}", ops.eq_terms(run, v, o), kind="frame")


def _source_order(fnode):
    """All nodes of a function in source order (depth first, fields in order)."""
    out = []

    def rec(n):
        out.append(n)
        for ch in ast.iter_child_nodes(n):
            rec(ch)
    for st in fnode.body:
        rec(st)
    return out


def _memo_equal(run, w, v):
    """Python equality of two call arguments as functools.lru_cache sees it"""
    h = run.x.reg.stubs.get(("pyeq", v.ty.name))
    if h is not None:
        return h(run, w, v)          # a sidecar record that stands for a Python value with its own == (e.g. str vs SafeString inside)
    if v.ty is TAny:
        P = TAny.sort()
        strlike = lambda t: z3.Or(P.is_StrV(t), P.is_SafeV(t))
        text = lambda t: z3.If(P.is_StrV(t), P.s(t), P.ss(t))
        num = lambda t: z3.Or(P.is_IntV(t), P.is_BoolV(t))
        numv = lambda t: z3.If(P.is_IntV(t), P.i(t), z3.If(P.b(t), 1, 0))
        return z3.Or(w.t == v.t, z3.And(strlike(w.t), strlike(v.t), text(w.t) == text(v.t)), z3.And(num(w.t), num(v.t), numv(w.t) == numv(v.t)))
    return run.truth(Val(TBool, ops.eq_terms(run, w, v)))


def _tyname(v):
    if isinstance(v, Val):
        return v.ty.name
    if isinstance(v, VTuple):
        return "tuple"
    if isinstance(v, Conc):
        o = v.obj
        if isinstance(o, tuple):
            return f"conc:{o[0]}" + (f":{o[1]}" if o[0] in ("obj_kind",) else "")
        return f"conc:{type(o).__name__}"
    return "?"
