"""Contract language (sidecar data; nothing in /repo is edited).

A spec clause is either a string holding a Python expression over parameters, `result`, `old(e)`,
ghost names and the helper vocabulary (forall / exists / implies / ...), or a python callable taking
a SpecCtx and returning a z3 Bool (for invariants over the heap that are easier to write directly).
"""
from .interp import Loop  # noqa: F401  (re-export)
from .types import Opt, TAny, TBool, TDict, TInt, TNone, TObj, TOpt, TRef, TSeq, TSet, TStr, TTup  # noqa: F401

Int, Str, Bool, NoneT, Any_ = TInt, TStr, TBool, TNone, TAny


def Seq(t):
    return TSeq(t)


def Dict(k, v, ordered=False):
    return TDict(k, v, ordered)


def Set(k):
    return TSet(k)


def Ref(cls):
    return TRef(cls)


def Obj(tag="Obj"):
    return TObj(tag)


def Tup(*items, tag=None, fields=None):
    return TTup(items, tag=tag, fields=fields)


def qf(spec):
    """Mark a clause as provable from the quantifier-free hypotheses alone (string identities etc.): quantified
    hypotheses are DROPPED for its obligations (sound: fewer hypotheses), which keeps the query small."""
    if callable(spec):
        def f(c):
            return spec(c)
        f._qf_only = True
        f.__name__ = getattr(spec, "__name__", "clause")
        return f
    raise TypeError("qf() wraps callable clauses")


class Contract:
    def __init__(self, fq, *, prop, types=None, result=None, requires=(), ensures=None, raises=None,
                 modifies=(), loops=None, locals=None, calls=None, globals=None, classes=None, ghost=None,
                 covers=None, inline=(), verify=True, trusted=False, note="", self_type=None, xensures=None,
                 lemmas=(), findings=None, entry=None, pure=False, havoc_result=True, specfuns=None, ghost_update=None, ghost_havoc=None, watch=None, optional=False, yield_hook=None, parallel=False, reveal=(), call_entry=None, mutates=()):
        self.fq = fq
        self.prop = prop
        self.types = dict(types or {})
        self.result = result
        self.requires = list(requires)
        self.ensures = dict(ensures or {})
        # raises: exception class name -> spec of the condition (in the PRE state) under which it MAY be raised,
        #         or None for "may be raised, no condition".  An exception outside this map escaping the function is
        #         a failed `raises-only` obligation.
        self.raises = dict(raises or {})
        # xensures: class name -> {label: spec over the post state at the raise}
        self.xensures = dict(xensures or {})
        self.modifies = list(modifies)
        self.loops = dict(loops or {})
        self.locals = dict(locals or {})
        self.calls = dict(calls or {})
        self.globals = dict(globals or {})
        self.classes = dict(classes or {})
        self.ghost = dict(ghost or {})
        self.covers = dict(covers or {})
        self.inline = set(inline)
        self.verify = verify       # False: contract is only assumed at call sites (a trusted stub on repo code)
        self.trusted = trusted
        self.note = note
        self.self_type = self_type
        self.lemmas = list(lemmas)
        self.findings = dict(findings or {})   # obligation base name -> region spec (known finding)
        self.entry = entry          # optional callable(run, frame): extra setup (assumptions / ghost)
        self.pure = pure
        self.havoc_result = havoc_result
        self.specfuns = dict(specfuns or {})
        # ghost transition: callable(SpecCtx) run once on normal exit before the ensures are evaluated (unit) / assumed (call site)
        self.ghost_update = ghost_update
        # used at call sites when there is no definitional ghost_update: introduces fresh ghost values
        self.ghost_havoc = ghost_havoc
        # watch: callable(SpecCtx, when) -> {name: z3 term}; evaluated in counter-models (for replay builders / diagnosis)
        self.watch = watch
        # optional: contract of an internal helper.  If the helper no longer fits the contract (engine error while reading
        # it), the contract is dropped and callers are verified with the helper's real body inlined.
        self.optional = optional
        self.yield_hook = yield_hook
        self.parallel = parallel     # many paths: explore decision subtrees in forked workers
        self.call_entry = call_entry   # hook(run, callee_frame) run at call sites before the ensures are assumed (ghost set-up)
        self.mutates = set(mutates)  # container parameters the function is MEANT to change in place (all others are the caller's objects: frame obligation)
        self.reveal = set(reveal)    # opaque predicates whose definition this unit's own proof may use (SpecCtx.opaque)


class Registry:
    def __init__(self):
        self.contracts = {}
        self.stubs = {}
        self.classes = {}
        self.lemmas = []
        self.syntactic = []
        self.replays = {}
        self.records = {}
        self.value_records = set()
        self.bounded = []

    def contract(self, fq, **kw):
        c = Contract(fq, **kw)
        self.contracts[fq] = c
        for cname, fields in c.classes.items():
            self.classes.setdefault(cname, {}).update(fields)
        return c

    def heap_class(self, name, fields, module=None):
        self.classes.setdefault(name, {}).update(fields)
        if module:
            self.classes[name]["__module__"] = module

    def record(self, clsname, ty):
        """A NamedTuple / frozen dataclass of the repo represented by value as the SMT datatype `ty`."""
        self.records[clsname] = ty

    def value_record(self, ty):
        """A mutable class of a dependency represented BY VALUE (fields assigned through a local variable update that
        variable).  Only sound where the object is not observed through another alias after the mutation."""
        self.value_records.add(ty.name)

    def inline(self, fq):
        """Small helper of the repo that is symbolically inlined at call sites instead of having a contract."""
        self.stubs.setdefault("__inline_ok__", set()).add(fq)

    def stub(self, dotted, fn):
        """fn(run, args, kwargs, node) -> value.  An ASSUMED contract on a dependency."""
        self.stubs[dotted] = fn

    def lemma(self, name, prop, build, note=""):
        """A standalone obligation: build() -> (assumptions, goal)."""
        self.lemmas.append((name, prop, build, note))

    def syntactic_check(self, name, prop, fn, note=""):
        """fn() -> (ok: bool, detail: str).  Decided by AST comparison / scan, reported as backend 'syntactic'."""
        self.syntactic.append((name, prop, fn, note))

    def bounded_check(self, name, prop, fn, note=""):
        """A BOUNDED stand-in (exhaustive enumeration of a stated finite space on the real function).  fn(tier, repo) ->
        {space, evaluations, failures: [...], samples, ...}.  Reported under coverage.bounded, never counted as discharged."""
        self.bounded.append((name, prop, fn, note))

    def replay(self, unit_fq):
        def deco(fn):
            self.replays[unit_fq] = fn
            return fn
        return deco


REG = Registry()
