#!/usr/bin/env python3
"""Confirm a seeded change independently: demo passes on pristine HEAD, fails with the patch, existing suite still passes.
usage: confirm_seed.py <Cxx> <k> [<out_dir>]   (uses a scratch worktree under /tmp, removed afterwards)"""
import json, os, shutil, subprocess, sys
pid, k = sys.argv[1], sys.argv[2]
rnd = os.environ.get("SEED_ROUND", "")          # later rounds of independent seeds use /tmp/seed/out<round>-<id>, wt<round>-<id>
out = sys.argv[3] if len(sys.argv) > 3 else f"/tmp/seed/out{rnd}-{pid}"
dest_k = os.environ.get("SEED_DEST_K", k)        # number under which the seed is stored in /verif/seeded
wt = f"/tmp/seed/confirm-{pid}-{k}"
def sh(cmd, **kw):
    return subprocess.run(cmd, shell=True, capture_output=True, text=True, **kw)
sh(f"git -C /repo worktree remove --force {wt}")
r = sh(f"git -C /repo worktree add --detach {wt} HEAD -q"); assert r.returncode == 0, r.stderr
try:
    env = f"cd {wt} && PYTHONPATH={wt}/src:{wt}"
    demo = open(f"{out}/demo{k}.py").read()
    # demos were written against the agent's worktree path; run them against ours
    agent_wt = f"/tmp/seed/wt{rnd}-{pid}"
    demo_path = f"{wt}/_demo.py"
    open(demo_path, "w").write(demo.replace(agent_wt, wt))
    r0 = sh(f"{env} timeout 300 /venv/bin/python {demo_path}")
    a = sh(f"git -C {wt} apply {out}/patch{k}.diff")
    if a.returncode != 0:
        a = sh(f"git -C {wt} apply --3way {out}/patch{k}.diff")
    assert a.returncode == 0, "patch does not apply: " + a.stderr
    r1 = sh(f"{env} timeout 300 /venv/bin/python {demo_path}")
    t = sh(f"{env} timeout 900 /venv/bin/python -m pytest -q -p no:cacheprovider --timeout=900 --continue-on-collection-errors --deselect tests/test_dependency_manager.py --deselect tests/test_dependency_rendering_e2e.py 2>&1 | tail -3")
    ok = r0.returncode == 0 and r1.returncode != 0 and "514 passed" in t.stdout and "failed" not in t.stdout
    print(f"{pid}-{k}: pristine demo rc={r0.returncode}, patched demo rc={r1.returncode}, tests: {t.stdout.strip().splitlines()[-1] if t.stdout.strip() else t.stderr[-200:]} => {'CONFIRMED' if ok else 'REJECTED'}")
    if ok:
        dst = f"/verif/seeded/{pid}-{dest_k}"
        os.makedirs(dst, exist_ok=True)
        shutil.copy(f"{out}/patch{k}.diff", f"{dst}/patch.diff")
        open(f"{dst}/demo.py", "w").write(demo)
        meta = json.load(open(f"{out}/meta{k}.json"))
        meta.update({"property": pid, "confirmed_by": "tools/confirm_seed.py: demo rc 0 on pristine HEAD, rc!=0 with patch, 514 passed with patch",
                     "base_commit": sh("git -C /repo rev-parse --short HEAD").stdout.strip(),
                     "demo_cmd": f"cd <worktree> && PYTHONPATH=<worktree>/src:<worktree> /venv/bin/python demo.py (replace {agent_wt} by the worktree path)",
                     "patched_demo_output": (r1.stdout + r1.stderr)[-600:]})
        json.dump(meta, open(f"{dst}/meta.json", "w"), indent=1)
    else:
        print("pristine out:", (r0.stdout + r0.stderr)[-400:]); print("patched out:", (r1.stdout + r1.stderr)[-400:])
finally:
    sh(f"git -C /repo worktree remove --force {wt}")
