#!/usr/bin/env python3
"""tools/status_table.py [--write]: the per-property status table of DESIGN.md section 9.1, generated from the evidence files
(whatever the last run of each check wrote) and known_findings.json."""
import json
import os
import sys

ROOT = os.path.dirname(os.path.dirname(os.path.abspath(__file__)))
kf = json.load(open(f"{ROOT}/known_findings.json"))
rows = ["| id | functions under contract (real source, re-read every run) | obligations discharged | bounded stand-ins (never counted as proved) | quick | known findings |",
        "|----|------------------------------------------------------------|-----------------------:|--------------------------------------------|------:|----------------|"]
for pid in [f"C{n:02d}" for n in range(1, 21)]:
    p = f"{ROOT}/evidence/{pid}.json"
    if not os.path.exists(p):
        rows.append(f"| {pid} | — (not applicable, see §4) | | | | |")
        continue
    d = json.load(open(p))
    c = d["coverage"]
    fns = ", ".join("`" + f["function"].split(":")[-1] + "`" for f in c.get("functions_under_contract", []))
    syn = [s["name"] for s in c.get("syntactic", [])]
    if syn:
        fns += ("; " if fns else "") + "syntactic: " + ", ".join(s.split("#")[-1] for s in syn)
    bnd = "; ".join(f"{b['name'].split('#')[-1]} ({b.get('evaluations', '?')} evaluations)" for b in c.get("bounded", []))
    finds = ", ".join(f["id"] for f in kf["findings"] if f["property"] == pid)
    rows.append(f"| {pid} | {fns} | {c.get('discharged')}/{c.get('obligations')} | {bnd or '—'} | {d['wall_s']:.0f} s | {finds or '—'} |")
text = "\n".join(rows)
if "--write" in sys.argv:
    p = f"{ROOT}/DESIGN.md"
    s = open(p).read()
    a, b = "<!-- STATUS-TABLE-BEGIN -->", "<!-- STATUS-TABLE-END -->"
    s = s[:s.index(a)] + f"{a}\n{text}\n" + s[s.index(b):]
    open(p, "w").write(s)
else:
    print(text)
