#!/usr/bin/env python3
"""tools/seed_table.py: markdown table of seeded/results.json (+ one-line summary of each seed), and - with --write -
replaces the table between the SEED-TABLE markers in DESIGN.md."""
import json
import os
import sys

ROOT = os.path.dirname(os.path.dirname(os.path.abspath(__file__)))
res = json.load(open(f"{ROOT}/seeded/results.json"))
first = {}
for _f in ("results_round3_first_run.json", "results_round4_first_run.json"):
    if os.path.exists(f"{ROOT}/seeded/{_f}"):
        first.update(json.load(open(f"{ROOT}/seeded/{_f}")))
rows = []
caught = 0
first_counts = {}
for seed in sorted(res):
    meta = json.load(open(f"{ROOT}/seeded/{seed}/meta.json"))
    files = ", ".join(os.path.basename(f) for f in (meta.get("files_touched") or meta.get("files") or []))[:40]
    best = None
    for prop, r in res[seed].items():
        if best is None or r.get("exit") == 1:
            best = (prop, r)
            if r.get("exit") == 1:
                break
    prop, r = best
    if r.get("exit") == 1:
        caught += 1
    obs = sorted(r.get("obligations", []), key=lambda o: (o.startswith(("bounded/", "syntactic/")), o))
    obl = "; ".join(o.split(":", 1)[-1] for o in obs[:2])
    how = r["outcome"] + (" (replayed on the real code)" if r.get("replayed_on_real_code") else (" (`no-failing-input-found`)" if r.get("exit") == 1 else ""))
    fr = ""
    if seed in first:
        f0 = first[seed].get(seed.split("-")[0]) or next(iter(first[seed].values()))
        fr = {0: "missed", 1: "CAUGHT", 2: "exit 2", 3: "exit 3"}.get(f0.get("exit"), str(f0.get("exit")))
        first_counts[fr] = first_counts.get(fr, 0) + 1
    rows.append(f"| {seed} | {files} | {prop} | {fr or '-'} | {how} | {obl[:110]} |")
table = ["| seed | touches | check | first run (fresh seeds only) | outcome now | failed obligation(s) |", "|------|---------|-------|------|---------|----------------------|"] + rows
table.append("")
table.append(f"Caught now (VIOLATION, exit 1): **{caught} of {len(res)}**.  First run of the {sum(first_counts.values())} fresh seeds (`-3`, `-4`), before any check was touched: "
             + ", ".join(f"{v} {k}" for k, v in sorted(first_counts.items())) + ".")
text = "\n".join(table)
if "--write" in sys.argv:
    p = f"{ROOT}/DESIGN.md"
    s = open(p).read()
    a, b = "<!-- SEED-TABLE-BEGIN -->", "<!-- SEED-TABLE-END -->"
    if "SEED_TABLE_PLACEHOLDER" in s:
        s = s.replace("SEED_TABLE_PLACEHOLDER", f"{a}\n{text}\n{b}")
    else:
        s = s[:s.index(a)] + f"{a}\n{text}\n" + s[s.index(b):]
    open(p, "w").write(s)
else:
    print(text)
