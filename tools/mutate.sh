#!/bin/sh
# tools/mutate.sh <Cxx> <units-filter|-> <file-relative-to-repo> <python-expr old> <python-expr new>
# development aid: apply a textual mutation to a scratch worktree of /repo (removed afterwards) and run one check on it
P="$1"; U="$2"; F="$3"; OLD="$4"; NEW="$5"
WT="/tmp/djc-mut-$$"
git -C /repo worktree add --detach "$WT" HEAD -q || exit 3
trap 'git -C /repo worktree remove --force "$WT"; [ -f /verif/evidence/.keepm-$P.json ] && mv /verif/evidence/.keepm-$P.json /verif/evidence/$P.json' EXIT
[ -f /verif/evidence/$P.json ] && cp /verif/evidence/$P.json /verif/evidence/.keepm-$P.json
python3 - "$WT/$F" "$OLD" "$NEW" <<'PY' || exit 3
import sys
p, old, new = sys.argv[1:4]
s = open(p).read()
assert s.count(old) == 1, f"pattern occurs {s.count(old)} times"
open(p, "w").write(s.replace(old, new))
PY
cd /verif
if [ "$U" = "-" ]; then VERIF_REPO="$WT" ./check "$P" 2>&1 | grep -v KNOWN-FINDING | tail -${TAIL:-4}; else PYVC_UNITS="$U" VERIF_REPO="$WT" ./check "$P" 2>&1 | grep -v KNOWN-FINDING | tail -${TAIL:-4}; fi
