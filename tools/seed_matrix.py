#!/usr/bin/env python3
"""tools/seed_matrix.py [seed ...]: run every seeded change under /verif/seeded against the check(s) of its property in a
scratch worktree of /repo HEAD (removed afterwards) and record what the check said in seeded/results.json.
A seed counts as CAUGHT only when the check prints a VIOLATION line (exit 1); exit 2 / 3 are recorded as such."""
import json
import os
import re
import subprocess
import sys
import time

ROOT = os.path.dirname(os.path.dirname(os.path.abspath(__file__)))
EXTRA = {"C10-1": ["C09"], "C05-1": ["C03"], "C06-1": ["C05"]}      # also try the check that owns the touched unit


def run(seed, prop):
    wt = f"/tmp/djc-verif-matrix-{os.getpid()}"
    subprocess.run(["git", "-C", "/repo", "worktree", "add", "--detach", wt, "HEAD", "-q"], check=True)
    try:
        r = subprocess.run(["git", "-C", wt, "apply", f"{ROOT}/seeded/{seed}/patch.diff"], capture_output=True, text=True)
        if r.returncode != 0:
            return {"outcome": "patch does not apply", "detail": r.stderr[-200:]}
        keep = None
        ev = f"{ROOT}/evidence/{prop}.json"
        if os.path.exists(ev):
            keep = open(ev).read()
        t0 = time.time()
        p = subprocess.run([f"{ROOT}/check", prop, "--tier", "quick"], capture_output=True, text=True, env=dict(os.environ, VERIF_REPO=wt), cwd=ROOT)
        dt = time.time() - t0
        if keep is not None:
            open(ev, "w").write(keep)
        viol = [l for l in p.stdout.splitlines() if l.startswith("VIOLATION")]
        obl = sorted({re.search(r"obligation=(\S+)", l).group(1) for l in viol if "obligation=" in l})
        replayed = any(not l.rstrip().endswith("no-failing-input-found") for l in viol)
        last = (p.stdout.strip().splitlines() or [""])[-1][:200]
        outcome = {0: "missed (check held)", 1: "CAUGHT", 2: "undecided (exit 2)", 3: "checker failure (exit 3)"}.get(p.returncode, f"exit {p.returncode}")
        return {"outcome": outcome, "exit": p.returncode, "obligations": obl[:6], "replayed_on_real_code": replayed, "seconds": round(dt, 1), "last_line": last}
    finally:
        subprocess.run(["git", "-C", "/repo", "worktree", "remove", "--force", wt])


def main():
    seeds = sys.argv[1:] or sorted(d for d in os.listdir(f"{ROOT}/seeded") if os.path.isdir(f"{ROOT}/seeded/{d}"))
    path = os.environ.get("SEED_RESULTS", f"{ROOT}/seeded/results.json")    # (first runs of fresh seeds are also kept in results_round3_first_run.json)
    for s in seeds:
        prop = s.split("-")[0]
        out = {}
        for p in [prop] + EXTRA.get(s, []):
            out[p] = run(s, p)
            print(s, p, out[p]["outcome"], out[p].get("obligations", [])[:2], flush=True)
        res = json.load(open(path)) if os.path.exists(path) else {}          # re-read: several matrix runs may be in flight
        res[s] = out
        json.dump(res, open(path, "w"), indent=1, sort_keys=True)


if __name__ == "__main__":
    main()
