#!/usr/bin/env python3
"""Regenerates MANIFEST.json from the table below (keeps it schema-valid)."""
import json, os, sys
HERE = os.path.dirname(os.path.dirname(os.path.abspath(__file__)))
ids = [json.loads(l)["id"] for l in open(os.path.join(HERE, "properties.jsonl"))]
sys.path.insert(0, HERE)
from tools.claims import CLAIMS, NOT_APPLICABLE  # noqa

checks = []
for pid in ids:
    if pid not in CLAIMS:
        continue
    c = CLAIMS[pid]
    checks.append({
        "property_id": pid,
        "quick_cmd": f"./check {pid} --tier quick",
        "thorough_cmd": f"./check {pid} --tier thorough",
        "evidence_file": f"evidence/{pid}.json",
        "replay_cmd_template": f"./check {pid} --replay {{path}}",
        "engine": "pyvc",
        "level_claimed": {"category": c.get("category", "proof"), "text": c["text"], "design_ref": c.get("design_ref", f"DESIGN.md section 3 {pid}")},
        "level_note": c["note"],
        "technique": c.get("technique", "contract-based deductive verification: VCs generated from the real source by symbolic execution against sidecar contracts, discharged by z3 / cvc5"),
    })
na = [{"property_id": p, "reason": NOT_APPLICABLE[p]} for p in ids if p not in CLAIMS]
m = {
    "version": 1,
    "setup_cmd": "./setup.sh",
    "hooks": {"guard": "DJC_VERIF", "enable": "none needed: contracts are sidecar files under /verif/contracts; the real source is re-parsed from /repo on every run; replays import /repo/src directly",
              "baseline_off_cmd": "cd /repo && /venv/bin/python -m pytest -ra -q -p no:cacheprovider --timeout=900 --continue-on-collection-errors",
              "source_commits": [], "add_only": True},
    "engines": [{"name": "pyvc", "path": "pyvc/", "serves_properties": [c["property_id"] for c in checks],
                 "kind_free_text": "own deductive verifier for a Python subset: ast extraction of the real functions on every run, sidecar contracts (pre/post/raises/frames/loop invariants/ghost), path-splitting symbolic execution generating one SMT query per (path, obligation), quantifier instantiation, z3 -> cvc5 portfolio, replay of counter-models on the real code"}],
    "checks": checks,
    "notes": "Exit codes of ./check: 0 held, 1 VIOLATION, 2 undecided (solver unknown), 3 checker failure. Repairs of genuine defects are 'fix:' commits in /repo, listed in known_findings.json.",
    "not_applicable": na,
}
json.dump(m, open(os.path.join(HERE, "MANIFEST.json"), "w"), indent=1)
try:
    import jsonschema
    jsonschema.validate(m, json.load(open("/root/.vp/MANIFEST.schema.json")))
    print("MANIFEST.json valid;", len(checks), "checks,", len(na), "not_applicable")
except ImportError:
    print("written (jsonschema not available to validate)")
