#!/bin/sh
# tools/try_seed.sh <seed-dir-name> [<Cxx>]  : run a check against a scratch worktree of /repo HEAD with the seeded patch applied
# (the worktree lives under /tmp and is removed afterwards; evidence of the real tree is preserved).
S="$1"; P="${2:-$(echo "$S" | cut -d- -f1)}"
WT="/tmp/djc-verif-seed-$$"
cd /verif
git -C /repo worktree add --detach "$WT" HEAD -q || exit 3
trap 'git -C /repo worktree remove --force "$WT"; [ -f /verif/evidence/.keep-$P.json ] && mv /verif/evidence/.keep-$P.json /verif/evidence/$P.json' EXIT
[ -f evidence/$P.json ] && cp evidence/$P.json evidence/.keep-$P.json
if [ -f "seeded/$S/patch.diff" ]; then git -C "$WT" apply "/verif/seeded/$S/patch.diff" || { echo "patch does not apply"; exit 3; }; else (cd "$WT" && patch -p1 -s < "$S") || exit 3; fi
VERIF_REPO="$WT" ./check "$P" --tier quick 2>&1 | tail -${TAIL:-6}
echo "exit=$?"
