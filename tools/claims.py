"""What MANIFEST.json claims per property (edited by hand as checks are built)."""
NOT_BUILT = "check not built yet in this round (DESIGN.md section 8 gives the build order)"
CLAIMS = {
    "C08": {
        "text": "Proof (all inputs, unbounded) of the insertion function _insert_js_css_to_default_locations against a postcondition taken from the property (CSS immediately before the first </head>, JS immediately before the last </body>, every other byte preserved, None when nothing to insert, ValueError branch dead), with loop invariant over recursive spec functions and the end-tag language fact proved from the real regex.",
        "note": "Trusted: scanning discipline of re.finditer (A-RE), pyvc encoding (A-PY), quantifier instantiation only weakens hypotheses. Not yet under contract: render_dependencies' marker stripping and the middleware guard (listed in evidence as not covered).",
    },
}
CLAIMS["C18"] = {
    "text": "Proof (all states, all keys, unbounded) that every LRUCache method (__init__/get/has/set/clear/_remove/_add_to_front) preserves the list+dict representation invariant (doubly linked list with sentinels = ghost order, dict <-> interior nodes, size bound) and implements the abstract LRU semantics: hit moves to front and returns the stored value, miss returns None and changes nothing, set stores in front, evicts exactly the last interior node when full, maxsize<=0 is a no-op, all other entries keep their relative order.",
    "note": "Trusted: pyvc heap encoding (Burstall arrays, allocation freshness), quantifier instantiation. Callers are checked against the method contracts, not their bodies. cached_template's key function is not yet under contract.",
}
CLAIMS["C15"] = {
    "text": "Proof (all registry states, names, classes; unbounded) that register / unregister / get / all / clear refine a dictionary (exact AlreadyRegistered / NotRegistered conditions, same-class re-registration is a dictionary no-op, state unchanged on every exceptional exit incl. TagProtectedError / ValueError from the formatter), preserve the representation invariant tying _registry, _tags and Library.tags together, remove the tag from the library exactly when no other registered name uses it, and never assign or delete a protected tag.",
    "note": "Trusted: django Library.tag stub (stores into Library.tags), tag formatter = deterministic function of (registry, name) that may raise ValueError, A-LIB, private Library precondition, pyvc encoding. Sets/dicts are by-value with exact cardinality.",
}
CLAIMS["C05"] = {
    "text": "Proof (all registry states, contexts, ids; unbounded) that register_provide_reference / unregister_provide_reference / managed_provide_cache preserve the global invariant of the three provide registries with a ghost set of Active providers (an Active or referenced provider's data is always in provide_cache - 'however many siblings share the provider'), with exact set/map postconditions (registered under every visible inject key; removed everywhere; provider data deleted exactly when unreferenced, never while Active), on normal and exceptional exit of the provider body.",
    "note": "Trusted: Django Context stub (layers, top-most lookup, flatten), A-ID (component ids are not provider ids), the with-body is modelled as arbitrary GInv-preserving steps that may raise anything. Composition to the property statement (layer stack mirrors lexical nesting; registration precedes get_context_data) is argued in DESIGN.md, not machine-checked. get/set_provided_context_var and ProvideNode.render not yet under contract.",
}
CLAIMS["C17"] = {
    "text": "Proof (all paths, all allowed/forbidden lists of suffix strings and opaque compiled patterns; unbounded) that _is_path_valid returns exactly (exists allowed entry hitting the path) and not (exists forbidden entry hitting it), where a str entry hits iff the path ends with it; that the regex built for a suffix denotes exactly that suffix (call-site obligation on re.compile); that find_location returns only existing, valid paths below the root (safe_join contract); and, as a ground lemma over the default lists read from app_settings.py, that no path ending in .py/.pyc/.html/.django/.dj/.tpl is exposed.",
    "note": "Trusted: re.escape / re.compile / Pattern.search stub (meaning known only for re.escape(lit)+'$' or +r'\\Z'), safe_join / os.path stubs, user-supplied compiled patterns are opaque. list()/find() loops over locations are not under contract.",
}
CLAIMS["C13"] = {
    "text": "Proof (all argument lists / attribute dicts over None, bool, int, str, SafeString values; unbounded) that append_attributes maps each key to its values joined by one space in order of appearance, that attributes_to_string emits exactly esc(name) for True, nothing for None/False and esc(name)=\"esc(value)\" otherwise, space-joined in order, that a rendered non-safe value contains no double quote, and that wrap_component_js/css refuse exactly the contents that contain their own end tag in any letter case and otherwise wrap verbatim. Two genuine defects are recorded as known findings with a region (TypeError when a non-str value is appended to an existing key; attribute names with separators), the clauses are proved outside those regions.",
    "note": "Trusted: conditional_escape / format_html / mark_safe stubs (esc axioms A-DJ), str.lower axiom instance. HtmlAttrsNode.render's merge and _normalize_slot_fills (escape exactly once) are not yet under contract.",
}
NOT_APPLICABLE = {p: NOT_BUILT for p in ["C01","C02","C03","C04","C06","C09","C10","C11","C12","C14","C16","C19","C20"]}
NOT_APPLICABLE["C07"] = "contracts over sequential calls cannot quantify over thread interleavings; the library holds no locks, so a rely/guarantee encoding would fail every stability obligation and decide nothing (DESIGN.md section 4); exploring schedules is a different technique and is not substituted"
