#!/bin/sh
# tools/run_all.sh [log]: every check's quick command, one after the other, one summary line each
cd "$(dirname "$0")/.."
LOG="${1:-tmp/all.log}"; : > "$LOG"
for p in C01 C02 C03 C04 C05 C06 C08 C09 C10 C11 C12 C13 C14 C15 C16 C17 C18 C19 C20; do
  t0=$(date +%s); out=$(./check $p --tier quick 2>&1); rc=$?; t1=$(date +%s)
  v=$(echo "$out" | grep -c '^VIOLATION'); k=$(echo "$out" | grep -c '^KNOWN-FINDING')
  echo "$p exit=$rc $((t1-t0))s $v violations $k known | $(echo "$out" | tail -1 | cut -c1-220)" >> "$LOG"
  [ $rc -ne 0 ] && echo "$out" | grep -v KNOWN-FINDING | tail -8 >> "$LOG"
done
echo FINISHED >> "$LOG"
