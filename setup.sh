#!/bin/sh
# Build the overlay interpreter (python 3.12 of /venv + z3-solver + cvc5 + jsonschema from the
# offline wheelhouse + /venv's site-packages through a .pth).  Offline, idempotent, ~5 s.
set -e
cd "$(dirname "$0")"
if [ ! -x .venv/bin/python ] || ! .venv/bin/python -c "import z3, jsonschema, django" 2>/dev/null; then
  rm -rf .venv
  /venv/bin/python -m venv .venv
  PIP_NO_INDEX=1 .venv/bin/pip install -q --no-index --find-links /opt/veriftools/wheels z3-solver cvc5 jsonschema
  echo "import site; site.addsitedir('/venv/lib/python3.12/site-packages')" > .venv/lib/python3.12/site-packages/_repo_deps.pth
fi
.venv/bin/python -c "import z3, cvc5, jsonschema, django, django_components; print('setup ok: z3', z3.get_version_string(), 'django', django.get_version())"
