"""Bounded stand-in for the whole-render statement of C05 (ProvideNode.render, Component.inject, _render_impl are not under
contract) - never counted as proved.  Pages nest {% provide "k" v=... %} blocks, consumers ({{ injected value }}) and a wrapper
component (consumer in its template / in its fill / provide inside its fill) to depth 3, with sibling consumers; every page is
rendered for real in both context modes and compared with the property: inject("k") returns the data of the NEAREST enclosing
provide for that key (lexically enclosing for fill content, dynamically enclosing for a component's own template), a consumer
outside every provide raises KeyError, and after a render that SUCCEEDED the three provide registries are empty (what a failed render leaves behind is C06's stand-in)."""
import itertools
import os
import sys

# AST: ("prov", key, value, [nodes]) | ("use", key)  consumer component | ("wrap", [nodes])  wrapper whose template also consumes 'k'


def src(nodes):
    out = []
    for n in nodes:
        if n[0] == "prov":
            # two fields; their ORDER in the tag alternates with the value (the payload must bind each value to its own name)
            kw = ("v='" + n[2] + "' w='W" + n[2] + "'") if n[2].endswith("1") else ("w='W" + n[2] + "' v='" + n[2] + "'")
            out.append("{% provide '" + n[1] + "' " + kw + " %}" + src(n[3]) + "{% endprovide %}")
        elif n[0] == "use":
            out.append("{% component 'use_" + n[1] + "' / %}")
        elif n[0] == "wrap":
            out.append("{% component 'wrap' %}" + src(n[1]) + "{% endcomponent %}")
    return "".join(out)


class Missing(Exception):
    pass


def interp(nodes, env):
    out = []
    for n in nodes:
        if n[0] == "prov":
            out.append(interp(n[3], dict(env, **{n[1]: n[2]})))
        elif n[0] == "use":
            if n[1] not in env:
                raise Missing(n[1])
            out.append("[" + n[1] + "=" + env[n[1]] + "/W" + env[n[1]] + "]")
        elif n[0] == "wrap":
            # the wrapper's own template shows the nearest `k` (or '-' when there is none: it injects with a default)
            out.append("<W " + env.get("k", "-") + ">" + interp(n[1], env) + "</W>")
    return "".join(out)


def pages(depth):
    def nodes(d):
        yield [("use", "k")]
        yield [("use", "k"), ("use", "k")]
        yield [("use", "j")]
        if d > 0:
            for sub in nodes(d - 1):
                yield [("prov", "k", f"K{d}", sub)]
                yield [("prov", "j", f"J{d}", sub)]
                yield [("wrap", sub)]
                yield [("prov", "k", f"K{d}", sub), ("use", "k")]
    yield from nodes(depth)


def worker(job):
    repo, mode, progs = job
    sys.path.insert(0, os.path.join(repo, "src"))
    sys.path.insert(1, repo)
    from tests.django_test_setup import setup_test_config
    setup_test_config({"autodiscover": False, "context_behavior": mode})
    import re
    from django.template import Context, Template
    from django_components import Component, registry
    import django_components.perfutil.provide as pv
    for key in ("k", "j"):
        def gcd(self, _key=key):
            got = self.inject(_key)
            return {"val": got.v + "/" + got.w}
        registry.register("use_" + key, type("Use" + key, (Component,), {"template": "[" + key + "={{ val }}]", "get_context_data": gcd}))

    NOTHING = object()

    class Wrap(Component):
        template = "{% load component_tags %}<W {{ val }}>{% slot 's' default / %}</W>"

        def get_context_data(self):
            got = self.inject("k", NOTHING)
            return {"val": got.v if got is not NOTHING else "-"}
    registry.register("wrap", Wrap)
    rx = [re.compile(r"<!--\s*_RENDERED[^>]*-->"), re.compile(r'\s+data-djc-[\w-]+(="[^"]*")?')]
    n, fails = 0, []
    for prog in progs:
        try:
            want = ("ok", interp(prog, {}))
        except Missing as e:
            want = ("KeyError", None)
        n += 1
        try:
            out = Template("{% load component_tags %}" + src(prog)).render(Context({}))
            for r in rx:
                out = r.sub("", out)
            got = ("ok", out)
        except KeyError:
            got = ("KeyError", None)
        except Exception as e:      # noqa: BLE001
            got = (type(e).__name__, str(e)[:100])
        left = {"provide_cache": sorted(pv.provide_cache), "provide_references": sorted(pv.provide_references), "all_reference_ids": sorted(pv.all_reference_ids)}
        rec = None
        if got != want:
            rec = {"input": {"mode": mode, "page": src(prog)}, "clause": "inject returns the nearest enclosing provide", "expected": want, "observed": got}
        elif got[0] == "ok" and any(left.values()):       # (what a FAILED render leaves behind is C06's stand-in)
            rec = {"input": {"mode": mode, "page": src(prog)}, "clause": "provide registries empty after the render", "expected": "all empty", "observed": left}
        if rec and len(fails) < 8:
            fails.append(rec)
        pv.provide_cache.clear(); pv.provide_references.clear(); pv.all_reference_ids.clear()
        import django_components.component as comp
        comp.component_context_cache.clear()
    return {"n": n, "fails": fails}


def run(repo, depth=2, procs=16):
    import multiprocessing as mp
    progs = list(pages(depth))
    jobs = []
    for mode in ("django", "isolated"):
        k = max(1, procs // 2)
        for s in range(k):
            jobs.append((repo, mode, progs[s::k]))
    ctx = mp.get_context("spawn")
    with ctx.Pool(procs) as pool:
        res = pool.map(worker, jobs)
    return {"space": f"all {len(progs)} pages nesting provide blocks for 2 keys, consumers (single and sibling pairs) and a wrapper component to depth {depth + 1} x 2 context modes",
            "evaluations": sum(r["n"] for r in res), "failures": [f for r in res for f in r["fails"]][:8], "exhaustive": True}


if __name__ == "__main__":
    import json
    print(json.dumps(run(sys.argv[1] if len(sys.argv) > 1 else "/repo", int(sys.argv[2]) if len(sys.argv) > 2 else 2), indent=1, default=str)[:6000])
