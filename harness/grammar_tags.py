"""Bounded stand-in for C02 (layout invariance, denotation of values) and C12 clause 3 (serialise / re-parse) - never
counted as proved.  Enumerates ALL value ASTs of the documented grammar up to a stated depth / width over a fixed atom set,
each in several whitespace / trailing-comma / quote renderings, and checks on the REAL parser and resolver:
  (a) every rendering of one AST parses to the identical structure (layout invariance);
  (b) the resolved Python value equals the value the AST denotes (Python/JSON-like semantics, stock Django for atoms);
  (c) serialising the parse and re-parsing it gives the same structure (canonical serialisation is a fixed point);
  (d) documented-invalid combinations raise TemplateSyntaxError.
"""
import itertools
import os
import sys

CTX = {"a": 1, "b": "x<y", "lst": [7, 8], "dct": {"k": "v", "n": 2}, "e": []}

# atom: (source text, python value)
ATOMS = [("a", 1), ("b", "x<y"), ("42", 42), ("'s t'", "s t"), ('"q"', "q"), ("_('tr')", "tr"), ("b|upper", "X<Y"), ("e|default:'z'", "z"),
         ("'v {{ a }}'", "v 1"), ('"%} x"', "%} x"),
         ("'it\\'s'", "it's"), ('"say \\"hi\\""', 'say "hi"')]
LIST_SPREADS = [("*lst", [7, 8]), ("*e", [])]
DICT_SPREADS = [("**dct", {"k": "v", "n": 2})]
KEYS = [('"k1"', "k1"), ("b", "x<y"), ("'k 2'", "k 2")]


def values(depth, width):
    """yield (ast) where ast = ('atom', src, val) | ('list', [items]) | ('dict', [entries]);  items may be ('spread', src, val)"""
    for src, val in ATOMS:
        yield ("atom", src, val)
    if depth == 0:
        return
    if depth > 1:
        sub = [v for v in values(depth - 1, width) if v[0] != "atom"]
        step = max(1, len(sub) // 10)
        inner = [("atom", s, v) for s, v in ATOMS[:4]] + sub[::step][:10]
    else:
        inner = [("atom", s, v) for s, v in ATOMS[:6]]
    items = inner[:10] + [("spread", s, v) for s, v in LIST_SPREADS]
    for n in range(0, width + 1):
        for combo in itertools.product(items, repeat=n):
            yield ("list", list(combo))
    entries = [("pair", k, v) for k in KEYS[:2] for v in inner[:8]] + [("dspread", s, v) for s, v in DICT_SPREADS]
    for n in range(0, width + 1):
        for combo in itertools.product(entries, repeat=n):
            yield ("dict", list(combo))


def denote(ast):
    kind = ast[0]
    if kind == "atom":
        return ast[2]
    if kind == "list":
        out = []
        for it in ast[1]:
            if it[0] == "spread":
                out.extend(it[2])
            else:
                out.append(denote(it))
        return out
    if kind == "dict":
        out = {}
        for en in ast[1]:
            if en[0] == "dspread":
                out.update(en[2])
            else:
                out[en[1][1]] = denote(en[2])
        return out
    raise ValueError(kind)


LAYOUTS = [("", "", False), (" ", " ", False), ("\n ", " ", True), ("", "\n", True)]


def render(ast, lay):
    ws, ws2, trailing = lay
    kind = ast[0]
    if kind == "atom":
        return ast[1]
    if kind == "list":
        parts = [it[1] if it[0] == "spread" else render(it, lay) for it in ast[1]]
        body = ("," + ws2).join(ws + p for p in parts)
        if parts and trailing:
            body += ws + ","
        return "[" + body + ws + "]"
    if kind == "dict":
        parts = []
        for en in ast[1]:
            if en[0] == "dspread":
                parts.append(en[1])
            else:
                parts.append(en[1][0] + ws + ":" + ws2 + render(en[2], lay))
        body = ("," + ws2).join(ws + p for p in parts)
        if parts and trailing:
            body += ws + ","
        return "{" + body + ws + "}"
    raise ValueError(kind)


INVALID = ["k=a|...f", "k={...a: 1}", 'k={"x": ...a}', "k=[...lst]", "k={...dct}", "k=[**dct]", "k={*lst}"]


def _setup(repo):
    sys.path.insert(0, os.path.join(repo, "src"))
    sys.path.insert(1, repo)
    from django.conf import settings
    if not settings.configured:
        from tests.django_test_setup import setup_test_config
        setup_test_config({"autodiscover": False})


def struct_of(v):
    from django_components.util.tag_parser import TagValue
    if isinstance(v, TagValue):
        return ("val", tuple((p.value, p.quoted, p.spread, p.translation, p.filter) for p in v.parts))
    return (v.type, v.spread, tuple(struct_of(e) for e in v.entries))


def shard(args):
    repo, depth, width, shard_no, nshards = args
    _setup(repo)
    from django.template import Context, Engine
    from django.template.base import Parser
    from django.template.exceptions import TemplateSyntaxError
    from django.utils.safestring import SafeData
    from django_components.util.tag_parser import parse_tag
    eng = Engine.get_default()
    n = programs = 0
    fails, samples = [], []
    shapes = set()
    for idx, ast in enumerate(values(depth, width)):
        if idx % nshards != shard_no:
            continue
        programs += 1
        want = denote(ast)
        structs = []
        for lay in LAYOUTS:
            for form in ("k={}", "{}"):
                src = "c " + form.format(render(ast, lay))
                n += 1
                try:
                    parser = Parser([], eng.template_libraries, eng.template_builtins)
                    _tag, attrs = parse_tag(src, parser)
                    val = attrs[1].value
                    st = struct_of(val)
                    structs.append((src, st))
                    val.compile()
                    got = val.resolve(Context(dict(CTX)))
                    if _plain(got) != want and len(fails) < 5:
                        fails.append({"input": src, "clause": "resolved value differs from the denoted value", "expected": repr(want), "observed": repr(got)})
                    re_src = "c " + attrs[1].serialize()
                    _t2, attrs2 = parse_tag(re_src, parser)
                    if struct_of(attrs2[1].value) != st and len(fails) < 5:
                        fails.append({"input": src, "clause": "re-parse of the canonical serialisation differs", "canonical": re_src})
                except Exception as e:
                    if len(fails) < 5:
                        fails.append({"input": src, "clause": "documented syntax rejected / crashed", "observed": f"{type(e).__name__}: {e}"[:200]})
        for form in ("k={}", "{}"):
            same_form = [s for s in structs if s[0].startswith("c k=") == (form == "k={}")]
            if same_form and any(s[1] != same_form[0][1] for s in same_form) and len(fails) < 5:
                fails.append({"input": [s[0] for s in same_form][:4], "clause": "layout changes the parse"})
        shapes.add(_shape(ast))
        if len(samples) < 2 and ast[0] != "atom":
            samples.append({"ast": repr(ast)[:200], "rendering": render(ast, LAYOUTS[2]), "denotes": repr(want)[:100]})
    inv = []
    if shard_no == 0:
        for src in INVALID:
            n += 1
            try:
                parser = Parser([], eng.template_libraries, eng.template_builtins)
                _tag, attrs = parse_tag("c " + src, parser)
                for a in attrs[1:]:
                    a.value.compile()
                    a.value.resolve(Context(dict(CTX)))
                inv.append({"input": "c " + src, "clause": "documented-invalid combination was accepted"})
            except TemplateSyntaxError:
                pass
            except Exception as e:
                inv.append({"input": "c " + src, "clause": "documented-invalid combination raised something else", "observed": f"{type(e).__name__}: {e}"[:200]})
    return {"n": n, "programs": programs, "fails": fails + inv, "samples": samples, "shapes": len(shapes)}


def _plain(v):
    if isinstance(v, list):
        return [_plain(x) for x in v]
    if isinstance(v, dict):
        return {(_plain(k)): _plain(x) for k, x in v.items()}
    if isinstance(v, str):
        return str(v)
    return v


def _shape(ast):
    if ast[0] == "atom":
        return "a"
    return ast[0][0] + "(" + ",".join(_shape(x) if x[0] in ("atom", "list", "dict") else (x[0][0] + (_shape(x[2]) if x[0] == "pair" else "")) for x in ast[1]) + ")"


def run(repo, depth=2, width=2, procs=16):
    import multiprocessing as mp
    ctx = mp.get_context("spawn")
    with ctx.Pool(procs) as pool:
        res = pool.map(shard, [(repo, depth, width, k, procs) for k in range(procs)])
    return {"space": f"all value ASTs of the documented grammar, depth <= {depth}, <= {width} entries per container, {len(ATOMS)} atoms, x {len(LAYOUTS)} layouts x 2 positions (kwarg / positional), plus {len(INVALID)} documented-invalid forms",
            "evaluations": sum(r["n"] for r in res), "programs": sum(r["programs"] for r in res), "distinct_shapes": sum(r["shapes"] for r in res),
            "failures": [f for r in res for f in r["fails"]][:12], "samples": [s for r in res for s in r["samples"]][:4], "exhaustive": True}


if __name__ == "__main__":
    import json
    print(json.dumps(run(sys.argv[1] if len(sys.argv) > 1 else "/repo", int(sys.argv[2]) if len(sys.argv) > 2 else 1, int(sys.argv[3]) if len(sys.argv) > 3 else 2), indent=1)[:6000])
