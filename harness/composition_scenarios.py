"""Part of the bounded stand-in for clause 2 of C10 (never counted as proved): four hand-written scenario GROUPS whose ingredients
the generated families of bounded_composition.py do not contain - a block name shared between the page family and a component's
own family; a {% block %} inside slot default content of a component that is nested / sits in an extending page; {{ block.super }}
inside a fill of a component nested in another component's overridden block; a stock template that a component obtained through
get_template_name() and that is used plainly afterwards.  Each scenario is rendered in a child process per context mode (10 s
budget) next to its hand-flattened twin; every scenario has CONTROL variants that must agree.  The deviating variants are the
known findings F-C10b .. F-C10e (tagged here, variant by variant); a deviation of a control, or of any other kind, is untagged."""
import json
import os
import re
import subprocess
import sys

PBASE = "<p>{% block body %}PB{% endblock %}</p>"
FILL_SUPER = "{% component 'inner' %}{% fill 's' %}{{ block.super }}!{% endfill %}{% endcomponent %}"

# group -> dict(templates, components, pairs=[(variant, as_written, twin, known_finding or None)])
GROUPS = {
    "shared_block_name": dict(
        templates={
            "base.html": "<p>{% block body %}PAGEBASE{% endblock %}</p>",
            "page.html": "{% extends 'base.html' %}{% block body %}PAGE {% component 'c' / %}{% endblock %}",
            "page2.html": "{% extends 'base.html' %}{% block body %}PAGE {% component 'c2' / %}{% endblock %}",
            "page3.html": "{% extends 'base.html' %}{% block body %}PAGE {% component 'c3' / %}{% endblock %}",
            "c_base.html": "[{% block body %}CBASE{% endblock %}]",
            "c3_base.html": "[{% block other %}CBASE{% endblock %}]",
            "flat.html": "<p>PAGE {% component 'cf' / %}</p>",
            "flat2.html": "<p>PAGE {% component 'cf2' / %}</p>",
        },
        components={"c": "{% extends 'c_base.html' %}{% block body %}CCHILD{% endblock %}", "c2": "{% extends 'c_base.html' %}",
                    "c3": "{% extends 'c3_base.html' %}{% block other %}CCHILD{% endblock %}", "cf": "[CCHILD]", "cf2": "[CBASE]"},
        pairs=[("component family overrides a block named like the page's", "page.html", "flat.html", "F-C10b"),
               ("component family keeps the base content of a block named like the page's", "page2.html", "flat2.html", "F-C10b"),
               ("control: the block names differ", "page3.html", "flat.html", None)]),
    "block_in_slot_default": dict(
        templates={
            "c_base.html": "[{% slot 's' default %}{% block inner %}BASEINNER{% endblock %}{% endslot %}]",
            "pbase.html": PBASE,
            "plain.html": "<p>{% component 'c' / %}</p>", "plain_f.html": "<p>{% component 'cf' / %}</p>",
            "ext.html": "{% extends 'pbase.html' %}{% block body %}{% component 'c' / %}{% endblock %}", "ext_f.html": "<p>{% component 'cf' / %}</p>",
            "nest.html": "<p>{% component 'outer' / %}</p>", "nest_f.html": "<p>{% component 'outer_f' / %}</p>",
            "fill.html": "<p>{% component 'wrap' %}{% component 'c' / %}{% endcomponent %}</p>",
            "fill_f.html": "<p>{% component 'wrap' %}{% component 'cf' / %}{% endcomponent %}</p>",
        },
        components={"c": "{% extends 'c_base.html' %}{% block inner %}CHILDINNER{% endblock %}", "cf": "[{% slot 's' default %}CHILDINNER{% endslot %}]",
                    "outer": "({% component 'c' / %})", "outer_f": "({% component 'cf' / %})", "wrap": "({% slot 'w' default / %})"},
        pairs=[("control: the component is the root of a plain page", "plain.html", "plain_f.html", None),
               ("the component sits in an extending page", "ext.html", "ext_f.html", "F-C10c"),
               ("the component is nested in another component's template", "nest.html", "nest_f.html", "F-C10c"),
               ("the component is passed into another component's slot", "fill.html", "fill_f.html", "F-C10c")]),
    "block_super_in_fill": dict(
        templates={
            "o_base.html": "<{% block b %}OB{% endblock %}>", "pbase.html": PBASE,
            "nested.html": "<p>{% component 'outer' / %}</p>", "nested_f.html": "<p>{% component 'outer_f' / %}</p>",
            "top.html": "{% extends 'pbase.html' %}{% block body %}" + FILL_SUPER + "{% endblock %}",
            "top_f.html": "<p>{% component 'inner' %}{% fill 's' %}PB!{% endfill %}{% endcomponent %}</p>",
        },
        components={"inner": "[{% slot 's' default / %}]", "outer": "{% extends 'o_base.html' %}{% block b %}" + FILL_SUPER + "{% endblock %}",
                    "outer_f": "<{% component 'inner' %}{% fill 's' %}OB!{% endfill %}{% endcomponent %}>"},
        pairs=[("control: block.super in a fill at page level", "top.html", "top_f.html", None),
               ("block.super in a fill inside the overridden block of a component's own family", "nested.html", "nested_f.html", "F-C10d")]),
}
STOCK_AFTER_COMPONENT = {
    "x.html": "[{% block body %}X{% endblock %}{% cycle 'a' 'b' %}]", "pbase.html": PBASE,
    "page.html": "{% extends 'pbase.html' %}{% block body %}PAGE {% include 'x.html' %}{% endblock %}",
    "flat.html": "<p>PAGE [Xa]</p>", "use_component.html": "{% component 'c' / %}",
}


def _setup(repo, mode, templates):
    sys.path.insert(0, os.path.join(repo, "src"))
    sys.path.insert(1, repo)
    from tests.django_test_setup import setup_test_config
    loaders = [("django.template.loaders.cached.Loader", [("django.template.loaders.locmem.Loader", templates)])]
    tpl = [{"BACKEND": "django.template.backends.django.DjangoTemplates", "OPTIONS": {"builtins": ["django_components.templatetags.component_tags"], "loaders": loaders}}]
    setup_test_config({"autodiscover": False, "context_behavior": mode}, extra_settings={"TEMPLATES": tpl})


def _clean(out):
    return re.sub(r"<!-- _RENDERED [^>]*-->", "", out)


def child(repo, mode, group, name):
    """render ONE template of a group (own process: a hang must not take the others with it)"""
    if group == "stock_after_component":
        _setup(repo, mode, STOCK_AFTER_COMPONENT)
        from django.template.loader import get_template
        from django_components import Component, register

        @register("c")
        class C(Component):
            def get_template_name(self, context):
                return "x.html"
        before = _clean(get_template("page.html").render({}))
        _clean(get_template("use_component.html").render({}))
        after = _clean(get_template("page.html").render({}))
        print(json.dumps({"flat": _clean(get_template("flat.html").render({})), "before": before, "after": after}))
        return
    g = GROUPS[group]
    _setup(repo, mode, g["templates"])
    from django.template.loader import get_template
    from django_components import Component, register
    for cname, src in g["components"].items():
        register(cname)(type("Scn_" + cname, (Component,), {"template": src}))
    print(json.dumps({"out": _clean(get_template(name).render({}))}))


def _run_child(repo, mode, group, name, budget=10):
    try:
        p = subprocess.run([sys.executable, os.path.abspath(__file__), "--child", repo, mode, group, name], capture_output=True, text=True, timeout=budget)
    except subprocess.TimeoutExpired:
        return {"hang": f"no result within {budget} s"}
    if p.returncode != 0:
        return {"error": (p.stderr or p.stdout).strip().splitlines()[-1][:200] if (p.stderr or p.stdout).strip() else f"exit {p.returncode}"}
    return json.loads(p.stdout.strip().splitlines()[-1])


def run(repo):
    from concurrent.futures import ThreadPoolExecutor
    jobs = {(mode, group, name) for mode in ("django", "isolated") for group, g in GROUPS.items() for _v, w, t, _f in g["pairs"] for name in (w, t)}
    jobs |= {(mode, "stock_after_component", "-") for mode in ("django", "isolated")}
    with ThreadPoolExecutor(max_workers=12) as ex:
        cache = dict(zip(sorted(jobs), ex.map(lambda j: _run_child(repo, *j), sorted(jobs))))
    _rc = lambda repo_, mode, group, name: cache[(mode, group, name)]
    n, fails = 0, []
    for mode in ("django", "isolated"):
        for group, g in GROUPS.items():
            for variant, written, twin, finding in g["pairs"]:
                n += 1
                a, b = _rc(repo, mode, group, written), _rc(repo, mode, group, twin)
                if a != b:
                    rec = {"input": {"scenario": group, "variant": variant, "mode": mode, "templates": {written: g["templates"][written], **{k: v for k, v in g["templates"].items() if k.endswith("base.html")}},
                                     "components": g["components"]},
                           "clause": "the family renders exactly like its hand-flattened twin", "expected": b, "observed": a}
                    if finding:
                        rec["known_finding"] = finding
                    fails.append(rec)
        n += 1
        r = _rc(repo, mode, "stock_after_component", "-")
        if not ("flat" in r and r["before"] == r["flat"]):
            fails.append({"input": {"scenario": "stock_after_component", "mode": mode, "templates": STOCK_AFTER_COMPONENT}, "clause": "control: the stock page family renders like its twin before any component use",
                          "expected": r.get("flat"), "observed": r})
        elif r["after"] != r["flat"]:
            fails.append({"input": {"scenario": "stock_after_component", "mode": mode, "templates": STOCK_AFTER_COMPONENT,
                                    "history": "render page.html; render a component whose get_template_name() returns 'x.html'; render page.html again"},
                          "clause": "a stock template family renders like its flattened twin whatever was rendered before", "expected": r["flat"], "observed": r["after"], "known_finding": "F-C10e"})
    return {"n": n, "fails": fails}


if __name__ == "__main__":
    if len(sys.argv) > 1 and sys.argv[1] == "--child":
        child(*sys.argv[2:6])
    else:
        print(json.dumps(run(sys.argv[1] if len(sys.argv) > 1 else "/repo")))
