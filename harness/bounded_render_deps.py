"""Bounded stand-in for the end-to-end statement of C08 (_process_dep_declarations' marker harvest is an ASSUMED stub in the
deductive part) - never counted as proved.  Documents are assembled from every sequence of up to 3 pieces out of: end tags in
several case / whitespace variants, look-alike tags, non-ASCII text, text with '<' and '%', both dependency placeholders and the
real HTML of a rendered component (with its marker comment); each is passed through the real render_dependencies as str,
SafeString and bytes, in document and fragment mode, and compared with the property computed by plain string surgery: markers and
placeholders removed, tags at every placeholder, otherwise CSS immediately before the first </head> and JS immediately before the
last </body>, fragment: JS appended at the end, every other byte preserved in order, the input's type preserved."""
import itertools
import os
import re
import sys

CSS_PH = '<link name="CSS_PLACEHOLDER">'
JS_PH = '<script name="JS_PLACEHOLDER"></script>'
MARKER = re.compile(r"<!--\s+_RENDERED\s+[\w\-,/\.]+?\s+-->")
END = re.compile(r"</(?:head|body)\s*>", re.I)


def surgery(doc, css, js, doc_mode):
    doc = MARKER.sub("", doc)
    has_c, has_j = CSS_PH in doc, JS_PH in doc
    if not doc_mode:
        return doc.replace(CSS_PH, "").replace(JS_PH, "") + js
    doc = doc.replace(CSS_PH, css).replace(JS_PH, js)
    head = body = None
    for m in END.finditer(doc):
        name = m.group(0)[2:6].lower()
        if name == "head" and head is None and not has_c:
            head = m.start()
        if name == "body" and not has_j:
            body = m.start()
    ins = sorted([(head, css)] if head is not None else []) + ([(body, js)] if body is not None else [])
    for pos, blob in sorted(ins, key=lambda t: t[0], reverse=True):
        doc = doc[:pos] + blob + doc[pos:]
    return doc


def worker(job):
    repo, docs = job
    sys.path.insert(0, os.path.join(repo, "src"))
    sys.path.insert(1, repo)
    from django.conf import settings
    if not settings.configured:
        from tests.django_test_setup import setup_test_config
        setup_test_config({"autodiscover": False})
    from django.template import Context, Template
    from django.utils.safestring import SafeString, mark_safe
    from django_components import Component, registry, render_dependencies

    class Dep(Component):
        template = "<dep>x</dep>"
        js = "console.log('dep');"
        css = ".dep { color: red; }"
    registry.register("c08dep", Dep)
    comp_html = str(Template("{% load component_tags %}{% component 'c08dep' / %}").render(Context({})))
    blobs = {}
    for with_comp in (False, True):
        for doc_mode in (True, False):
            probe = "[[C:" + CSS_PH + ":C]][[J:" + JS_PH + ":J]]" + (comp_html if with_comp else "")
            out = render_dependencies(probe, type="document" if doc_mode else "fragment")
            if doc_mode:
                blobs[(with_comp, True)] = (re.search(r"\[\[C:(.*?):C\]\]", out, re.S).group(1), re.search(r"\[\[J:(.*?):J\]\]", out, re.S).group(1))
            else:
                tail = out[out.index(":J]]") + 4:]
                tail = MARKER.sub("", tail).replace("<dep>x</dep>" if False else "", "")
                blobs[(with_comp, False)] = ("", out[out.rindex("</dep>") + 6:] if with_comp else out[out.index(":J]]") + 4:])
    n, fails = 0, []
    for pieces in docs:
        doc = "".join(comp_html if p == "COMP" else p for p in pieces)
        with_comp = "COMP" in pieces
        for doc_mode in (True, False):
            css, js = blobs[(with_comp, doc_mode)]
            want = surgery(doc, css, js, doc_mode)
            for kind, val in (("str", doc), ("SafeString", mark_safe(doc)), ("bytes", doc.encode())):
                n += 1
                try:
                    out = render_dependencies(val, type="document" if doc_mode else "fragment")
                except Exception as e:      # noqa: BLE001
                    out = f"{type(e).__name__}: {e}"
                    kind_ok = True
                else:
                    kind_ok = (type(out) is bytes) if kind == "bytes" else (isinstance(out, SafeString) if kind == "SafeString" else type(out) is str)
                text = out.decode() if isinstance(out, bytes) else str(out)
                if (text != want or not kind_ok) and len(fails) < 5:
                    fails.append({"input": {"pieces": list(pieces), "input type": kind, "type": "document" if doc_mode else "fragment"},
                                  "clause": "only markers / placeholders removed and tags inserted where documented; type preserved",
                                  "expected": want[:300], "observed": (text[:300] if kind_ok else f"a {type(out).__name__}")})
    return {"n": n, "fails": fails}


def run(repo, maxlen=3, procs=16):
    import multiprocessing as mp
    pieces = ["<head>", "</head>", "</HEAD >", "<body>", "</body>", "</BoDy\n>", "é✓", "a<b %} {{x}}", "</heads>", "</bodyx>", CSS_PH, JS_PH, "COMP"]
    docs = [seq for k in range(0, maxlen + 1) for seq in itertools.product(pieces, repeat=k)]
    ctx = mp.get_context("spawn")
    with ctx.Pool(procs) as pool:
        res = pool.map(worker, [(repo, docs[k::procs]) for k in range(procs)])
    return {"space": f"all {len(docs)} documents of <= {maxlen} pieces out of {len(pieces)} (end tags in case / whitespace variants, look-alikes, non-ASCII, '<' and '%', both placeholders, a rendered component with its marker) x (str, SafeString, bytes) x (document, fragment)",
            "evaluations": sum(r["n"] for r in res), "failures": [f for r in res for f in r["fails"]][:6], "exhaustive": True}


if __name__ == "__main__":
    import json
    print(json.dumps(run(sys.argv[1] if len(sys.argv) > 1 else "/repo", int(sys.argv[2]) if len(sys.argv) > 2 else 2), indent=1, default=str)[:5000])
