"""Bounded stand-in for the whole-render statement of C03 (SlotNode.render, ComponentNode.render, _render_impl are not under
contract) - never counted as proved.  Component `show` prints its own data x and the page variables a, b in its template, in its
slot's default content, and lets a fill print them; pages wrap the component tag and the fill in {% with %} / {% for %} and nest
`show` in its own fill.  Every page is rendered for real in both context modes against a reference environment model of the
property:
  isolated: the component template (and slot default content) sees ONLY get_context_data()'s result; fill content sees what is
            visible at the {% component %} tag plus the bindings between the tag and the fill (enclosing loops / with) plus the alias;
  django:   the component template sees the surrounding variables under its own data; fill content sees the component's data
            over the bindings between tag and fill over the outer variables;
and in both modes the caller's Context is left exactly as found.
Known finding F-C03a (isolated: a component rendered inside {% for %} sees the loop variable) is modelled exactly: a disagreement is tagged only when the output equals the reference WITH that one leak."""
import itertools
import os
import sys

# page AST: ("comp", passed_x_expr, body) ; body = None (self-closing -> default content) | list of nodes (fill content)
# nodes: ("print",) prints x,a,b ; ("with", var, value, nodes) ; ("for", nodes) ; ("comp", ...)


def page_src(nodes):
    out = []
    for n in nodes:
        if n[0] == "print":
            out.append("({{ x }},{{ a }},{{ b }},{{ i }},{{ d.v }})")
        elif n[0] == "with":
            out.append("{% with " + n[1] + "='" + n[2] + "' %}" + page_src(n[3]) + "{% endwith %}")
        elif n[0] == "for":
            out.append("{% for i in 'pq' %}" + page_src(n[1]) + "{% endfor %}")
        elif n[0] == "comp":
            head = "{% component 'show' x=" + n[1] + " %}"
            alias = " data='d'" if len(n) > 3 and n[3] else ""
            out.append(head + ("" if n[2] is None else "{% fill 's'" + alias + " %}" + page_src(n[2]) + "{% endfill %}") + "{% endcomponent %}")
    return "".join(out)


def show(env):
    return "(" + ",".join(str(env.get(k, "")) for k in ("x", "a", "b", "i", "d.v")) + ")"


def ev(expr, env):
    return expr[1:-1] if expr.startswith("'") else env.get(expr, "")


def interp(nodes, env, mode, between=None, leak_loop=False):
    """env: what is visible here.  between: bindings made since the innermost enclosing {% component %} tag (for django mode)"""
    out = []
    for n in nodes:
        if n[0] == "print":
            out.append(show(env))
        elif n[0] == "with":
            out.append(interp(n[3], dict(env, **{n[1]: n[2]}), mode, leak_loop=leak_loop))
        elif n[0] == "for":
            for v in "pq":
                out.append(interp(n[1], dict(env, i=v), mode, leak_loop=leak_loop))
        elif n[0] == "comp":
            x = ev(n[1], env)
            data = {"x": x}
            inner = dict(data) if mode == "isolated" else dict(env, **data)
            if mode == "isolated":
                inner.pop("d.v", None)
                if leak_loop and "i" in env:
                    inner["i"] = env["i"]       # exactly what the known finding F-C03a lets through: the loop variable
            if n[2] is None:
                slot = "D" + show(inner)
            else:
                # fill content: isolated = lexical (the environment at the tag, extended by what is bound inside the fill);
                # django = the component's data over that
                fill_env = dict(env) if mode == "isolated" else dict(env, **data)
                if len(n) > 3 and n[3]:
                    fill_env["d.v"] = x          # the slot passes v=x; the alias `d` exposes it to THIS fill only
                slot = interp(n[2], fill_env, mode, leak_loop=leak_loop)
            out.append("<S>" + show(inner) + "|" + slot + "</S>")
    return "".join(out)


def pages(depth):
    def comps(d):
        for xexpr in ("'X'", "a"):
            yield ("comp", xexpr, None)
            for body in bodies(d):
                yield ("comp", xexpr, body)
                yield ("comp", xexpr, body, True)

    def bodies(d):
        yield [("print",)]
        yield [("with", "a", "WA", [("print",)])]
        yield [("with", "x", "WX", [("print",)])]
        yield [("for", [("print",)])]
        if d > 0:
            for c in comps(d - 1):
                yield [c]
                yield [("with", "b", "WB", [c])]
    for c in comps(depth):
        yield [c]
        yield [("with", "a", "WA2", [c])]
        yield [("with", "x", "WX2", [c])]
        yield [("for", [c])]
    # two wrappers around the tag (a binding made INSIDE a loop, a loop inside a binding)
    for c in comps(0):
        yield [("for", [("with", "b", "WB3", [c])])]
        yield [("for", [("with", "a", "WA3", [c])])]
        yield [("with", "b", "WB4", [("for", [c])])]


def _in_for(nodes, inside=False):
    for n in nodes:
        if n[0] == "comp" and inside:
            return True
        if n[0] == "for" and _in_for(n[1], True):
            return True
        if n[0] == "with" and _in_for(n[3], inside):
            return True
        if n[0] == "comp" and n[2] is not None and _in_for(n[2], inside):
            return True
    return False


def worker(job):
    repo, mode, progs = job
    sys.path.insert(0, os.path.join(repo, "src"))
    sys.path.insert(1, repo)
    from tests.django_test_setup import setup_test_config
    setup_test_config({"autodiscover": False, "context_behavior": mode})
    import re
    from django.template import Context, Template
    from django_components import Component, registry

    class Show(Component):
        template = "{% load component_tags %}<S>({{ x }},{{ a }},{{ b }},{{ i }},{{ d.v }})|{% slot 's' default v=x %}D({{ x }},{{ a }},{{ b }},{{ i }},{{ d.v }}){% endslot %}</S>"

        def get_context_data(self, x=None):
            return {"x": x}
    registry.register("show", Show)
    rx = [re.compile(r"<!--\s*_RENDERED[^>]*-->"), re.compile(r'\s+data-djc-[\w-]+(="[^"]*")?')]
    n, fails = 0, []
    for prog in progs:
        for outer in ({"a": "A", "b": "B"}, {"a": "A2", "b": "B", "x": "PX"}):
            ctx = Context(dict(outer))
            before = [dict(d) for d in ctx.dicts]
            src = "{% load component_tags %}" + page_src(prog)
            n += 1
            try:
                got = Template(src).render(ctx)
                for r in rx:
                    got = r.sub("", got)
            except Exception as e:      # noqa: BLE001
                got = f"{type(e).__name__}: {e}"[:160]
            want = interp(prog, dict(outer), mode)
            want_known = interp(prog, dict(outer), mode, leak_loop=True)
            rec = None
            if got != want:
                rec = {"input": {"mode": mode, "page": page_src(prog), "context": outer}, "clause": "what the component template / the fill content can see", "expected": want, "observed": got}
            elif [dict(d) for d in ctx.dicts] != before:
                rec = {"input": {"mode": mode, "page": page_src(prog), "context": outer}, "clause": "the caller's Context is left as found", "expected": str(before), "observed": str([dict(d) for d in ctx.dicts])}
            if rec is not None and len(fails) < 300:
                if mode == "isolated" and rec["clause"].startswith("what") and got == want_known:
                    rec["known_finding"] = "F-C03a-page"      # exactly the loop variable, nothing else
                fails.append(rec)
    return {"n": n, "fails": fails}


def run(repo, depth=1, procs=16):
    import multiprocessing as mp
    progs = list(pages(depth))
    jobs = []
    for mode in ("django", "isolated"):
        k = max(1, procs // 2)
        for s in range(k):
            jobs.append((repo, mode, progs[s::k]))
    ctx = mp.get_context("spawn")
    with ctx.Pool(procs) as pool:
        res = pool.map(worker, jobs)
    allf = [f for r in res for f in r["fails"]]
    unexpected = [f for f in allf if not f.get("known_finding")]
    known = [f for f in allf if f.get("known_finding")]
    return {"space": f"all {len(progs)} pages (component `show` self-closing or with a fill - with or without the slot-data alias data='d' - printing x, a, b, i and d.v; with / for wrappers around the tag and inside the fill; `show` nested in its own fill to depth {depth + 1}) x 2 outer contexts x 2 modes",
            "evaluations": sum(r["n"] for r in res), "unexpected_failures": len(unexpected), "known_finding_failures": len(known),
            "failures": unexpected[:6] + known[:1], "exhaustive": True}


if __name__ == "__main__":
    import json
    print(json.dumps(run(sys.argv[1] if len(sys.argv) > 1 else "/repo", int(sys.argv[2]) if len(sys.argv) > 2 else 1), indent=1, default=str)[:int(os.environ.get("BOUNDED_MAXOUT", "7000"))])
