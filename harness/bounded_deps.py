"""Bounded stand-in for the whole-page statement of C04 (_process_dep_declarations and the render pipeline are not under
contract) - never counted as proved.  Every page assembled from up to 3 component uses (3 component classes with inline JS /
CSS and Media files, repeats and nesting through a slot included), with no / CSS / JS / both dependency placeholders, is
rendered for real and passed through render_dependencies(type="document"); the result must contain the inline JS and CSS and
the Media files of EXACTLY the component classes that were rendered, each ONCE, in order of first appearance, and no
dependency marker."""
import itertools
import os
import re
import sys

COMPS = "abe"          # `e` renders NO visible output (a JS/CSS-only component): its scripts and styles are still part of the page


def worker(job):
    repo, pages = job
    sys.path.insert(0, os.path.join(repo, "src"))
    sys.path.insert(1, repo)
    from tests.django_test_setup import setup_test_config
    setup_test_config({"autodiscover": False})
    from django.template import Context, Template
    from django_components import Component, registry, render_dependencies
    for c in COMPS:
        tpl = "{% load component_tags %}{% if nothing %}x{% endif %}  \n" if c == "e" else "{% load component_tags %}<" + c + ">{% slot 's' default / %}</" + c + ">"
        attrs = {"template": tpl, "js": f"console.log('js-{c}');", "css": f".css-{c} {{ color: red; }}",
                 "Media": type("Media", (), {"js": [f"media-{c}.js"], "css": [f"media-{c}.css"]})}
        registry.register(c, type("Dep" + c.upper(), (Component,), attrs))
    n, fails = 0, []
    for uses, ph in pages:
        body = ""
        order = []

        def emit(u):
            nonlocal body
            if isinstance(u, tuple):      # (outer, inner): inner rendered in outer's slot
                order.append(u[0])
                if u[0] != "e":             # (`e` has no slot: what is written in its body is never rendered)
                    order.append(u[1])
                return "{% component '" + u[0] + "' %}{% component '" + u[1] + "' / %}{% endcomponent %}"
            order.append(u)
            return "{% component '" + u + "' / %}"
        body = "".join(emit(u) for u in uses)
        head = "{% component_css_dependencies %}" if ph in ("css", "both") else ""
        tail = "{% component_js_dependencies %}" if ph in ("js", "both") else ""
        src = "{% load component_tags %}<html><head>" + head + "</head><body>" + body + tail + "</body></html>"
        n += 1
        try:
            out = render_dependencies(Template(src).render(Context({})))
        except Exception as e:      # noqa: BLE001
            fails.append({"input": {"components in order": [str(u) for u in uses], "placeholders": ph}, "clause": "render failed", "observed": f"{type(e).__name__}: {e}"[:200]})
            continue
        first = list(dict.fromkeys(order))
        got_js = re.findall(r"console\.log\('js-(\w)'\)", out)
        got_css = re.findall(r"\.css-(\w) \{", out)
        got_mjs = re.findall(r'src="[^"]*media-(\w)\.js"', out)
        got_mcss = re.findall(r'href="[^"]*media-(\w)\.css"', out)
        what = None
        for label, got in (("inline JS", got_js), ("inline CSS", got_css), ("Media JS files", got_mjs), ("Media CSS files", got_mcss)):
            if got != first:
                what = f"{label}: {got} but the rendered classes in order of first appearance are {first}"
                break
        if what is None and "_RENDERED" in out:
            what = "a dependency marker comment survived"
        if what is None and ("CSS_PLACEHOLDER" in out or "JS_PLACEHOLDER" in out):
            what = "a placeholder survived"
        if what and len(fails) < 5:
            fails.append({"input": {"components in order": [str(u) for u in uses], "placeholders": ph}, "clause": "exactly the JS / CSS of the rendered components, once, in order of first appearance", "observed": what})
    return {"n": n, "fails": fails}


def special(repo):
    """two page shapes outside the grammar above: (1) the dependency placeholders written in the template of a component that is
    itself the ROOT of another component's template (nesting depth 1..3) - its root elements carry one render-id attribute per
    enclosing component; (2) ONE page that uses 160 distinct component classes, each with inline JS and CSS (more scripts than a
    default-sized Django cache holds)"""
    sys.path.insert(0, os.path.join(repo, "src"))
    sys.path.insert(1, repo)
    from tests.django_test_setup import setup_test_config
    setup_test_config({"autodiscover": False})
    from django_components import Component, registry
    n, fails = 0, []
    inner = type("PhInner", (Component,), {"template": "{% load component_tags %}{% component_css_dependencies %}<div>inner</div>{% component_js_dependencies %}",
                                           "js": "console.log('js-ph');", "css": ".css-ph { color: red; }"})
    registry.register("ph0", inner)
    for depth in (1, 2, 3):
        registry.register(f"ph{depth}", type(f"PhOuter{depth}", (Component,), {"template": "{% load component_tags %}{% component 'ph" + str(depth - 1) + "' / %}"}))
        n += 1
        try:
            out = registry.get(f"ph{depth}").render()
            what = None
            if "CSS_PLACEHOLDER" in out or "JS_PLACEHOLDER" in out:
                what = "a placeholder survived"
            elif out.count("console.log('js-ph')") != 1 or out.count(".css-ph {") != 1:
                what = f"inline JS {out.count(chr(99) + 'onsole.log(' + chr(39) + 'js-ph')} times, inline CSS {out.count('.css-ph {')} times"
            elif "_RENDERED" in out:
                what = "a dependency marker comment survived"
        except Exception as e:      # noqa: BLE001
            what, out = f"{type(e).__name__}: {e}"[:200], ""
        if what:
            fails.append({"input": {"page": f"a component whose root is a component (x{depth}) whose template holds both dependency placeholders, rendered with Component.render()"},
                          "clause": "placeholders are replaced by the JS / CSS of the rendered components, none survives", "observed": what, "output": out[:300]})
    N = 160
    for i in range(N):
        registry.register(f"many{i}", type(f"Many{i}", (Component,), {"template": f"<p>m{i}</p>", "js": f"console.log('many-{i}');", "css": f".many-{i} {{ color: red; }}"}))
    page = type("ManyPage", (Component,), {"template": "{% load component_tags %}<html><head></head><body>" + "".join("{% component 'many" + str(i) + "' / %}" for i in range(N)) + "</body></html>"})
    n += 1
    try:
        out = page.render()
        got = [int(x) for x in re.findall(r"console\.log\('many-(\d+)'\)", out)]
        gotc = [int(x) for x in re.findall(r"\.many-(\d+) \{", out)]
        what = None if got == list(range(N)) and gotc == list(range(N)) else f"inline JS of {len(got)} and CSS of {len(gotc)} of the {N} rendered classes"
    except Exception as e:      # noqa: BLE001
        what = f"{type(e).__name__}: {e}"[:200]
    if what:
        fails.append({"input": {"page": f"one document that uses {N} distinct component classes, each with inline JS and CSS, once"},
                      "clause": "exactly the JS / CSS of the rendered components, once, in order of first appearance", "observed": what})
    return {"n": n, "fails": fails}


def run(repo, maxuses=3, procs=8):
    import multiprocessing as mp
    units = list(COMPS) + [(a, b) for a in COMPS for b in COMPS]
    pages = [(uses, ph) for k in range(0, maxuses + 1) for uses in itertools.product(units, repeat=k) for ph in ("none", "css", "js", "both")]
    if maxuses >= 3:
        pages = [p for p in pages if len(p[0]) < 3 or all(not isinstance(u, tuple) for u in p[0][1:])]
    ctx = mp.get_context("spawn")
    with ctx.Pool(procs) as pool:
        res = pool.map(worker, [(repo, pages[k::procs]) for k in range(procs)])
        res.append(pool.apply(special, (repo,)))
    return {"space": f"(plus 4 special pages: dependency placeholders inside a component that is the root of 1-3 enclosing components; one page with 160 component classes) all {len(pages)} pages with <= {maxuses} component uses over 3 component classes - one of them renders no visible output - (plain or nested through a slot; from the third use on plain only) x 4 placeholder layouts, document mode",
            "evaluations": sum(r["n"] for r in res), "failures": [f for r in res for f in r["fails"]][:8], "exhaustive": True}


if __name__ == "__main__":
    import json
    print(json.dumps(run(sys.argv[1] if len(sys.argv) > 1 else "/repo", int(sys.argv[2]) if len(sys.argv) > 2 else 2), indent=1, default=str)[:5000])
