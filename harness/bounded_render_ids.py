"""Bounded stand-in for the whole-page statement of C14 (component_post_render's hand-over of root attributes and the renderer
closures are not under contract) - never counted as proved.  A library of components whose root structure differs (one root
element, two root elements, text before the root, root = another component, root = a slot) is composed into every page of
nesting depth <= 3; each page is rendered for real and parsed.  Oracle, from the property: every TOP-LEVEL element of a
component instance's own HTML carries data-djc-id-<id of that instance>; an element that is the root of several nested instances
(a component whose template consists of another component) carries the ids of all of them; no other element carries an id of an
instance it is not a root of; ids of distinct instances differ.  Instances are identified by the _RENDERED markers (class, id)
in document order, which is the order of the opening root elements."""
import itertools
import os
import re
import sys
from html.parser import HTMLParser

# component library: name -> (template, root tags it produces itself (in order), names of components whose roots ARE its roots)
LIB = {
    "one": "<one>{% slot 's' default / %}</one>",
    "two": "<two1></two1><two2>{% slot 's' default / %}</two2>",
    "txt": "text<txt>{% slot 's' default / %}</txt>",
    "wrap": "{% component 'one' %}{% slot 's' default / %}{% endcomponent %}",       # its root element is the inner <one>
    "deep": "<deep><in>{% component 'one' / %}</in>{% slot 's' default / %}</deep>",
    # output that STARTS with a nested component and has more root content after it
    "lead": "{% component 'one' / %}<lead>{% slot 's' default / %}</lead>{% component 'one' / %}",
}


def roots_of(call):
    """expected (tag, set of instance paths that must mark it) for a call tree; a call = (name, [child calls in the slot])"""
    raise NotImplementedError


def calls(depth):
    for name in LIB:
        yield (name, [])
        if depth > 0:
            for sub in calls(depth - 1):
                yield (name, [sub])
        if depth > 0 and name in ("one", "deep", "lead"):
            subs = list(itertools.islice(calls(depth - 1), 0, 4))
            for a, b in itertools.product(subs[:2], repeat=2):
                yield (name, [a, b])


def src(call):
    name, kids = call
    return "{% component '" + name + "' %}" + "".join(src(k) for k in kids) + "{% endcomponent %}"


class Tree(HTMLParser):
    def __init__(self):
        super().__init__()
        self.stack = []
        self.elements = []      # (tag, depth, set of djc ids)

    def handle_starttag(self, tag, attrs):
        ids = {k[len("data-djc-id-"):] for k, _v in attrs if k.startswith("data-djc-id-")}
        self.elements.append((tag, len(self.stack), ids))
        self.stack.append(tag)

    def handle_endtag(self, tag):
        if tag in self.stack:
            while self.stack and self.stack.pop() != tag:
                pass


def expected_marks(call, counter, enclosing_roots):
    """walk the call tree in render (document) order; returns list of (tag, [instance numbers whose root it is]) for every element
    that must carry ids, in document order.  enclosing_roots: instances for which the NEXT root elements are roots too."""
    name, kids = call
    me = counter[0]
    counter[0] += 1
    mine = enclosing_roots + [me]
    out = []
    kid_marks = lambda er: [m for k in kids for m in expected_marks(k, counter, er)]
    if name == "one":
        out.append(("one", mine)); out += kid_marks([])
    elif name == "two":
        out.append(("two1", mine)); out.append(("two2", mine)); out += kid_marks([])
    elif name == "txt":
        out.append(("txt", mine)); out += kid_marks([])
    elif name == "wrap":
        inner = counter[0]
        counter[0] += 1
        out.append(("one", mine + [inner])); out += kid_marks([])
    elif name == "lead":
        first = counter[0]
        counter[0] += 1
        out.append(("one", mine + [first]))
        out.append(("lead", mine))
        out += kid_marks([])
        second = counter[0]
        counter[0] += 1
        out.append(("one", mine + [second]))
    elif name == "deep":
        inner = counter[0]
        out.append(("deep", mine))
        counter[0] += 1
        out.append(("one", [inner]))
        out += kid_marks([])
    return out


def worker(job):
    repo, progs = job
    sys.path.insert(0, os.path.join(repo, "src"))
    sys.path.insert(1, repo)
    from django.conf import settings
    if not settings.configured:
        from tests.django_test_setup import setup_test_config
        setup_test_config({"autodiscover": False})
    from django.template import Context, Template
    from django_components import Component, registry
    for name, tpl in LIB.items():
        registry.register(name, type("R" + name, (Component,), {"template": "{% load component_tags %}" + tpl}))
    n, fails = 0, []
    for prog in progs:
        n += 1
        out = Template("{% load component_tags %}" + src(prog)).render(Context({}))
        t = Tree()
        t.feed(out)
        marked = [(tag, ids) for tag, _d, ids in t.elements if tag in ("one", "two1", "two2", "txt", "deep", "lead")]
        want = expected_marks(prog, [0], [])
        what = None
        if [m[0] for m in marked] != [w[0] for w in want]:
            what = f"elements {[m[0] for m in marked]} but expected {[w[0] for w in want]}"
        else:
            # instance number -> render id: the _RENDERED markers appear in the order in which the instances were created
            marker_ids = re.findall(r"<!--\s*_RENDERED\s+[\w\-\./]+?,(\w+?),", out)
            n_inst = max((w for _t, who in want for w in who), default=-1) + 1
            if len(marker_ids) != n_inst or len(set(marker_ids)) != len(marker_ids):
                what = f"{len(marker_ids)} markers ({len(set(marker_ids))} distinct ids) for {n_inst} instances"
            else:
                for (tag, ids), (_t, who) in zip(marked, want):
                    exp = {marker_ids[w].lower() for w in who}       # (html.parser lower-cases attribute names)
                    if ids != exp:
                        what = f"<{tag}> carries render ids {sorted(ids)} but is the root of the instances with ids {sorted(exp)}"
                        break
        other = [(tag, ids) for tag, _d, ids in t.elements if tag == "in" and ids]
        if what is None and other:
            what = f"a non-root element carries render ids: {other}"
        if what and len(fails) < 5:
            fails.append({"input": {"page": src(prog)}, "clause": "root elements carry exactly the render ids of the instances they are roots of", "observed": what, "output": out[:400]})
    return {"n": n, "fails": fails}


def run(repo, depth=2, procs=16):
    import multiprocessing as mp
    progs = list(calls(depth))
    ctx = mp.get_context("spawn")
    with ctx.Pool(procs) as pool:
        res = pool.map(worker, [(repo, progs[k::procs]) for k in range(procs)])
    return {"space": f"all {len(progs)} pages of nesting depth <= {depth + 1} over the library {sorted(LIB)} (one root, two roots, text before the root, root = another component, nested non-root component)",
            "evaluations": sum(r["n"] for r in res), "failures": [f for r in res for f in r["fails"]][:8], "exhaustive": True}


if __name__ == "__main__":
    import json
    print(json.dumps(run(sys.argv[1] if len(sys.argv) > 1 else "/repo", int(sys.argv[2]) if len(sys.argv) > 2 else 2), indent=1, default=str)[:6000])
