"""Bounded stand-in for the whole-tag statement of C13 (HtmlAttrsNode.render, resolve_params and the tag plumbing are not under
contract as a whole) - never counted as proved.  Every {% html_attrs %} tag assembled from: an `attrs` dict or none, a
`defaults` dict or none, and up to 2 extra keyword arguments (plain, repeated, or aggregate `defaults:k=v`), over keys
class / data-x / @click and values plain text, text with HTML specials, SafeString, True, False, None - is rendered for real; the
output is parsed by html.parser and compared with the property: attrs override defaults, extra kwargs are appended with one
space, True renders the bare name, False / None render nothing, values reach the browser exactly as given (escaped exactly once
unless marked safe).  Known finding F-C13a (appending to a non-str value raises TypeError) is tagged by the harness."""
import itertools
import os
import sys
from html.parser import HTMLParser

KEYS = ["class", "data-x", "@click"]
VALUES = {"plain": "a b", "special": "x<y&\"q\"", "true": True, "false": False, "none": None, "safe": "SAFE"}


def worker(job):
    repo, cases = job
    sys.path.insert(0, os.path.join(repo, "src"))
    sys.path.insert(1, repo)
    from django.conf import settings
    if not settings.configured:
        from tests.django_test_setup import setup_test_config
        setup_test_config({"autodiscover": False})
    from django.template import Context, Template
    from django.utils.safestring import mark_safe

    def val(name):
        return mark_safe("<b>&amp;</b>") if name == "safe" else VALUES[name]

    class P(HTMLParser):
        def __init__(self):
            super().__init__()
            self.attrs = None

        def handle_starttag(self, tag, attrs):
            if tag == "div":
                self.attrs = attrs
    n, fails = 0, []
    for attrs_spec, defaults_spec, extras in cases:
        ctx = {}
        parts = []
        if attrs_spec is not None:
            ctx["A"] = {k: val(v) for k, v in attrs_spec}
            parts.append("attrs=A")
        if defaults_spec is not None:
            ctx["D"] = {k: val(v) for k, v in defaults_spec}
            parts.append("defaults=D")
        for j, (k, v) in enumerate(extras):
            ctx[f"E{j}"] = val(v)
            parts.append(f"{k}=E{j}")
        src = "{% load component_tags %}<div {% html_attrs " + " ".join(parts) + " %}></div>"
        # reference: merge, then append
        merged = {}
        merged.update(ctx.get("D", {}))
        merged.update(ctx.get("A", {}))
        typeerr = False
        for j, (k, v) in enumerate(extras):
            v = ctx[f"E{j}"]
            if k in merged:
                if isinstance(merged[k], str) and isinstance(v, str):
                    merged[k] = merged[k] + " " + v
                else:
                    typeerr = True
            else:
                merged[k] = v
        want = None if typeerr else [(k.lower(), None if v is True else (str(v) if not hasattr(v, "__html__") else "<b>&</b>")) for k, v in merged.items() if v is not None and v is not False]
        n += 1
        snapshot = {k: (dict(v) if isinstance(v, dict) else v) for k, v in ctx.items()}
        try:
            out = Template(src).render(Context(ctx))
            p = P()
            p.feed(out)
            got = p.attrs
            # the same objects are used again (a second tag, a loop, the next request): the tag must not have changed them
            changed = {k: repr(v) for k, v in ctx.items() if isinstance(v, dict) and (v != snapshot[k] or list(v) != list(snapshot[k]))}
            if changed and len(fails) < 6:
                fails.append({"input": {"tag": src, "context": {k: repr(v) for k, v in snapshot.items()}}, "clause": "the dicts handed to the tag are not modified (a later use of the same object must render exactly the data given)",
                              "expected": "attrs / defaults unchanged", "observed": changed})
            out2 = Template(src).render(Context(ctx))
            if out2 != out and len(fails) < 6:
                fails.append({"input": {"tag": src, "context": {k: repr(v) for k, v in snapshot.items()}}, "clause": "rendering the same tag with the same objects twice gives the same output",
                              "expected": out, "observed": out2})
        except TypeError:
            got = "TypeError"
        except Exception as e:      # noqa: BLE001
            got = f"{type(e).__name__}: {e}"[:120]
        rec = None
        if typeerr:
            if got != "TypeError":
                # the reference cannot say what SHOULD be rendered (known finding F-C13a): only crashes of another kind count
                if isinstance(got, str):
                    rec = {"input": {"tag": src, "context": {k: repr(v) for k, v in ctx.items()}}, "clause": "html_attrs renders", "expected": "attributes (or the known TypeError)", "observed": got}
        elif got == "TypeError":
            rec = {"input": {"tag": src, "context": {k: repr(v) for k, v in ctx.items()}}, "clause": "html_attrs renders", "expected": str(want), "observed": got}
        elif got != want:
            rec = {"input": {"tag": src, "context": {k: repr(v) for k, v in ctx.items()}}, "clause": "the browser sees exactly the merged attributes", "expected": str(want), "observed": str(got)}
        if rec is not None and len(fails) < 6:
            fails.append(rec)
    return {"n": n, "fails": fails}


def run(repo, procs=16):
    import multiprocessing as mp
    pairs = [(k, v) for k in KEYS[:2] for v in ("plain", "special", "true", "false", "none", "safe")]
    dict_specs = [None, []] + [[p] for p in pairs] + [[("class", "plain"), ("data-x", "special")], [("@click", "special"), ("class", "safe")]]
    extras_opts = [[]] + [[(k, v)] for k in KEYS for v in ("plain", "special", "safe")] + [[("class", "plain"), ("class", "special")], [("data-x", "plain"), ("class", "safe")]]
    cases = [(a, d, e) for a in dict_specs for d in dict_specs for e in extras_opts]
    ctx = mp.get_context("spawn")
    with ctx.Pool(procs) as pool:
        res = pool.map(worker, [(repo, cases[k::procs]) for k in range(procs)])
    return {"space": f"all {len(cases)} html_attrs tags: attrs in {len(dict_specs)} shapes x defaults in {len(dict_specs)} shapes x {len(extras_opts)} lists of extra kwargs over keys {KEYS} and values {sorted(VALUES)}",
            "evaluations": sum(r["n"] for r in res), "failures": [f for r in res for f in r["fails"]][:8], "exhaustive": True}


if __name__ == "__main__":
    import json
    print(json.dumps(run(sys.argv[1] if len(sys.argv) > 1 else "/repo"), indent=1, default=str)[:6000])
