"""Bounded stand-in for C01 (SlotNode.render, FillNode, Component._render_impl, component_post_render are not under contract) -
never counted as proved.  EVERY component program up to a stated depth over a fixed component library (named slots, a default
slot, a required slot, a slot nested in default content, a slot nested in a fill = pass-through, is_filled, loops) is rendered
for real - through the {% component %} tag and through the dynamic component with is=... (Component.render(slots=...) is
NOT exercised) - in both context modes, each in a child process with a time budget, and compared with a
reference interpreter that implements the property literally: a slot outputs the fill addressed to it (by name, or the implicit
body for the default slot), else its own default content, always resolved against the fills of the instance whose template
contains the slot tag."""
import itertools
import os
import re
import sys

# ---- component library: template AST.  node = ("text", s) | ("slot", name, flags, default_body) | ("call", comp, fills) | ("filled", name)
LIB = {
    "one": [("text", "<O>"), ("slot", "a", ("default",), [("text", "DA")]), ("text", "</O>")],
    "two": [("text", "<T>"), ("slot", "a", (), [("text", "DA")]), ("text", "|"), ("slot", "b", (), [("text", "DB")]), ("text", "|"), ("filled", "a"), ("filled", "b"), ("text", "</T>")],
    "req": [("text", "<R>"), ("slot", "a", ("required",), []), ("text", "</R>")],
    "dflt": [("text", "<D>"), ("slot", "a", ("default",), [("text", "["), ("slot", "inner", (), [("text", "DI")]), ("text", "]")]), ("text", "</D>")],
    "pass": [("text", "<P>"), ("call", "two", {"a": [("slot", "x", ("default",), [("text", "DX")])]}), ("text", "</P>")],
    # one slot NAME used twice with different flags: only the flagged occurrence takes the implicit body
    "rep": [("text", "<Q>"), ("slot", "m", ("default",), [("text", "M1")]), ("text", "|"), ("slot", "m", (), [("text", "M2")]), ("text", "</Q>")],
    "rep2": [("text", "<Q2>"), ("slot", "m", (), [("text", "M1")]), ("text", "|"), ("slot", "m", ("default",), [("text", "M2")]), ("text", "|"), ("slot", "m", ("required",), []), ("text", "</Q2>")],
}


def src_of(nodes):
    out = []
    for n in nodes:
        if n[0] == "text":
            out.append(n[1])
        elif n[0] == "slot":
            out.append("{% slot '" + n[1] + "' " + " ".join(n[2]) + " %}" + src_of(n[3]) + "{% endslot %}")
        elif n[0] == "filled":
            out.append("{{ component_vars.is_filled." + n[1] + " }}")
        elif n[0] == "call":
            out.append(call_src(n))
        elif n[0] == "for":
            out.append("{% for i in '12' %}" + src_of(n[1]) + "{% endfor %}")
    return "".join(out)


def call_src(n, dynamic=False):
    _c, comp, fills = n
    head = "{% component 'dynamic' is='" + comp + "' %}" if dynamic else "{% component '" + comp + "' %}"
    if isinstance(fills, list):          # implicit body
        return head + src_of(fills) + "{% endcomponent %}"
    return head + "".join("{% fill '" + k + "' %}" + src_of(v) + "{% endfill %}" for k, v in fills.items()) + "{% endcomponent %}"


class SlotError(Exception):
    pass


def interp(nodes, fills):
    """reference: render template nodes of ONE component instance whose fills are `fills` (name -> rendered text, or the key
    None for the implicit body)"""
    out = []
    for n in nodes:
        if n[0] == "text":
            out.append(n[1])
        elif n[0] == "filled":
            out.append(str(n[1] in fills or (None in fills and _default_slot_name_is(nodes_root(fills), n[1]))))
        elif n[0] == "slot":
            name, flags, default = n[1], n[2], n[3]
            if name in fills:
                out.append(fills[name])
            elif "default" in flags and None in fills:
                out.append(fills[None])
            elif "required" in flags:
                raise SlotError(name)
            else:
                out.append(interp(default, fills))
        elif n[0] == "call":
            out.append(render_call(n, fills))
        elif n[0] == "for":
            out.append(interp(n[1], fills) * 2)
    return "".join(out)


def nodes_root(fills):
    return fills.get("__template__", [])


def _default_slot_name_is(nodes, name):
    for n in nodes:
        if n[0] == "slot":
            if "default" in n[2] and n[1] == name:
                return True
            if _default_slot_name_is(n[3], name):
                return True
    return False


def render_call(n, outer_fills):
    """a {% component %} tag met while rendering an instance whose fills are outer_fills: fill BODIES are rendered in the
    caller's scope (slots inside them resolve against the CALLER's fills)"""
    _c, comp, fills = n
    if isinstance(fills, list):
        rendered = {None: interp(fills, outer_fills)}
    else:
        rendered = {k: interp(v, outer_fills) for k, v in fills.items()}
    rendered["__template__"] = LIB[comp]
    return interp(LIB[comp], rendered)


# ---- programs
def bodies(depth):
    yield [("text", "x")]
    if depth > 0:
        for c in calls(depth - 1):
            yield [c]
            yield [("text", "<"), c, ("text", ">")]
        for c in itertools.islice(calls(depth - 1), 0, 6):
            yield [("for", [c])]


def calls(depth):
    for comp, tpl in LIB.items():
        slots = [s for s in _slots(tpl)]
        yield ("call", comp, {})
        if any("default" in f for _n, f in slots):
            for b in bodies(depth):
                yield ("call", comp, b)
        names = [nme for nme, _f in slots][:2]
        for nme in names:
            for b in bodies(depth):
                yield ("call", comp, {nme: b})
        if len(names) == 2:
            for b1, b2 in itertools.islice(itertools.product(bodies(depth), repeat=2), 0, 12):
                yield ("call", comp, {names[0]: b1, names[1]: b2})


def _slots(nodes):
    for n in nodes:
        if n[0] == "slot":
            yield (n[1], n[2])
            yield from _slots(n[3])
        elif n[0] == "call" and isinstance(n[2], dict):
            pass


def _nested_dflt(prog, depth=0):
    _c, comp, fills = prog
    if comp == "dflt" and depth > 0:
        return True
    bodies_ = [fills] if isinstance(fills, list) else list(fills.values())
    for b in bodies_:
        for n in b:
            if n[0] == "call" and _nested_dflt(n, depth + 1):
                return True
            if n[0] == "for" and any(m[0] == "call" and _nested_dflt(m, depth + 1) for m in n[1]):
                return True
    return False


NORMALISE = [re.compile(r"<!--\s*_RENDERED[^>]*-->"), re.compile(r'\s+data-djc-id-\w+(="")?'), re.compile(r'\s+data-djc-[\w-]+(="[^"]*")?')]


def norm(s):
    for rx in NORMALISE:
        s = rx.sub("", s)
    return s


def worker(job):
    repo, mode, progs = job
    sys.path.insert(0, os.path.join(repo, "src"))
    sys.path.insert(1, repo)
    from tests.django_test_setup import setup_test_config
    setup_test_config({"autodiscover": False, "context_behavior": mode})
    from django.template import Context, Template
    from django_components import Component, registry
    for name, tpl in LIB.items():
        cls = type("S_" + name, (Component,), {"template": "{% load component_tags %}" + src_of(tpl)})
        registry.register(name, cls)
    import signal

    class Timeout(Exception):
        pass

    def on_alarm(signum, frame):
        raise Timeout()
    signal.signal(signal.SIGALRM, on_alarm)
    n, fails = 0, []
    for prog in progs:
        try:
            want = ("ok", render_call(prog, {"__template__": []}))
        except SlotError as e:
            want = ("error", None)
        for dynamic in (False, True):
            src = "{% load component_tags %}" + call_src(prog, dynamic)
            n += 1
            signal.alarm(5)
            try:
                got = ("ok", norm(Template(src).render(Context({}))))
            except Timeout:
                got = ("hang", None)
            except RecursionError:
                got = ("hang", "RecursionError")
            except Exception as e:      # noqa: BLE001
                got = ("error", None)
            finally:
                signal.alarm(0)
            if got != want and len(fails) < 400:
                rec = {"input": {"mode": mode, "program": src[len("{% load component_tags %}"):], "through": "dynamic component" if dynamic else "component tag"},
                       "clause": "rendered output differs from the reference resolution of slots and fills", "expected": want, "observed": got}
                # region of the known findings F-C01a / F-C01b: django mode AND a component whose slot sits inside DEFAULT content
                # (`dflt`) is rendered inside another component's fill / implicit body
                if mode == "django" and _nested_dflt(prog):
                    rec["known_finding"] = "F-C01a" if got[0] == "hang" else "F-C01b"
                fails.append(rec)
    return {"n": n, "fails": fails}


def run(repo, depth=1, procs=16):
    import multiprocessing as mp
    progs = list(calls(depth))
    jobs = []
    for mode in ("django", "isolated"):
        k = max(1, procs // 2)
        for s in range(k):
            jobs.append((repo, mode, progs[s::k]))
    ctx = mp.get_context("spawn")
    with ctx.Pool(procs) as pool:
        res = pool.map(worker, jobs)
    allf = [f for r in res for f in r["fails"]]
    unexpected = [f for f in allf if not f.get("known_finding")]
    known = [f for f in allf if f.get("known_finding")]
    firsts = []
    for fid in ("F-C01a", "F-C01b"):
        firsts += [f for f in known if f["known_finding"] == fid][:1]
    return {"known_finding_failures": len(known), "unexpected_failures": len(unexpected), "failures_shown": "unexpected first, then one witness per known finding",
            "space": f"all {len(progs)} component programs of nesting depth <= {depth + 1} over the library {sorted(LIB)} (named / default / required slots, slot in default content, slot in a fill, loops, is_filled) x 2 context modes x (component tag, dynamic component)",
            "evaluations": sum(r["n"] for r in res), "failures": (unexpected[:6] + firsts), "exhaustive": True}


if __name__ == "__main__":
    import json
    print(json.dumps(run(sys.argv[1] if len(sys.argv) > 1 else "/repo", int(sys.argv[2]) if len(sys.argv) > 2 else 1), indent=1, default=str)[:int(os.environ.get("BOUNDED_MAXOUT", "6000"))])
