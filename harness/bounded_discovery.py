"""Bounded stand-in for the whole statement of C20 (get_component_dirs / get_component_files / the app-dirs loop are not under
contract) - never counted as proved.  A real project tree is built in a temporary directory (BASE_DIR with a `components`
directory in COMPONENTS.dirs, and one installed app with a `components` app dir), populated with EVERY subset pattern of a fixed
set of entries - nested packages, underscore- and dot-prefixed files and directories at every level, __init__.py, non-.py files,
names containing dots - and get_component_files(".py") is compared with the property (a file named __init__.<other suffix> is private like every other underscore name): exactly the public files, each once, each
with the dotted path Python would use to import it from the project root / the app package."""
import itertools
import os
import shutil
import sys
import tempfile
import textwrap

ENTRIES = ["a.py", "pkg/__init__.py", "pkg/b.py", "pkg/sub/c.py", "_priv/d.py", "pkg/_e.py", "pkg/_priv/f.py", ".hid/g.py", "pkg/.h.py", "x.y/z.py", "pkg/n.txt", "pkg/sub/__init__.py",
           "pkg/s.js", "pkg/__init__.js", "pkg/_t.js"]
SUFFIXES = [".py", ".js"]


def public(rel):
    parts = rel.split("/")
    if any(p.startswith(".") for p in parts):
        return False
    if any(p.startswith("_") for p in parts[:-1]):
        return False
    return not parts[-1].startswith("_") or parts[-1] == "__init__.py"


def dotted(prefix, rel):
    parts = rel[: rel.rindex(".")].split("/")
    mod = ".".join([prefix] + parts)
    return mod[: -len(".__init__")] if mod.endswith(".__init__") else mod


def run_one(args):
    repo, subsets = args
    root = tempfile.mkdtemp(prefix="djc-verif-c20-", dir=os.environ.get("TMPDIR"))
    try:
        base = os.path.join(root, "proj")
        app = os.path.join(base, "myapp")
        os.makedirs(os.path.join(base, "components"))
        os.makedirs(os.path.join(app, "components"))
        open(os.path.join(app, "__init__.py"), "w").close()
        sys.path.insert(0, os.path.join(repo, "src"))
        sys.path.insert(1, repo)
        sys.path.insert(0, base)
        from django.conf import settings
        settings.configure(BASE_DIR=base, INSTALLED_APPS=["django_components", "myapp"], COMPONENTS={"autodiscover": False, "dirs": [os.path.join(base, "components")], "app_dirs": ["components"]},
                           TEMPLATES=[{"BACKEND": "django.template.backends.django.DjangoTemplates", "DIRS": [], "APP_DIRS": True}], SECRET_KEY="x")
        import django
        django.setup()
        from django_components.util.loader import get_component_files
        n, fails = 0, []
        for subset in subsets:
            for where in (os.path.join(base, "components"), os.path.join(app, "components")):
                shutil.rmtree(where)
                os.makedirs(where)
                for rel in subset:
                    p = os.path.join(where, rel)
                    os.makedirs(os.path.dirname(p), exist_ok=True)
                    open(p, "w").close()
            for suffix in SUFFIXES + [None]:
                n += 1
                sfx = suffix or ""
                got = sorted((os.path.relpath(str(e.filepath), base), e.dot_path) for e in get_component_files(suffix) if str(e.filepath).startswith(base + os.sep))   # (the library's own components app lies elsewhere)
                want = sorted([(f"components/{rel}", dotted("components", rel)) for rel in subset if rel.endswith(sfx) and public(rel)] +
                              [(f"myapp/components/{rel}", dotted("myapp.components", rel)) for rel in subset if rel.endswith(sfx) and public(rel)])
                if got != want and len(fails) < 4:
                    fails.append({"input": {"entries in each components directory": list(subset), "suffix": suffix}, "clause": "exactly the public files, each once, with the import path Python would use",
                                  "expected": want, "observed": got})
            # a configured component directory whose own NAME contains glob meta-characters (they are legal in file names)
            if subset and len(subset) % 7 == 0:
                odd = os.path.join(base, "comp[1]", "x*y")
                shutil.rmtree(os.path.join(base, "comp[1]"), ignore_errors=True)
                for rel in subset:
                    pth = os.path.join(odd, rel)
                    os.makedirs(os.path.dirname(pth), exist_ok=True)
                    open(pth, "w").close()
                from django.test import override_settings as _ov
                with _ov(COMPONENTS={"autodiscover": False, "dirs": [odd], "app_dirs": []}):
                    n += 1
                    got = sorted(os.path.relpath(str(e.filepath), odd) for e in get_component_files(".py") if str(e.filepath).startswith(base + os.sep))
                    want = sorted(rel for rel in subset if rel.endswith(".py") and public(rel))
                    if got != want and len(fails) < 4:
                        fails.append({"input": {"entries": list(subset), "COMPONENTS.dirs": ["comp[1]/x*y"], "suffix": ".py"},
                                      "clause": "a component directory whose name contains [ ] * is searched like any other", "expected": want, "observed": got})
                shutil.rmtree(os.path.join(base, "comp[1]"), ignore_errors=True)
            # two configured component directories, one nested in the other (directly, and below an underscore directory): every file
            # that is public relative to SOME configured directory, each once
            from django.test import override_settings
            for nested in ("pkg", "_priv"):
                if not any(rel.startswith(nested + "/") for rel in subset):
                    continue
                dirs = [os.path.join(base, "components"), os.path.join(base, "components", nested)]
                with override_settings(COMPONENTS={"autodiscover": False, "dirs": dirs, "app_dirs": []}):
                    n += 1
                    got = sorted((os.path.relpath(str(e.filepath), base), e.dot_path) for e in get_component_files(".py") if str(e.filepath).startswith(base + os.sep))
                    want = sorted({(f"components/{rel}", dotted("components", rel)) for rel in subset
                                   if rel.endswith(".py") and (public(rel) or (rel.startswith(nested + "/") and public(rel[len(nested) + 1:])))})
                    if got != want and len(fails) < 4:
                        fails.append({"input": {"entries": list(subset), "COMPONENTS.dirs": ["components", f"components/{nested}"], "suffix": ".py"},
                                      "clause": "nested configured directories: exactly the files public relative to a configured directory, each once",
                                      "expected": want, "observed": got})
        return {"n": n, "fails": fails}
    finally:
        shutil.rmtree(root, ignore_errors=True)


def run(repo, procs=16):
    import multiprocessing as mp
    subsets = [tuple(e for e, bit in zip(ENTRIES, bits) if bit) for bits in itertools.product((0, 1), repeat=len(ENTRIES))]
    subsets = subsets[::53] + [tuple(ENTRIES)]         # every 53rd subset pattern plus the full tree
    ctx = mp.get_context("spawn")
    with ctx.Pool(procs) as pool:
        res = pool.map(run_one, [(repo, subsets[k::procs]) for k in range(procs)])
    return {"space": f"{len(subsets)} of the {2 ** len(ENTRIES)} subsets (every 53rd, plus the full set), for the suffixes .py, .js and None (all files), plus two nested-directory configurations, of {len(ENTRIES)} entries, placed both in a COMPONENTS.dirs directory and in an app's components directory of a real project tree",
            "evaluations": sum(r["n"] for r in res), "failures": [f for r in res for f in r["fails"]][:6], "exhaustive": False}


if __name__ == "__main__":
    import json
    print(json.dumps(run(sys.argv[1] if len(sys.argv) > 1 else "/repo"), indent=1, default=str)[:5000])
