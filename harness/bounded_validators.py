"""Bounded stand-in for C11 - never counted as proved.  BOTH validators (_validate_params_with_code, proved for all inputs by
contracts/c11.py, and the fallback _validate_params_with_signature, which is NOT under contract) are compared with what
CPython itself does when the call is made: every render signature built from a small grammar (0-2 positional-or-keyword
parameters with / without default, *args, 0-1 keyword-only parameter with / without default, **kwargs) x every tag argument
list up to a stated length over positional values and the keys a, b, k, z, args, kw, tmp (declared / keyword-only / undeclared / named like *args, **kw or a local variable of render), repeated keys
included, x extra kwargs {} / {"data-z": 9} (extra kwargs are the non-identifier keys, which cannot collide with a tag keyword).  Oracle: the call `fn(node, ctx, <args in tag order>)` evaluated by CPython
(positional after keyword and repeated keywords are TypeError, as in a Python call).
"""
import itertools
import os
import sys


def _setup(repo):
    sys.path.insert(0, os.path.join(repo, "src"))
    sys.path.insert(1, repo)
    from django.conf import settings
    if not settings.configured:
        from tests.django_test_setup import setup_test_config
        setup_test_config({"autodiscover": False})


def signatures():
    pos_opts = [[], ["a"], ["a=5"], ["a", "b"], ["a", "b=6"], ["a=5", "b=6"]]
    for pos in pos_opts:
        for var in (False, True):
            for kwonly in ([], ["k"], ["k=7"]):
                for varkw in (False, True):
                    parts = list(pos)
                    if var:
                        parts.append("*args")
                    elif kwonly:
                        parts.append("*")
                    parts += kwonly
                    if varkw:
                        parts.append("**kw")
                    yield ", ".join(parts)


# keys: declared / keyword-only / undeclared, and the names of *args, **kw and of a local variable of render() (all three are
# ordinary keywords for a Python call: they land in **kw or are a TypeError)
ATOMS = [(None, 1), (None, 2), ("a", 10), ("b", 20), ("k", 30), ("z", 40), ("args", 50), ("kw", 60), ("tmp", 70)]


def python_call(fn, params, extra):
    """what CPython does for fn(node, ctx, <params in order>, **extra)"""
    seen_kw = False
    args, kwargs = [], {}
    for key, val in params:
        if key is None:
            if seen_kw:
                return ("TypeError", None)
            args.append(val)
        else:
            seen_kw = True
            if key in kwargs:
                return ("TypeError", None)
            kwargs[key] = val
    for key, val in extra.items():
        if key in kwargs:
            return ("TypeError", None)
        kwargs[key] = val
    try:
        return ("ok", fn("node", "ctx", *args, **kwargs))
    except TypeError:
        return ("TypeError", None)


def shard(job):
    repo, maxlen, shard_no, nshards = job
    _setup(repo)
    import inspect
    from django_components.util.template_tag import TagParam, _validate_params_with_code, _validate_params_with_signature
    n, fails, samples = 0, [], []
    for si, sig in enumerate(signatures()):
        if si % nshards != shard_no:
            continue
        ns = {}
        exec(f"def render(self, context{', ' + sig if sig else ''}):\n    tmp = None\n    del tmp\n    return dict(locals())", ns)
        fn = ns["render"]
        full = inspect.signature(fn)
        vsig = full.replace(parameters=list(full.parameters.values())[2:])
        for ln in range(0, maxlen + 1):
            for combo in itertools.product(ATOMS, repeat=ln):
                for extra in ({}, {"data-z": 9}):
                    want = python_call(fn, combo, extra)
                    params = [TagParam(k, v) for k, v in combo]
                    for label, call in (("_validate_params_with_code", lambda: _validate_params_with_code(fn, params, dict(extra) or None)),
                                        ("_validate_params_with_signature", lambda: _validate_params_with_signature(vsig, params, dict(extra) or None))):
                        n += 1
                        try:
                            a, kw = call()
                            got = ("ok", fn("node", "ctx", *a, **kw))
                        except TypeError:
                            got = ("TypeError", None)
                        except Exception as e:      # noqa: BLE001
                            got = (type(e).__name__, str(e)[:80])
                        if got != want and len(fails) < 6:
                            fails.append({"function": label, "inputs": {"render signature": f"render(self, context{', ' + sig if sig else ''})", "tag arguments": list(combo), "extra_kwargs": extra},
                                          "expected": f"what the Python call does: {want}", "observed": repr(got)})
        if len(samples) < 2:
            samples.append({"signature": sig})
    return {"n": n, "fails": fails, "samples": samples}


def run(repo, maxlen=3, procs=16):
    import multiprocessing as mp
    ctx = mp.get_context("spawn")
    with ctx.Pool(procs) as pool:
        res = pool.map(shard, [(repo, maxlen, k, procs) for k in range(procs)])
    nsig = len(list(signatures()))
    return {"space": f"{nsig} render signatures (no positional-only parameters: known findings F-C11a/c) x all tag argument lists of length <= {maxlen} over {len(ATOMS)} atoms x 2 extra-kwargs dicts x 2 validators",
            "evaluations": sum(r["n"] for r in res), "failures": [f for r in res for f in r["fails"]][:10], "samples": [s for r in res for s in r["samples"]][:3], "exhaustive": True}


if __name__ == "__main__":
    import json
    print(json.dumps(run(sys.argv[1] if len(sys.argv) > 1 else "/repo", int(sys.argv[2]) if len(sys.argv) > 2 else 3), indent=1)[:5000])
