"""Bounded stand-in for the worklist of _get_comp_cls_media (C16) - never counted as proved.  Every component class hierarchy
with up to N classes (each class: bases = any non-empty ordered subset of at most 2 earlier classes, or Component; its OWN
Media with one unique js file; extend = True | False | [one earlier class]) is built for real, `.media` is read in every
order of first access, and compared with the property: files(c) = own files + files of the bases SELECTED by c's own
Media.extend (all bases / none / the listed classes), recursively, each file once.
Classes without an own Media are excluded (known finding F-C16)."""
import itertools
import os
import sys


def _setup(repo):
    sys.path.insert(0, os.path.join(repo, "src"))
    sys.path.insert(1, repo)
    from django.conf import settings
    if not settings.configured:
        from tests.django_test_setup import setup_test_config
        setup_test_config({"autodiscover": False})


def hierarchies(n):
    """list of class specs: (bases: tuple of earlier indices or (), extend: True | False | ('list', idx))"""
    def options(i):
        earlier = list(range(i))
        base_sets = [()] + [(a,) for a in earlier] + [(a, b) for a in earlier for b in earlier if a != b]
        for bs in base_sets:
            exts = [True, False] + [("list", e) for e in earlier]
            for ex in exts:
                yield (bs, ex)
    def rec(i, acc):
        if i == n:
            yield list(acc)
            return
        for o in options(i):
            acc.append(o)
            yield from rec(i + 1, acc)
            acc.pop()
    yield from rec(0, [])


def expected(specs, i, memo=None):
    memo = {} if memo is None else memo
    if i in memo:
        return memo[i]
    bases, ext = specs[i]
    files = {f"c{i}.js"}
    sel = list(bases) if ext is True else ([] if ext is False else [ext[1]])
    for b in sel:
        files |= expected(specs, b, memo)
    memo[i] = files
    return files


def build(specs, Component):
    classes = []
    for i, (bases, ext) in enumerate(specs):
        bs = tuple(classes[b] for b in bases) or (Component,)
        media_attrs = {"js": [f"c{i}.js"]}
        if ext is False:
            media_attrs["extend"] = False
        elif ext is not True:
            media_attrs["extend"] = [classes[ext[1]]]
        try:
            cls = type(f"H{i}", bs, {"template": "x", "Media": type("Media", (), media_attrs)})
        except TypeError:
            return None         # inconsistent MRO: not a Python class hierarchy
        classes.append(cls)
    return classes


def shard(job):
    repo, n, shard_no, nshards = job
    _setup(repo)
    from django_components import Component
    cnt, fails = 0, []
    for idx, specs in enumerate(hierarchies(n)):
        if idx % nshards != shard_no:
            continue
        orders = [list(range(n)), list(range(n - 1, -1, -1))]
        for order in orders:
            classes = build(specs, Component)
            if classes is None:
                break
            cnt += 1
            got = {}
            try:
                for i in order:
                    got[i] = [str(x) for x in classes[i].media._js]
            except Exception as e:      # noqa: BLE001
                if len(fails) < 5:
                    fails.append({"function": "_get_comp_cls_media", "inputs": {"classes (bases, extend)": specs, "access order": order}, "expected": "media", "observed": f"{type(e).__name__}: {e}"[:200]})
                continue
            for i in range(n):
                want = expected(specs, i)
                if (set(got[i]) != want or len(got[i]) != len(set(got[i]))) and len(fails) < 5:
                    fails.append({"function": "_get_comp_cls_media", "inputs": {"classes (bases, extend)": [list(s) for s in specs], "access order": order, "class": i},
                                  "expected": sorted(want), "observed": got[i]})
                    break
    return {"n": cnt, "fails": fails}


def run(repo, n=3, procs=16):
    import multiprocessing as mp
    ctx = mp.get_context("spawn")
    with ctx.Pool(procs) as pool:
        res = pool.map(shard, [(repo, n, k, procs) for k in range(procs)])
    return {"space": f"all hierarchies of {n} component classes (bases: <= 2 earlier classes; own Media with one file; extend in True / False / [an earlier class]) x 2 orders of first access to .media",
            "evaluations": sum(r["n"] for r in res), "failures": [f for r in res for f in r["fails"]][:8], "exhaustive": True}


if __name__ == "__main__":
    import json
    print(json.dumps(run(sys.argv[1] if len(sys.argv) > 1 else "/repo", int(sys.argv[2]) if len(sys.argv) > 2 else 3), indent=1)[:4000])
