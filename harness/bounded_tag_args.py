"""Bounded stand-in for the whole-tag statement of C02 ("every tag hands its Python receiver exactly the positional and keyword
values its arguments denote") - never counted as proved.  parse_tag, the tag plumbing (resolve_params, flags, aggregation, spreads)
and the hand-over to the receiver are not under contract as a whole.

A real component tag whose receiver records (args, kwargs) is rendered with EVERY argument list of <= `maxlen` distinct atoms
(positional first) out of: literals, variables, filter chains, list / dict literals with spreads, keyword arguments, keyword
values that are variables spelled like a flag (`mode=only`), special-character and aggregate keys, quoted strings with nested
template syntax (also spanning lines), top-level `...` spreads with and without a filter chain - each in three layouts (single
spaces, line breaks, extra blanks) - and compared with the values the arguments denote (Python call semantics, stock Django for
the atoms).  Documented-invalid top-level forms must raise TemplateSyntaxError."""
import itertools
import json
import os
import sys

CTX = {"a": 1, "b": "x<y", "lst": [7, 8], "dct": {"k": "v", "n": 2}, "e": [], "e2": {}, "only": "ONLY-VAR", "deep": "DEEP-VAR", "d3": {"p": 3}}

# (source, kind, payload):  kind "pos" -> one positional value; "kw" -> dict of keyword values; "agg" -> (outer, {inner: value})
ATOMS = [
    ("a", "pos", 1), ("'s t'", "pos", "s t"), ("b|upper", "pos", "X<Y"), ("[a, *lst]", "pos", [1, 7, 8]), ('{"q": a, **dct}', "pos", {"q": 1, "k": "v", "n": 2}),
    ("k1=a", "kw", {"k1": 1}), ("k2='v {{ a }}'", "kw", {"k2": "v 1"}), ("k3='v\n{{ a }} w'", "kw", {"k3": "v\n1 w"}), ("k4=\"{% if a %}y{% endif %}\nz\"", "kw", {"k4": "y\nz"}),
    ("mode=only", "kw", {"mode": "ONLY-VAR"}), ("m2=deep", "kw", {"m2": "DEEP-VAR"}), ("data-z=b", "kw", {"data-z": "x<y"}), ("@ev=e|default:'z'", "kw", {"@ev": "z"}),
    ("x:y=a", "agg", ("x", {"y": 1})), ("x:z='q'", "agg", ("x", {"z": "q"})),
    # a quoted string with nested template syntax FOLLOWED BY A FILTER: the property gives two defensible readings - the nested
    # template is rendered and the filter applied to its output ("1"), or the stock Django reading of a quoted literal with a
    # filter (the characters `{{ a }}`) - both are accepted (ALT); anything else (e.g. filter text leaking into the value) is not
    ("k5=\"{{ a }}\"|default:\"x\"", "kw", {"k5": "1"}),
    ("...dct", "kw", {"k": "v", "n": 2}), ("...d3|default:e2", "kw", {"p": 3}), ("...e2|default:d3", "kw", {"p": 3}), ('...{"lit": a}', "kw", {"lit": 1}),
]
ALT = {"k5": "{{ a }}"}      # second accepted reading of an atom's keyword value
INVALID = ["**dct", "*lst", "k=...dct", "k=a|...b", "[...lst]", "{*lst}", '{"k": **dct}']
LAYOUTS = [" ", "\n", "   "]


def _setup(repo):
    sys.path.insert(0, os.path.join(repo, "src"))
    sys.path.insert(1, repo)
    from django.conf import settings
    if not settings.configured:
        from tests.django_test_setup import setup_test_config
        setup_test_config({"autodiscover": False})


def _plain(v):
    if isinstance(v, (list, tuple)):
        return [_plain(x) for x in v]
    if isinstance(v, dict):
        return {_plain(k): _plain(x) for k, x in v.items()}
    if isinstance(v, str):
        return str(v)
    return v


def denote(combo, alt=False):
    args, kwargs, groups = [], {}, {}
    for _src, kind, payload in combo:
        if kind == "pos":
            args.append(payload)
        elif kind == "kw":
            kwargs.update({k: (ALT[k] if alt and k in ALT else v) for k, v in payload.items()})
        else:
            groups.setdefault(payload[0], {}).update(payload[1])
    kwargs.update(groups)
    return args, kwargs


def worker(job):
    repo, combos, do_invalid = job
    _setup(repo)
    from django.template import Context, Template
    from django.template.exceptions import TemplateSyntaxError
    from django_components import Component, registry
    seen = []

    class Probe(Component):
        template = "x"

        def get_context_data(self, *args, **kwargs):
            seen.append((args, kwargs))
            return {}
    try:
        registry.register("c02probe", Probe)
    except Exception:
        pass
    n, fails = 0, []
    for combo in combos:
        want = denote(combo)
        for lay in LAYOUTS:
            src = "{% load component_tags %}{% component 'c02probe'" + lay + lay.join(a[0] for a in combo) + (lay if combo else " ") + "/ %}"
            n += 1
            seen.clear()
            try:
                Template(src).render(Context(dict(CTX)))
                got = (_plain(seen[-1][0]), _plain(seen[-1][1])) if seen else "receiver not called"
            except Exception as e:      # noqa: BLE001
                got = f"{type(e).__name__}: {e}"[:160]
            if got != (want[0], want[1]) and got != denote(combo, alt=True) and len(fails) < 6:
                fails.append({"input": {"template": src, "context": CTX}, "clause": "the receiver gets exactly the positional and keyword values the arguments denote",
                              "expected": {"args": want[0], "kwargs": want[1]}, "observed": got if isinstance(got, str) else {"args": got[0], "kwargs": got[1]}})
    if do_invalid:
        for bad in INVALID:
            n += 1
            src = "{% load component_tags %}{% component 'c02probe' " + bad + " / %}"
            seen.clear()
            try:
                Template(src).render(Context(dict(CTX)))
                got = f"accepted: receiver got {seen[-1] if seen else None}"
            except TemplateSyntaxError:
                got = None
            except Exception as e:      # noqa: BLE001
                got = f"{type(e).__name__}: {e}"[:160]
            if got is not None and len(fails) < 8:
                fails.append({"input": {"template": src}, "clause": "documented-invalid combinations raise TemplateSyntaxError instead of being re-interpreted", "expected": "TemplateSyntaxError", "observed": got})
    return {"n": n, "fails": fails}


def run(repo, maxlen=3, procs=12):
    import multiprocessing as mp
    order = {"pos": 0, "kw": 1, "agg": 1}
    combos = []
    for k in range(0, maxlen + 1):
        for c in itertools.permutations(ATOMS, k):
            kinds = [order[a[1]] for a in c]
            if kinds != sorted(kinds):
                continue            # positional after keyword is C11's subject
            keys = [key for a in c for key in (a[2] if a[1] == "kw" else ())]
            if len(keys) != len(set(keys)):
                continue            # the same keyword twice (explicitly or through a spread) is not a valid call
            combos.append(c)
    ctx = mp.get_context("spawn")
    with ctx.Pool(procs) as pool:
        res = pool.map(worker, [(repo, combos[k::procs], k == 0) for k in range(procs)])
    return {"space": f"all {len(combos)} argument lists of <= {maxlen} distinct atoms (positional first, no keyword twice) out of {len(ATOMS)} x {len(LAYOUTS)} layouts, plus {len(INVALID)} documented-invalid top-level forms, through a real component tag into get_context_data(*args, **kwargs)",
            "evaluations": sum(r["n"] for r in res), "failures": [f for r in res for f in r["fails"]][:8], "exhaustive": True}


if __name__ == "__main__":
    print(json.dumps(run(sys.argv[1] if len(sys.argv) > 1 else "/repo", int(sys.argv[2]) if len(sys.argv) > 2 else 2), indent=1, default=str)[:7000])
