"""Bounded stand-in for clause 1 of C10 beyond the two patched methods (whose equivalence with stock Django is decided
syntactically) - never counted as proved.  Stock-Django templates generated from a small grammar (for / if / with / filter /
autoescape / firstof / cycle / include / extends + block + block.super, string arguments containing quotes, %} and {{, a
multi-line tag) are rendered over several contexts in TWO processes - stock Django, and Django with django_components installed
(Template patched, AppConfig.ready() run) - and output, exception type and the Context left behind must be identical.
Known finding F-C10a (a tag spanning lines is lexed as a tag once django_components is installed) is tagged by the harness."""
import itertools
import json
import os
import subprocess
import sys

FILES = {
    "base.html": "<B>{% block a %}base-a{% endblock %}|{% block b %}base-b {{ x }}{% endblock %}</B>",
    "part.html": "<p>{{ x|default:'none' }}</p>",
}
ATOMS = [
    "{{ x }}", "{{ x|upper }}", "{{ y.k }}", "{{ missing }}", "{{ s }}", "{{ s|safe }}", "{{ 'lit \"q\"' }}", "{{ \"it's\" }}",
    "{% if x %}T{% else %}F{% endif %}", "{% for i in lst %}[{{ i }}{{ forloop.counter }}]{% empty %}E{% endfor %}",
    "{% with z=x %}{{ z }}{% endwith %}", "{% filter upper %}f{{ x }}{% endfilter %}", "{% autoescape off %}{{ s }}{% endautoescape %}",
    "{% firstof missing x 'd' %}", "{% for i in lst %}{% cycle 'a' 'b' %}{% endfor %}", "{% include 'part.html' %}",
    "{% with t='%} {{ x' %}{{ t }}{% endwith %}", "{% if x == 'a\"b' %}Q{% endif %}", "{% comment %}{{ x }}{% endcomment %}", "{# {{ x }} #}",
    "{% unknown_tag %}", "{{ x|nofilter }}", "{% if %}", "{{ x\n}}", "{%\nif x %}M{% endif %}", "plain < & text",
]
CHILDREN = ["{% extends 'base.html' %}{% block a %}child {{ block.super }}{% endblock %}", "{% extends 'base.html' %}{% block b %}[{{ x }}]{% endblock %}"]
CONTEXTS = [{"x": "v<1>", "lst": [1, 2], "y": {"k": "K"}, "s": "<b>"}, {"x": "", "lst": [], "s": ""}, {}]


def templates():
    for a in ATOMS:
        yield a
    for a, b in itertools.product(ATOMS[:16], repeat=2):
        yield a + "-" + b
    for c in CHILDREN:
        yield c


CHILD = r"""
import json, sys
mode, repo = sys.argv[1], sys.argv[2]
sys.path.insert(0, repo + "/src"); sys.path.insert(1, repo)
from django.conf import settings
apps = ["django_components"] if mode == "patched" else []
files = json.loads(sys.argv[3])
settings.configure(INSTALLED_APPS=apps, SECRET_KEY="x", COMPONENTS={"autodiscover": False} if apps else {},
    TEMPLATES=[{"BACKEND": "django.template.backends.django.DjangoTemplates", "DIRS": [],
                "OPTIONS": {"loaders": [("django.template.loaders.locmem.Loader", files)]}}])
import django
django.setup()
from django.template import Context, engines
eng = engines["django"].engine
progs = json.loads(sys.stdin.read())
out = []
for src, ctxs in progs:
    row = []
    for c in ctxs:
        ctx = Context(dict(c))
        try:
            r = ("ok", eng.from_string(src).render(ctx))
        except Exception as e:
            r = ("error", type(e).__name__)
        row.append([r[0], r[1], [sorted(d.keys()) for d in ctx.dicts]])
    out.append(row)
print(json.dumps(out))
"""


def run(repo):
    progs = [(t, CONTEXTS) for t in templates()]
    res = {}
    for mode in ("stock", "patched"):
        p = subprocess.run(["/venv/bin/python", "-c", CHILD, mode, repo, json.dumps(FILES)], input=json.dumps(progs), capture_output=True, text=True, timeout=600)
        if p.returncode != 0:
            return {"space": "stock templates", "evaluations": 0, "failures": [{"input": mode, "clause": "harness child failed", "observed": p.stderr[-400:]}], "exhaustive": False}
        res[mode] = json.loads(p.stdout.strip().splitlines()[-1])
    fails, known, n = [], [], 0
    for (src, ctxs), a, b in zip(progs, res["stock"], res["patched"]):
        for c, ra, rb in zip(ctxs, a, b):
            if ra[0] == "error" and ra[1] == "TemplateSyntaxError":
                continue        # the property speaks about templates that stock Django ACCEPTS
            n += 1
            if ra != rb:
                rec = {"input": {"template": src, "context": c}, "clause": "output, error and Context identical with and without django_components installed", "expected": ra, "observed": rb}
                if "\n" in src and ("{{ x\n}}" in src or "{%\nif" in src):
                    rec["known_finding"] = "F-C10a-render"
                    known.append(rec)
                else:
                    fails.append(rec)
    return {"space": f"{len(progs)} stock templates (26 atoms incl. quotes / %}} / {{{{ inside string arguments, malformed tags and two multi-line tags; all pairs of the first 16; two extends / block.super children) x {len(CONTEXTS)} contexts, stock Django vs Django with django_components installed, in two processes",
            "evaluations": n, "unexpected_failures": len(fails), "known_finding_failures": len(known), "failures": fails[:5] + known[:1], "exhaustive": True}


if __name__ == "__main__":
    print(json.dumps(run(sys.argv[1] if len(sys.argv) > 1 else "/repo"), indent=1, default=str)[:5000])
