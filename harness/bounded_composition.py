"""Bounded stand-in for clause 2 of C10 (Django's composition tags compose with components by inlining) - never counted as proved.
No function-level contract expresses "renders like the hand-flattened template" (DESIGN section 4), so this clause has no
deductive part at all.  Template FAMILIES are generated from a small grammar - a base template with blocks (one of them inside a
{% fill %} of a component, one inside a component's slot default is not used), a child that {% extends %} it and overrides any
subset of the blocks with or without {{ block.super }}, {% include %}d partials that contain a slot / a component call, and
component templates that are themselves split into base + child - and each family is rendered for real, in both context modes,
next to its HAND-FLATTENED twin (inheritance and inclusion resolved textually by this harness); the two outputs must be equal."""
import itertools
import os
import re
import sys

# node: ("text", s) | ("block", name, [nodes]) | ("super",) | ("include", name) | ("comp", name, {fill: [nodes]} | [nodes] implicit)


def render_src(nodes):
    out = []
    for n in nodes:
        if n[0] == "text":
            out.append(n[1])
        elif n[0] == "block":
            out.append("{% block " + n[1] + " %}" + render_src(n[2]) + "{% endblock %}")
        elif n[0] == "super":
            out.append("{{ block.super }}")
        elif n[0] == "include":
            out.append("{% include '" + n[1] + "' %}")
        elif n[0] == "comp":
            if isinstance(n[2], list):
                out.append("{% component '" + n[1] + "' %}" + render_src(n[2]) + "{% endcomponent %}")
            else:
                out.append("{% component '" + n[1] + "' %}" + "".join("{% fill '" + k + "' %}" + render_src(v) + "{% endfill %}" for k, v in n[2].items()) + "{% endcomponent %}")
    return "".join(out)


def flatten(nodes, overrides, partials):
    """resolve blocks against the child's overrides (name -> nodes that may contain ("super",)) and inline includes"""
    out = []
    for n in nodes:
        if n[0] == "block":
            base_body = flatten(n[2], overrides, partials)
            if n[1] in overrides:
                body = []
                for m in overrides[n[1]]:
                    body += base_body if m[0] == "super" else flatten([m], overrides, partials)
                out += body
            else:
                out += base_body
        elif n[0] == "include":
            out += flatten(partials[n[1]], overrides, partials)
        elif n[0] == "comp":
            fills = n[2]
            out.append(("comp", n[1], flatten(fills, overrides, partials) if isinstance(fills, list) else {k: flatten(v, overrides, partials) for k, v in fills.items()}))
        else:
            out.append(n)
    return out


PARTIALS = {
    "part_slot.html": [("text", "<ps>"), ("comp", "one", {"a": [("text", "in-partial")]}), ("text", "</ps>")],
    "part_text.html": [("text", "<pt>partial</pt>")],
}
COMPONENTS = {
    "one": "<O>{% slot 'a' default %}DA{% endslot %}</O>",
    "incl": "<I>{% include 'comp_part.html' %}</I>",                      # its slot lives in an included partial
    "incl_flat": "<I><cp>{% slot 'a' default %}DP{% endslot %}</cp></I>",
    "ext": "{% extends 'comp_base.html' %}{% block cb %}child[{% slot 'a' default %}DE{% endslot %}]{{ block.super }}{% endblock %}",
    "ext_flat": "<E>child[{% slot 'a' default %}DE{% endslot %}]base-cb</E>",
    "passthru": "<P>{% component 'one' %}{% fill 'a' %}{% slot 'a' default %}DPT{% endslot %}{% endfill %}{% endcomponent %}</P>",
}
FILES = {"comp_part.html": "<cp>{% slot 'a' default %}DP{% endslot %}</cp>", "comp_base.html": "<E>{% block cb %}base-cb{% endblock %}</E>"}
FLAT_TWIN = {"incl": "incl_flat", "ext": "ext_flat"}


def families():
    comps = ["one", "incl", "ext", "passthru"]
    for comp in comps:
        for fill_body in ([("text", "F")], [("text", "F["), ("block", "p", [("text", "base-p")]), ("text", "]")], [("include", "part_text.html")], [("include", "part_slot.html")]):
            call = ("comp", comp, {"a": fill_body})
            bases = [
                [("text", "<B>"), ("block", "x", [("text", "base-x")]), ("text", "|"), call, ("text", "</B>")],
                [("text", "<B>"), ("block", "x", [("text", "pre "), call]), ("text", "</B>")],
                [("text", "<B>"), ("include", "part_text.html"), call, ("block", "x", [("text", "base-x")]), ("text", "</B>")],
            ]
            for base in bases:
                names = sorted({n[1] for n in _blocks(base)})
                for k in range(0, len(names) + 1):
                    for chosen in itertools.combinations(names, k):
                        for with_super in (False, True):
                            overrides = {nm: ([("text", f"child-{nm} ")] + ([("super",)] if with_super else [])) for nm in chosen}
                            yield base, overrides


def _blocks(nodes):
    for n in nodes:
        if n[0] == "block":
            yield n
            yield from _blocks(n[2])
        elif n[0] == "comp":
            for v in ([n[2]] if isinstance(n[2], list) else n[2].values()):
                yield from _blocks(v)


def swap_flat(nodes):
    out = []
    for n in nodes:
        if n[0] == "comp":
            fills = n[2]
            out.append(("comp", FLAT_TWIN.get(n[1], n[1]), swap_flat(fills) if isinstance(fills, list) else {k: swap_flat(v) for k, v in fills.items()}))
        elif n[0] == "block":
            out.append(("block", n[1], swap_flat(n[2])))
        else:
            out.append(n)
    return out


def worker(job):
    repo, mode, fams = job
    sys.path.insert(0, os.path.join(repo, "src"))
    sys.path.insert(1, repo)
    from tests.django_test_setup import setup_test_config
    TEMPLATES = {}
    setup_test_config({"autodiscover": False, "context_behavior": mode}, extra_settings={"TEMPLATES": [{
        "BACKEND": "django.template.backends.django.DjangoTemplates", "DIRS": [],
        "OPTIONS": {"builtins": ["django_components.templatetags.component_tags"], "loaders": [("django.template.loaders.locmem.Loader", TEMPLATES)]}}]})
    from django.template import Context
    from django.template.loader import get_template
    from django_components import Component, registry
    TEMPLATES.update(FILES)
    for nm, nodes in PARTIALS.items():
        TEMPLATES[nm] = render_src(nodes)
    for nm, tpl in COMPONENTS.items():
        registry.register(nm, type("K" + nm, (Component,), {"template": tpl}))
    rx = [re.compile(r"<!--\s*_RENDERED[^>]*-->"), re.compile(r'\s+data-djc-[\w-]+(="[^"]*")?')]

    def norm(s):
        for r in rx:
            s = r.sub("", s)
        return s
    n, fails = 0, []
    for idx, (base, overrides) in enumerate(fams):
        TEMPLATES[f"base_{idx}.html"] = render_src(base)
        TEMPLATES[f"child_{idx}.html"] = "{% extends 'base_" + str(idx) + ".html' %}" + "".join("{% block " + k + " %}" + render_src(v) + "{% endblock %}" for k, v in overrides.items())
        flat = swap_flat(flatten(base, overrides, PARTIALS))
        TEMPLATES[f"flat_{idx}.html"] = render_src(flat)
        n += 1
        outs = {}
        for which in ("child", "flat"):
            try:
                outs[which] = norm(get_template(f"{which}_{idx}.html").render({}))
            except Exception as e:      # noqa: BLE001
                outs[which] = f"{type(e).__name__}: {e}"[:200]
        if outs["child"] != outs["flat"] and len(fails) < 5:
            fails.append({"input": {"mode": mode, "base": TEMPLATES[f"base_{idx}.html"], "child": TEMPLATES[f"child_{idx}.html"], "hand-flattened": TEMPLATES[f"flat_{idx}.html"]},
                          "clause": "the family renders exactly like the hand-flattened template", "expected": outs["flat"], "observed": outs["child"]})
    return {"n": n, "fails": fails}


def run(repo, procs=16):
    import multiprocessing as mp
    fams = list(families())
    jobs = []
    for mode in ("django", "isolated"):
        k = max(1, procs // 2)
        for s in range(k):
            jobs.append((repo, mode, fams[s::k]))
    ctx = mp.get_context("spawn")
    with ctx.Pool(procs) as pool:
        res = pool.map(worker, jobs)
    from harness.composition_scenarios import run as run_scenarios
    scn = run_scenarios(repo)
    allf = [f for r in res for f in r["fails"]] + scn["fails"]
    unexpected = [f for f in allf if not f.get("known_finding")]
    known = [f for f in allf if f.get("known_finding")]
    firsts = []
    for fid in sorted({f["known_finding"] for f in known}):
        firsts += [f for f in known if f["known_finding"] == fid][:1]
    return {"unexpected_failures": len(unexpected), "known_finding_failures": len(known), "failures": unexpected[:6] + firsts, "failures_shown": "unexpected first, then one witness per known finding",
            "scenario_evaluations": scn["n"],
            "space": f"all {len(fams)} template families (4 components incl. one whose slot sits in an {{% include %}}d partial, one whose template {{% extends %}} a base, one that passes its slot through; 4 fill bodies incl. a block inside the fill and included partials; 3 base layouts; every subset of overridden blocks with / without block.super) x 2 context modes, each next to its hand-flattened twin; plus 4 hand-written scenario groups ({scn['n']} renders incl. controls: a block name shared by page and component family, a block inside slot default content, block.super inside a fill of a nested component, a stock template used plainly after a component obtained it through get_template_name - the known findings F-C10b..e)",
            "evaluations": sum(r["n"] for r in res) + scn["n"], "exhaustive": True}


if __name__ == "__main__":
    import json
    print(json.dumps(run(sys.argv[1] if len(sys.argv) > 1 else "/repo"), indent=1, default=str)[:6000])
