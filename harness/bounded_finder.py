"""Bounded stand-in for the whole statement of C17 (ComponentsFileSystemFinder.list / find and their loops over locations are
not under contract) - never counted as proved.  A real components directory with files of 14 names (allowed and forbidden
suffixes, look-alikes such as a.tarxgz / x.jsx / x.py.js / y.js.py, upper-case suffixes, a file ending in a newline, nested
directories) is served through the real finder under 4 configurations of static_files_allowed / static_files_forbidden (the
defaults, suffix strings with several dots, compiled patterns, an empty allowed list); list() and find() must expose exactly the
files whose path ends with an allowed entry (or matches an allowed pattern) and with no forbidden one."""
import os
import re
import shutil
import sys
import tempfile

FILES = ["a.js", "a.css", "a.py", "a.html", "sub/b.js", "sub/b.pyc", "c.tar.gz", "c.tarxgz", "d.jsx", "e.py.js", "f.js.py", "g.JS", "h.png", "sub/deep/i.svg"]

CONFIGS = {
    "defaults": None,
    "multi-dot suffixes": {"static_files_allowed": [".tar.gz", ".js"], "static_files_forbidden": [".py.js"]},
    "compiled patterns": {"static_files_allowed": [re.compile(r"\.(js|css)$"), ".svg"], "static_files_forbidden": [re.compile(r"/sub/")]},
    "nothing allowed": {"static_files_allowed": [], "static_files_forbidden": []},
}


def hit(entry, path):
    return path.endswith(entry) if isinstance(entry, str) else entry.search(path) is not None


def run_config(args):
    repo, label = args
    root = tempfile.mkdtemp(prefix="djc-verif-c17-", dir=os.environ.get("TMPDIR"))
    try:
        comp = os.path.join(root, "components")
        for rel in FILES:
            p = os.path.join(comp, rel)
            os.makedirs(os.path.dirname(p), exist_ok=True)
            open(p, "w").close()
        sys.path.insert(0, os.path.join(repo, "src"))
        sys.path.insert(1, repo)
        from django.conf import settings
        conf = {"autodiscover": False, "dirs": [comp]}
        if CONFIGS[label]:
            conf.update(CONFIGS[label])
        settings.configure(BASE_DIR=root, INSTALLED_APPS=["django.contrib.staticfiles", "django_components"], COMPONENTS=conf, STATIC_URL="/static/", SECRET_KEY="x",
                           TEMPLATES=[{"BACKEND": "django.template.backends.django.DjangoTemplates", "DIRS": [], "APP_DIRS": True}])
        import django
        django.setup()
        from django_components.app_settings import app_settings
        from django_components.finders import ComponentsFileSystemFinder
        allowed, forbidden = app_settings.STATIC_FILES_ALLOWED, app_settings.STATIC_FILES_FORBIDDEN
        finder = ComponentsFileSystemFinder()
        listed = sorted(p for p, _s in finder.list([]))
        want = sorted(rel for rel in FILES if any(hit(a, os.path.join(comp, rel)) for a in allowed) and not any(hit(f, os.path.join(comp, rel)) for f in forbidden))
        fails = []
        want_listed = sorted(rel for rel in FILES if any(hit(a, rel) for a in allowed) and not any(hit(f, rel) for f in forbidden))
        if listed != want_listed:
            fails.append({"input": {"configuration": label, "files": FILES}, "clause": "list() exposes exactly the allowed, not forbidden files", "expected": want_listed, "observed": listed})
        n = 1
        for rel in FILES:
            n += 1
            got = finder.find(rel)
            exp = os.path.join(comp, rel) if rel in want else []
            if got != exp and len(fails) < 4:
                fails.append({"input": {"configuration": label, "find": rel}, "clause": "find() returns a file exactly when it is allowed and not forbidden", "expected": exp, "observed": got})
        return {"n": n, "fails": fails}
    finally:
        shutil.rmtree(root, ignore_errors=True)


def run(repo):
    import multiprocessing as mp
    ctx = mp.get_context("spawn")
    with ctx.Pool(len(CONFIGS)) as pool:
        res = pool.map(run_config, [(repo, label) for label in CONFIGS])
    return {"space": f"{len(FILES)} files x {len(CONFIGS)} configurations of static_files_allowed / static_files_forbidden ({', '.join(CONFIGS)}); list() once and find() per file",
            "evaluations": sum(r["n"] for r in res), "failures": [f for r in res for f in r["fails"]][:6], "exhaustive": True}


if __name__ == "__main__":
    import json
    print(json.dumps(run(sys.argv[1] if len(sys.argv) > 1 else "/repo"), indent=1, default=str)[:5000])
