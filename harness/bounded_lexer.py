"""Bounded stand-in for the end-to-end statement of C09 (the deductive part trusts the stock DebugLexer and assumes A-RE-ESC, and
does not compare the verbatim interaction with stock) - never counted as proved.

Every source assembled from <= `maxlen` pieces out of text runs, newlines, {{ }}, {# #}, {% %} tags with quoted strings (both
quote kinds, backslash escapes before quotes / backslashes, embedded `%}` / `}}` / newlines), multi-line tags, verbatim blocks,
stray quotes and unterminated constructs is lexed by the real parse_template and compared with a reference lexer written from the
property: the stock lexer (django.template.base.Lexer semantics re-stated here: tag_re alternation, verbatim state, contents =
span without delimiters, stripped) in which a block tag that contains a quote ends at the first `%}` outside every quoted string
of that tag; spans contiguous from 0 and covering the text, line = 1 + newlines before the start."""
import itertools
import json
import os
import sys

import re

VERBATIM_WITH_QUOTE = re.compile(r"""\{%\s*verbatim\b[^%]*?['"]""")
PIECES = ["a", "\n", " ", "{{ v }}", "{# c #}", "{% t %}", '{% t "s" %}', "{% t 's' %}", '{% t "a %} b" %}', "{% t 'a %} b' %}",
          '{% t "a\\" %} b" %}', "{% t 'a\\' %} b' %}", '{% t "x\\\\" %}', '{% t "a }} b" %}', '{% t "a\nb" %}', "{% t\n x %}", '{% t "un %}',
          "{% t 'un %}", "{% un", "{{ un", '"', "'", "%}", "\\", "{% verbatim %}", "{% endverbatim %}", '{% t "a" \'b %} c\' %}', '{% t "it\'s" %}',
          '{% t "say \\"hi %}" %}', '{% t k="1" j=\'2\' %}', '{% verbatim "x" %}', '{% endverbatim "x" %}', "{% verbatim b %}", "{% endverbatim b %}"]


def _find_tag(text, pos):
    """first match of the library's tag_re ({%.*?%}|{{.*?}}|{#.*?#}, DOTALL) at or after pos: (start, end) or None"""
    best = None
    i = pos
    n = len(text)
    while i < n - 1:
        two = text[i:i + 2]
        close = {"{%": "%}", "{{": "}}", "{#": "#}"}.get(two)
        if close is not None:
            j = text.find(close, i + 2)
            if j != -1:
                return (i, j + 2)
        i += 1
    return best


def _quote_aware_end(text, start):
    """end (exclusive) of the block tag starting at `start`: after the first `%}` outside every quoted string; None if there is none"""
    i = start + 2
    quote = None
    n = len(text)
    while i < n:
        ch = text[i]
        if quote is None:
            if ch in "'\"":
                quote = ch
            elif text.startswith("%}", i):
                return i + 2
            i += 1
        else:
            if ch == "\\" and i + 1 < n:
                i += 2
            elif ch == quote:
                quote = None
                i += 1
            else:
                i += 1
    return None


def reference(text):
    """list of (type, contents, start, end, lineno), or 'TemplateSyntaxError'"""
    out = []
    pos = 0
    verbatim = None
    n = len(text)

    def emit(kind, contents, a, b):
        out.append((kind, contents, a, b, 1 + text.count("\n", 0, a)))
    while pos < n:
        m = _find_tag(text, pos)
        if m is None:
            emit("TEXT", text[pos:], pos, n)
            break
        a, b = m
        if a > pos:
            emit("TEXT", text[pos:a], pos, a)
        tok = text[a:b]
        if tok.startswith("{%"):
            content = tok[2:-2].strip()
            if verbatim is not None and content != verbatim:
                emit("TEXT", tok, a, b)
                pos = b
                continue
            if "'" in content or '"' in content:
                e = _quote_aware_end(text, a)
                if e is None:
                    return "TemplateSyntaxError"
                b = e
                tok = text[a:b]
                content = tok[2:-2].strip()
            if verbatim is not None and content == verbatim:
                verbatim = None
            elif verbatim is None and (content[:9] in ("verbatim", "verbatim ")):
                verbatim = "end%s" % content
            emit("BLOCK", content, a, b)
        elif verbatim is not None:
            emit("TEXT", tok, a, b)
        elif tok.startswith("{{"):
            emit("VAR", tok[2:-2].strip(), a, b)
        else:
            emit("COMMENT", tok[2:-2].strip(), a, b)
        pos = b
    return out


def worker(job):
    repo, texts = job
    sys.path.insert(0, os.path.join(repo, "src"))
    sys.path.insert(1, repo)
    from django.conf import settings
    if not settings.configured:
        from tests.django_test_setup import setup_test_config
        setup_test_config({"autodiscover": False})
    from django.template.exceptions import TemplateSyntaxError
    from django_components.util.template_parser import parse_template
    n, fails, known = 0, [], []
    for text in texts:
        n += 1
        want = reference(text)
        try:
            toks = parse_template(text)
            got = [(t.token_type.name, t.contents, t.position[0], t.position[1], t.lineno) for t in toks]
        except TemplateSyntaxError:
            got = "TemplateSyntaxError"
        except Exception as e:
            got = f"{type(e).__name__}: {e}"
        if got != want:
            f = {"input": {"text": text}, "clause": "token stream = stock lexer's, except that a block tag with quotes ends at the first %} outside its strings; spans partition the text; line = 1 + newlines before",
                 "expected": want if isinstance(want, str) else [list(t) for t in want][:8], "observed": got if isinstance(got, str) else [list(t) for t in got][:8]}
            if VERBATIM_WITH_QUOTE.search(text):
                # F-C09a: the verbatim state of Django's lexer is lost when lexing restarts after a quoted `{% verbatim "x" %}` tag
                f["known_finding"] = "F-C09a"
                known.append(f)
            elif len(fails) < 6:
                fails.append(f)
    return {"n": n, "fails": fails, "known": len(known), "known_first": known[:1]}


def run(repo, maxlen=3, procs=8):
    import multiprocessing as mp
    texts = ["".join(c) for k in range(0, maxlen + 1) for c in itertools.product(PIECES, repeat=k)]
    texts = list(dict.fromkeys(texts))
    ctx = mp.get_context("spawn")
    with ctx.Pool(procs) as pool:
        res = pool.map(worker, [(repo, texts[k::procs]) for k in range(procs)])
    return {"space": f"all {len(texts)} distinct sources of <= {maxlen} pieces out of {len(PIECES)} (text, newline, {{{{ }}}}, {{# #}}, block tags with quoted strings incl. escapes and embedded %}} / }}}} / newlines, multi-line tags, verbatim, stray quotes, unterminated constructs)",
            "evaluations": sum(r["n"] for r in res), "unexpected_failures": sum(len(r["fails"]) for r in res), "known_finding_failures": sum(r["known"] for r in res),
            "failures": [f for r in res for f in r["fails"]][:8] + [f for r in res for f in r["known_first"]][:1], "exhaustive": True}


if __name__ == "__main__":
    print(json.dumps(run(sys.argv[1] if len(sys.argv) > 1 else "/repo", int(sys.argv[2]) if len(sys.argv) > 2 else 3), indent=1)[:6000])
