"""Bounded stand-in for the program-level statement of C19 - never counted as proved.

(1) Histories: every sequence of <= `maxlen` steps over {render component X in document mode, render X in fragment mode, clear the
media cache} for generated components (js only, css only, both, neither, both with equal js/css data, both with different data);
after the LAST render every URL that render emitted (the base64 lists of the data-djc script: loaded and to-load, and the src/href
of inlined tags) is fetched with django's test client from the library's own urlconf and must come back 200 with exactly that
component's stripped JS / CSS (the variables script is the empty text in this version) and the matching content type.
(2) Request paths: every path built from {known, unknown} class hash x kinds {js, css, unknown, upper-case, kind with an input
hash glued on by ':' or '.'} x input hashes {absent, a cached one, an unknown one} x methods {GET, POST, HEAD, PUT}: GET of an
emitted URL is 200, unknown hash / kind / input is 404, every non-GET is 405, never a 5xx and never another component's code."""
import base64
import itertools
import json
import os
import re
import sys

KINDS = {
    "J": dict(js="console.log('J');  "),
    "C": dict(css="  .c { color: red; }"),
    "B": dict(js="console.log('B')", css=".b { color: blue; }"),
    "N": dict(),
    "E": dict(js="console.log('E')", css=".e {}", js_data={"a": 1}, css_data={"a": 1}),       # equal data -> equal input hashes
    "D": dict(js="console.log('D')", css=".d {}", js_data={"a": 1}, css_data={"b": 2}),
}


def _setup(repo):
    sys.path.insert(0, os.path.join(repo, "src"))
    sys.path.insert(1, repo)
    from django.conf import settings
    if not settings.configured:
        from tests.django_test_setup import setup_test_config
        setup_test_config({"autodiscover": False})


def _classes():
    from django_components import Component
    out = {}
    for name, spec in KINDS.items():
        ns = {"template": f"<div>{name}</div>"}
        if "js" in spec:
            ns["js"] = spec["js"]
        if "css" in spec:
            ns["css"] = spec["css"]
        if "js_data" in spec:
            ns["get_js_data"] = (lambda d: lambda self, *a, **k: d)(spec["js_data"])
            ns["get_css_data"] = (lambda d: lambda self, *a, **k: d)(spec["css_data"])
        out[name] = type(f"Url{name}", (Component,), ns)
    return out


def _emitted_urls(html):
    urls = []
    for m in re.finditer(r'<script type="application/json" data-djc>(.*?)</script>', html, re.S):
        data = json.loads(m.group(1))
        for k in ("loadedCssUrls", "loadedJsUrls"):
            urls += [base64.b64decode(x).decode() for x in data[k]]
        for k in ("toLoadCssTags", "toLoadJsTags"):
            for tag in data[k]:
                tag = base64.b64decode(tag).decode()
                urls += re.findall(r'(?:src|href)="([^"]+)"', tag)
    urls += re.findall(r'<script src="([^"]+)"', html) + re.findall(r'<link href="([^"]+)"', html)
    return sorted({u for u in urls if "/cache/" in u})


def _expect(url, classes):
    """what the property says this URL serves: (content type, body) or None if it is not a URL of one of our classes"""
    m = re.fullmatch(r"/components/cache/([^./]+)\.(?:([^./]+)\.)?([^./]+)", url)
    if not m:
        return None
    h, inp, kind = m.groups()
    for cls in classes.values():
        if cls._class_hash == h and kind in ("js", "css"):
            body = "" if inp else (getattr(cls, kind) or "").strip()
            return ("text/javascript" if kind == "js" else "text/css", body)
    return None


def worker(job):
    repo, seqs, do_paths = job
    _setup(repo)
    from django.test import Client
    from django_components.cache import get_component_media_cache
    classes = _classes()
    client = Client(raise_request_exception=False)
    n, fails = 0, []
    for seq in seqs:
        get_component_media_cache().clear()
        last = None
        err = None
        for step in seq:
            if step == "clear":
                get_component_media_cache().clear()
                continue
            name, mode = step
            try:
                last = (step, classes[name].render(type=mode))
            except Exception as e:          # a render must not fail because of what preceded it
                err = f"{type(e).__name__}: {e}"
                break
        n += 1
        if err:
            if len(fails) < 4:
                fails.append({"input": {"history": [list(s) if isinstance(s, tuple) else s for s in seq]}, "clause": "renders succeed whatever preceded them",
                              "expected": "a rendered page", "observed": err})
            continue
        if last is None:
            continue
        for url in _emitted_urls(last[1]):
            want = _expect(url, classes)
            r = client.get(url)
            got = (r.status_code, r.get("Content-Type", "").split(";")[0], r.content.decode())
            if want is None or got != (200, want[0], want[1]):
                if len(fails) < 4:
                    fails.append({"input": {"history": [list(s) if isinstance(s, tuple) else s for s in seq], "GET": url},
                                  "clause": "every emitted URL is served with that component's code and content type",
                                  "expected": [200, *want] if want else "a URL of the rendered component", "observed": list(got)})
    if do_paths:
        # two DISTINCT classes with the same module and qualified name (a class factory called twice): known finding F-C19a
        def factory(js_):
            class UrlTwin(Component):
                template = "<div>t</div>"
                js = js_
            return UrlTwin
        from django_components import Component
        get_component_media_cache().clear()
        t1, t2 = factory("console.log('first')"), factory("console.log('second')")
        t1.render(type="fragment")
        for url in _emitted_urls(t2.render(type="fragment")):
            n += 1
            r = client.get(url)
            if r.content.decode() != "console.log('second')":
                fails.append({"input": {"history": "class factory called twice (same module and qualified name, different js); fragment render of the first class, then of the second", "GET": url},
                              "clause": "every emitted URL is served with that component's code - never another component's",
                              "expected": [200, "text/javascript", "console.log('second')"], "observed": [r.status_code, r.get("Content-Type", ""), r.content.decode()],
                              "known_finding": "F-C19a"})
        get_component_media_cache().clear()
        for name in classes:
            classes[name].render(type="fragment")
        known = {name: cls._class_hash for name, cls in classes.items()}
        e_html = classes["E"].render(type="fragment")
        cached_inputs = sorted({m for m in re.findall(r",([0-9a-f]{6})?,([0-9a-f]{6})? -->", classes["E"].render(render_dependencies=False))[0] if m})
        inputs = [None] + cached_inputs + ["ffffff"]
        kinds = ["js", "css", "zz", "JS", "Css", "json"] + [f"js:{i}" for i in cached_inputs] + [f"css:{i}" for i in cached_inputs] + ["js:", "css:x"]
        for hname, h in list(known.items()) + [("?", "Nope_000000"), ("?", "UrlB_zzzzzz")]:
            for kind in kinds:
                for inp in inputs:
                    url = f"/components/cache/{h}.{inp}.{kind}" if inp else f"/components/cache/{h}.{kind}"
                    for method in ("get", "post", "head", "put"):
                        n += 1
                        r = getattr(client, method)(url)
                        body = r.content.decode(errors="replace")
                        if method != "get":
                            ok, want = r.status_code == 405, 405
                        else:
                            cls = classes.get(hname)
                            src = (getattr(cls, kind, None) or "").strip() if cls is not None and kind in ("js", "css") else ""
                            if cls is None or kind not in ("js", "css") or not src:
                                ok, want = r.status_code == 404, 404
                            elif inp is None:
                                ok, want = (r.status_code == 200 and body == src and r.get("Content-Type", "").startswith("text/javascript" if kind == "js" else "text/css")), 200
                            else:
                                # an input hash: served (empty variables script) only if this component cached it, else 404; never a 5xx
                                ok, want = r.status_code in (200, 404) and (r.status_code == 404 or body == ""), "200 (that input's script) or 404"
                                if inp == "ffffff":
                                    ok, want = r.status_code == 404, 404
                        if not ok and len(fails) < 8:
                            fails.append({"input": {"method": method.upper(), "path": url, "after": "one fragment render of each generated component"},
                                          "clause": "unknown hashes / kinds give 404, non-GET 405, never a server error or another component's code",
                                          "expected": want, "observed": [r.status_code, body[:80]]})
    return {"n": n, "fails": fails}


def run(repo, maxlen=3, procs=8):
    import multiprocessing as mp
    steps = [(name, mode) for name in KINDS for mode in ("document", "fragment")] + ["clear"]
    seqs = [s for k in range(1, maxlen + 1) for s in itertools.product(steps, repeat=k) if s[-1] != "clear"]
    if maxlen >= 3:
        # length 3: only histories whose last render is of a component with data hooks or both kinds (the interesting interactions)
        seqs = [s for s in seqs if len(s) < 3 or s[-1][0] in ("E", "D", "B")]
    ctx = mp.get_context("spawn")
    with ctx.Pool(procs) as pool:
        res = pool.map(worker, [(repo, seqs[k::procs], k == 0) for k in range(procs)])
    allf = [f for r in res for f in r["fails"]]
    unexpected = [f for f in allf if not f.get("known_finding")]
    known = [f for f in allf if f.get("known_finding")]
    return {"unexpected_failures": len(unexpected), "known_finding_failures": len(known), "failures": unexpected[:8] + known[:1],
            "space": f"all {len(seqs)} histories of <= {maxlen} steps over 6 generated component classes x document / fragment render + media-cache clear (length {maxlen}: last render of a class with both kinds), every emitted URL fetched; plus every request path over 8 class hashes x 10 kinds (incl. a kind with a cached input hash glued on) x 3 input hashes x 4 methods; plus one scenario with two distinct classes of the same qualified name (known finding F-C19a)",
            "evaluations": sum(r["n"] for r in res), "exhaustive": True}


if __name__ == "__main__":
    print(json.dumps(run(sys.argv[1] if len(sys.argv) > 1 else "/repo", int(sys.argv[2]) if len(sys.argv) > 2 else 3), indent=1))
