"""Bounded stand-in for C12 / C02 (never counted as proved): exhaustive enumeration of `parse_tag` over every string up to
a stated length over the syntax-relevant alphabet.  Checked clauses (concrete contract of the real function):
  (1) the call returns or raises TemplateSyntaxError - no other exception type;
  (2) it terminates (a per-shard alarm turns a hang into a reported failure);
(The serialise / re-parse clause is checked on the documented grammar only: harness/grammar_tags.py.)
"""
import itertools
import os
import signal
import sys
import time

ALPHABET = list("'\"[]{}:,|=*._()\\ a")
# second, shorter sweep with the other whitespace characters a tag can contain (ASCII and non-ASCII)
EXTRA_WS = ["\n", "\t", "\xa0", "\u2028"]


def _setup(repo):
    sys.path.insert(0, os.path.join(repo, "src"))
    sys.path.insert(1, repo)
    from django.conf import settings
    if not settings.configured:
        from tests.django_test_setup import setup_test_config
        setup_test_config({"autodiscover": False})


class Hang(Exception):
    pass


def _alarm(signum, frame):
    raise Hang()


def shard(args):
    repo, maxlen, shard_no, nshards, per_call_s = args[:5]
    alphabet = args[5] if len(args) > 5 else ALPHABET
    _setup(repo)
    from django.template.exceptions import TemplateSyntaxError
    from django_components.util.tag_parser import parse_tag
    signal.signal(signal.SIGALRM, _alarm)
    n = accepted = 0
    fails = []
    samples = []
    cur = None
    t0 = time.time()
    try:
        for L in range(0, maxlen + 1):
            for idx, tup in enumerate(itertools.product(alphabet, repeat=L)):
                if idx % nshards != shard_no:
                    continue
                s = "c " + "".join(tup)
                cur = s
                n += 1
                signal.setitimer(signal.ITIMER_REAL, per_call_s)
                try:
                    tag, attrs = parse_tag(s, None)
                    accepted += 1
                    if len(samples) < 3 and L == maxlen:
                        samples.append({"input": s, "accepted_as": [a.serialize() for a in attrs]})
                except TemplateSyntaxError:
                    pass
                except Hang:
                    fails.append({"input": s, "clause": f"no answer within {per_call_s}s (hang)"})
                    break
                except Exception as e:
                    if len(fails) < 5:
                        fails.append({"input": s, "clause": "exception other than TemplateSyntaxError", "observed": f"{type(e).__name__}: {e}"[:200]})
                finally:
                    signal.setitimer(signal.ITIMER_REAL, 0)
    finally:
        signal.setitimer(signal.ITIMER_REAL, 0)
    return {"n": n, "accepted": accepted, "fails": fails, "samples": samples, "wall": time.time() - t0}


def run(repo, maxlen, procs=16, per_call_s=5.0):
    import multiprocessing as mp
    ctx = mp.get_context("spawn")
    with ctx.Pool(procs) as pool:
        res = pool.map(shard, [(repo, maxlen, k, procs, per_call_s) for k in range(procs)])
        res += pool.map(shard, [(repo, max(1, maxlen - 1), k, procs, per_call_s, ALPHABET + EXTRA_WS) for k in range(procs)])
    out = {"space": f"all strings 'c ' + w, w over the {len(ALPHABET)} symbols {''.join(ALPHABET)!r}, |w| <= {maxlen}; and over those plus {EXTRA_WS!r}, |w| <= {max(1, maxlen - 1)}",
           "evaluations": sum(r["n"] for r in res), "accepted": sum(r["accepted"] for r in res),
           "failures": [f for r in res for f in r["fails"]][:10], "samples": [s for r in res for s in r["samples"]][:5],
           "exhaustive": True, "max_len": maxlen}
    return out


if __name__ == "__main__":
    import json
    print(json.dumps(run(sys.argv[1] if len(sys.argv) > 1 else "/repo", int(sys.argv[2]) if len(sys.argv) > 2 else 4), indent=1)[:3000])
