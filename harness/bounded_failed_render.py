"""Bounded stand-in for C06 at the level of a whole render (Component._render_impl / component_post_render are not under
contract) - never counted as proved.  A user callback raises at every site a render offers (get_context_data, template code,
on_render_before, on_render_after, fill content) in a component at the root, nested in a template, or nested in a fill, with and
without an enclosing {% provide %}, in both context modes; after the exception (and after a successful control render) the
module-level registries, the caller's Context layers and its render_context depth must be as before the render.

Region of the known finding F-C06a (tagged, reported as KNOWN-FINDING): what is left behind is ONLY entries of
component_context_cache and / or one render_context layer.  Region of F-C06b: the failure comes in a sibling AFTER a completed
{% provide %} block whose consumers still wait for their deferred render, and what is left behind is only entries of the provide
registries, of component_renderer_cache and of component_context_cache.  Anything else left behind is a violation."""
import gc
import itertools
import os
import sys


def _setup(repo, mode):
    sys.path.insert(0, os.path.join(repo, "src"))
    sys.path.insert(1, repo)
    from tests.django_test_setup import setup_test_config
    setup_test_config({"autodiscover": False, "context_behavior": mode})


SITES = ["none", "get_context_data", "template", "on_render_before", "on_render_after", "fill"]
PLACES = ["root", "child_in_template", "child_in_fill"]


def run_mode(args):
    repo, mode = args
    _setup(repo, mode)
    from django import template as djt
    from django.template import Context, Template, engines
    from django_components import Component, registry
    import django_components.component as comp
    import django_components.perfutil.component as pc
    import django_components.perfutil.provide as pv

    lib = djt.Library()

    @lib.simple_tag
    def boom():
        raise KeyError("boom in template code")
    engines.all()[0].engine.template_libraries["c06boom"] = lib
    LOAD = "{% load component_tags c06boom %}"

    def make(site):
        class Failing(Component):
            template = LOAD + ("<i>{% boom %}</i>" if site == "template" else "<i>{% slot 's' default / %}</i>")

            def get_context_data(self, **kw):
                if site == "get_context_data":
                    raise KeyError("boom in get_context_data")
                return {}

            def on_render_before(self, context, template):
                if site == "on_render_before":
                    raise KeyError("boom in on_render_before")

            def on_render_after(self, context, template, content):
                if site == "on_render_after":
                    raise KeyError("boom in on_render_after")
        return Failing

    class Wrap(Component):
        template = LOAD + "<w>{% component 'c06_failing' %}{% if fill_fails %}{% boom %}{% endif %}{% endcomponent %}</w>"

        def get_context_data(self, fill_fails=False):
            return {"fill_fails": fill_fails}

    class Holder(Component):
        template = LOAD + "<h>{% slot 'body' default / %}</h>"

    for nm, cls in (("c06_wrap", Wrap), ("c06_holder", Holder)):
        if nm in registry.all():
            registry.unregister(nm)
        registry.register(nm, cls)

    def state(ctx):
        return {"component_context_cache": sorted(comp.component_context_cache), "component_renderer_cache": sorted(pc.component_renderer_cache),
                "child_component_attrs": sorted(pc.child_component_attrs), "provide_cache": sorted(pv.provide_cache),
                "provide_references": sorted(pv.provide_references), "all_reference_ids": sorted(pv.all_reference_ids),
                "context.dicts": [sorted(d) for d in ctx.dicts], "render_context depth": len(ctx.render_context.dicts)}

    n, fails, known = 0, [], []
    for site, place, provide in itertools.product(SITES, PLACES, (False, True)):
        if "c06_failing" in registry.all():
            registry.unregister("c06_failing")
        registry.register("c06_failing", make(site))
        fill = "{% boom %}" if site == "fill" else "f"
        inner = "{% component 'c06_failing' %}" + fill + "{% endcomponent %}"
        if place == "root":
            body = inner
        elif place == "child_in_template":
            body = "{% component 'c06_wrap' " + ("fill_fails=True " if site == "fill" else "") + "/ %}"
        else:
            body = "{% component 'c06_holder' %}" + inner + "{% endcomponent %}"
        if provide:
            body = "{% provide 'k' a=1 %}" + body + "{% endprovide %}"
        ctx = Context({"page": 1})
        before = state(ctx)
        raised = None
        try:
            Template(LOAD + body).render(ctx)
        except KeyError as e:
            raised = str(e)
        except Exception as e:      # noqa: BLE001
            raised = f"{type(e).__name__}: {e}"[:120]
        gc.collect()
        after = state(ctx)
        n += 1
        left = {k: (before[k], after[k]) for k in before if before[k] != after[k]}
        inp = {"mode": mode, "raise in": site, "failing component": place, "inside provide": provide}
        if site != "none" and raised is None:
            fails.append({"input": inp, "clause": "the user's exception did not propagate", "observed": "render returned"})
        elif site == "none" and raised is not None:
            fails.append({"input": inp, "clause": "control render failed", "observed": raised})
        elif left:
            rec = {"input": inp, "clause": "state left behind after the render", "observed": {k: {"before": v[0], "after": v[1]} for k, v in left.items()}}
            if site != "none" and set(left) <= {"component_context_cache", "render_context depth"}:
                rec["known_finding"] = "F-C06a"
                known.append(rec)
            else:
                fails.append(rec)
        # clean up what the library left, so that scenarios stay independent
        for reg_ in (comp.component_context_cache, pc.component_renderer_cache, pc.child_component_attrs, pv.provide_cache, pv.provide_references):
            reg_.clear()
        pv.all_reference_ids.clear()
    # failure in a SIBLING that comes after a completed {% provide %} block whose consumers wait for their deferred render
    class Consumer(Component):
        template = "[{{ v }}]"

        def get_context_data(self):
            return {"v": self.inject("k").a}
    if "c06_consumer" in registry.all():
        registry.unregister("c06_consumer")
    registry.register("c06_consumer", Consumer)
    if "c06_failing" in registry.all():
        registry.unregister("c06_failing")
    registry.register("c06_failing", make("get_context_data"))
    for wrapped, consumers in itertools.product((False, True), (1, 2)):
        body = "{% provide 'k' a=1 %}" + "{% component 'c06_consumer' / %}" * consumers + "{% endprovide %}{% component 'c06_failing' / %}"
        if wrapped:
            body = "{% component 'c06_holder' %}" + body + "{% endcomponent %}"
        ctx = Context({"page": 1})
        before = state(ctx)
        try:
            Template(LOAD + body).render(ctx)
            raised = None
        except Exception as e:      # noqa: BLE001
            raised = str(e)[:80]
        gc.collect()
        after = state(ctx)
        n += 1
        left = {k: (before[k], after[k]) for k in before if before[k] != after[k]}
        inp = {"mode": mode, "raise in": "a sibling after a completed provide block", "consumers in the block": consumers, "inside a component's fill": wrapped}
        if raised is None:
            fails.append({"input": inp, "clause": "the user's exception did not propagate", "observed": "render returned"})
        elif left:
            rec = {"input": inp, "clause": "state left behind after the render", "observed": {k: {"before": v[0], "after": v[1]} for k, v in left.items()}}
            if set(left) <= {"component_context_cache", "render_context depth", "component_renderer_cache", "provide_cache", "provide_references", "all_reference_ids"}:
                rec["known_finding"] = "F-C06b" if set(left) & {"provide_cache", "provide_references", "all_reference_ids", "component_renderer_cache"} else "F-C06a"
                known.append(rec)
            else:
                fails.append(rec)
        for reg_ in (comp.component_context_cache, pc.component_renderer_cache, pc.child_component_attrs, pv.provide_cache, pv.provide_references):
            reg_.clear()
        pv.all_reference_ids.clear()
    return {"n": n, "fails": fails, "known": known}


def run(repo, procs=2):
    import multiprocessing as mp
    ctx = mp.get_context("spawn")
    with ctx.Pool(procs) as pool:
        res = pool.map(run_mode, [(repo, "django"), (repo, "isolated")])
    fails = [f for r in res for f in r["fails"]]
    known = [f for r in res for f in r["known"]]
    firsts = []
    for fid in ("F-C06a", "F-C06b"):
        firsts += [f for f in known if f.get("known_finding") == fid][:1]
    return {"space": f"{len(SITES)} raise sites (incl. none) x {len(PLACES)} positions of the failing component x with / without an enclosing provide x 2 context modes, plus a failure in a sibling after a completed provide block (1-2 consumers, at page level / inside a fill)",
            "evaluations": sum(r["n"] for r in res), "failures": fails[:4] + firsts, "known_finding_failures": len(known), "unexpected_failures": len(fails), "exhaustive": True}


if __name__ == "__main__":
    import json
    print(json.dumps(run(sys.argv[1] if len(sys.argv) > 1 else "/repo"), indent=1, default=str)[:6000])
