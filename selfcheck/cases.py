"""argument tuples for selfcheck/repo/src/scprogs/progs.py (concrete points of the CPython differential)"""
CASES = {
    "slice_mix": [("hello", 1, 3), ("hello", 0, 0), ("hello", 3, 1), ("hello", 2, 9), ("", 0, 1), ("hé✓x", 1, 3), ("hello", -2, 4), ("hello", 1, -1), ("hello", -9, 2), ("hello", 7, 9)],
    "slice_neg": [("hello", 2), ("hello", 0), ("hello", 5), ("hello", 7), ("ab", 1), ("", 1)],
    "index_char": [("abc", 0), ("abc", 2), ("abc", -1), ("abc", -3), ("abc", 3), ("abc", -4), ("", 0)],
    "find_family": [("hello", "l"), ("hello", "lo"), ("hello", ""), ("hello", "x"), ("", ""), ("", "a"), ("aaa", "aa"), ("abc", "abc"), ("abc", "abcd")],
    "strip_family": [("  a b  ",), ("",), ("\t\nx\r\n",), ("x",), ("   ",)],
    "prefix_suffix": [("foobar", "foo"), ("foobar", "bar"), ("foobar", ""), ("foo", "foobar"), ("aaa", "a")],
    "join_static": [("a", "b", "c"), ("", "", ""), ("x,y", "", "z")],
    "int_str": [(0,), (7,), (-3,), (123456,), (-1,)],
    "arith": [(7, 3), (-7, 3), (0, 0), (10, -4), (-5, -5)],
    "compare_chain": [(1, 2, 2), (2, 2, 2), (3, 1, 3), (1, 1, 0), (5, 4, 5)],
    "bool_ops": [(0, ""), (3, "s"), (0, "s"), (2, "")],
    "cond_expr": [(None, "b"), ("a", "b"), ("", "b")],
    "opt_chain": [(None,), (0,), (41,)],
    "list_ops": [([1, 2, 3], 5), ([], 0), ([5], 5), ([9, 9], 7)],
    "list_pop_index": [([1, 2, 3], 0), ([1, 2, 3], -1), ([1, 2, 3], 2), ([1, 2, 3], 3), ([1, 2, 3], -4), ([], 0)],
    "list_index_of": [(["a", "b", "a"], "a"), (["a", "b"], "b"), (["a"], "z"), ([], "a")],
    "list_slices": [([1, 2, 3, 4], 1, 3), ([1, 2, 3, 4], 0, 9), ([1, 2, 3, 4], -1, 2), ([], 0, 0), ([1], 1, 0)],
    "dict_ops": [({"a": 1}, "a", 2), ({"a": 1}, "b", 2), ({}, "zz", 3), ({"zz": 1, "q": 2}, "q", 5)],
    "dict_missing": [({"a": 1}, "a"), ({"a": 1}, "b"), ({}, "")],
    "dict_update": [({"a": 1, "b": 2}, {"b": 3, "c": 4}), ({}, {}), ({"a": 1}, {}), ({}, {"a": 2})],
    "dict_del": [({"a": 1, "b": 2}, "a"), ({"a": 1}, "z"), ({}, "a")],
    "set_ops": [([], "a"), (["x"], "")],
    "tuple_unpack": [(("a", 1),), (("ab", 0),)],
    "try_except": [("abc", 1), ("abc", 5), ("", 0), ("abc", -1)],
    "try_finally_raise": [({"a": 4}, "a"), ({"a": 4}, "b")],
    "aug_assign": [("s", 1), ("", -2)],
    "nested_calls": [("a",), ("",)],
    "early_return": [("",), ("abc",), ("xyz",), ("mmm",), ("az",)],
    "is_checks": [(None, True), ("x", False), ("", True)],
    "str_compare": [("a", "a"), ("a", "b"), ("", ""), ("é", "e")],
    "str_len_mul": [("",), ("abc",), ("é✓",)],
    "static_for": [(1, 2, 3), (-1, 2, -3), (0, 0, 0)],
    "not_in": [("a", ["a", "b"]), ("c", ["a", "b"]), ("q", []), ("xqx", ["z"])],
    "format_method": [("a", "b"), ("", "{}")],
    "lower_cmp": [("xABCx",), ("abc",), ("ab",), ("",)],
    "int_parse": [("41",), ("-3",), ("x",), ("",), (" 7",)],
    "alias_write": [(1, 2), (0, 0), (-5, 7)],
    "box_list": [(1,), (-1,)],
    "closure_nonlocal": [(2,), (0,), (-3,)],
    "list_comp": [([1, 2, 3, 4],), ([],), ([3, 3],)],
    "any_all": [(["a", "b"],), ([],), (["b", ""],), (["ab", "a"],)],
    "with_finally": [("boom",), ("ok",)],
    "reraise_other": [("v",), ("k",), ("x",)],
    "isinstance_str_int": [(True,), (False,)],
    "dict_items_sum": [({"a": 3, "b": 1},), ({},), ({"b": 2},)],
    "opt_truthiness": [(None,), ("",), ("x",)],
    "str_or_none": [("",), ("x",)],
    "nested_ternary": [(-1,), (0,), (5,)],
    "int_floor_mod": [(7, 2), (-7, 2), (7, -2), (-7, -2), (0, 3), (5, 0)],
    "seq_eq": [([1], [1]), ([1], [1, 1]), ([], [1]), ([2], [3])],
    "str_index_loop_free": [("ab",), ("a",), ("",), ("xyz",)],
    "dict_comp_keys": [(["a", "b"], True), ([], True), (["a", "a"], False)],
    "dict_display_merge": [({"a": 1}, "a"), ({"a": 1}, "b"), ({}, "z")],
    "int_bool_eq": [(1, True), (0, False), (2, True), (0, True)],
}

# sidecar types of locals the executor cannot infer (same role as `locals=` in a contract)
from typing import Dict, List, Set  # noqa: E402

LOCALS = {
    "dict_ops": {"e": Dict[str, int]},
    "dict_update": {"out": Dict[str, int]},
    "dict_del": {"e": Dict[str, int]},
    "set_ops": {"s": Set[str]},
}

# programs whose key operation pyvc models as an uninterpreted function WITH a may-raise choice (int(s)): neither outcome can
# be proved, both must stay possible
ABSTRACT_OK = {"int_parse"}

# classes of the programs that live on the heap (same role as REG.heap_class in a contract file)
HEAP = {"Box": {"v": int, "other": "Box"}}
