"""Small programs over the Python subset pyvc models.  pyvc.selfcheck executes each symbolically with its arguments pinned to
concrete values and requires the symbolic result / exception to equal what CPython computes for the same call."""
from typing import Dict, List, Optional, Tuple


def slice_mix(s: str, a: int, b: int) -> str:
    return s[a:b] + "|" + s[:a] + "|" + s[b:] + "|" + s[a:] + "|" + s[:b]


def slice_neg(s: str, a: int) -> str:
    return s[-a:] + "|" + s[:-a] + "|" + s[a:-1]


def index_char(s: str, i: int) -> str:
    return s[i]


def find_family(s: str, t: str) -> Tuple[int, bool, bool, bool]:
    return (s.find(t), s.startswith(t), s.endswith(t), t in s)


def strip_family(s: str) -> str:
    return s.strip() + "|" + s.lstrip() + "|" + s.rstrip()


def prefix_suffix(s: str, p: str) -> str:
    return s.removeprefix(p) + "|" + s.removesuffix(p)


def join_static(a: str, b: str, c: str) -> str:
    return ",".join([a, b, c]) + "".join((a, b)) + f"{a}:{b}-{c}"


def int_str(i: int) -> str:
    return str(i) + f"{i}" + str(i + 1)


def arith(a: int, b: int) -> int:
    return (a + b) * 2 - a // 2 + (a % 3) + min(a, b) + max(a, b) + abs(a - b)


def compare_chain(a: int, b: int, c: int) -> bool:
    return a < b <= c or a == c != b


def bool_ops(a: int, s: str) -> str:
    x = s or "empty"
    y = a and "nonzero"
    return x + "|" + str(y)


def cond_expr(a: Optional[str], b: str) -> str:
    return a if a is not None else b


def opt_chain(a: Optional[int]) -> int:
    if a is None:
        return -1
    return a + 1


def list_ops(xs: List[int], v: int) -> List[int]:
    ys = list(xs)
    ys.append(v)
    ys.insert(0, v + 1)
    ys.insert(2, v + 2)
    last = ys.pop()
    ys.extend([last, last])
    if v in ys:
        ys[1] = 99
    return ys + [len(ys)]


def list_pop_index(xs: List[int], i: int) -> int:
    ys = list(xs)
    return ys.pop(i)


def list_index_of(xs: List[str], v: str) -> int:
    return xs.index(v)


def list_slices(xs: List[int], a: int, b: int) -> List[int]:
    return xs[a:b] + xs[:a] + xs[b:]


def dict_ops(d: Dict[str, int], k: str, v: int) -> Tuple[int, bool, int, int]:
    e = dict(d)
    before = e.get(k, -1)
    e[k] = v
    had = "zz" in e
    e.setdefault("zz", 7)
    popped = e.pop("zz")
    return (before, had, popped, len(e))


def dict_missing(d: Dict[str, int], k: str) -> int:
    return d[k]


def dict_update(d: Dict[str, int], e: Dict[str, int]) -> Dict[str, int]:
    out = {}
    out.update(d)
    out.update(e)
    return out


def dict_del(d: Dict[str, int], k: str) -> int:
    e = dict(d)
    del e[k]
    return len(e)


def set_ops(xs: List[str], v: str) -> Tuple[bool, int, bool]:
    s = set()
    s.add(v)
    s.add(v)
    had = v in s
    s.discard("nope")
    n = len(s)
    s.remove(v)
    return (had, n, v in s)


def tuple_unpack(p: Tuple[str, int]) -> str:
    a, b = p
    return a + str(b) if b else a


def try_except(s: str, i: int) -> str:
    try:
        c = s[i]
    except IndexError:
        return "IndexError"
    finally:
        s = s + "!"
    return c + s


def try_finally_raise(d: Dict[str, int], k: str) -> int:
    total = 0
    try:
        total += d[k]
    except KeyError:
        total = -5
        raise ValueError("missing")
    finally:
        total += 1
    return total


def aug_assign(s: str, n: int) -> str:
    out = ""
    out += s
    out += str(n)
    n += 2
    n *= 3
    return out + str(n)


def nested_calls(s: str) -> str:
    def inner(t: str) -> str:
        return t.upper() if False else t + "x"
    return inner(inner(s))


def early_return(s: str) -> int:
    if not s:
        return 0
    if s.startswith("a"):
        return 1
    elif s.endswith("z"):
        return 2
    return len(s)


def is_checks(a: Optional[str], b: bool) -> Tuple[bool, bool, bool]:
    return (a is None, b is True, b is False)


def str_compare(a: str, b: str) -> Tuple[bool, bool]:
    return (a == b, a != b)


def str_len_mul(s: str) -> int:
    return len(s) * 2 + len(s + s)


def static_for(a: int, b: int, c: int) -> int:
    total = 0
    for x in (a, b, c):
        if x < 0:
            continue
        total += x
    return total


def not_in(s: str, xs: List[str]) -> bool:
    return s not in xs and "q" not in s


def format_method(a: str, b: str) -> str:
    return "{x}-{y}".format(x=a, y=b)


def lower_cmp(s: str) -> bool:
    return "abc" in s.lower()


def int_parse(s: str) -> int:
    return int(s) + 1


# ---------------------------------------------------------------- heap objects, aliasing, closures, comprehensions
class Box:
    def __init__(self, v: int):
        self.v = v
        self.other: Optional["Box"] = None


def alias_write(a: int, b: int) -> Tuple[int, int, bool, bool]:
    x = Box(a)
    y = Box(b)
    z = x
    z.v = z.v + 10
    y.other = x
    y.other.v += 1
    return (x.v, y.v, z is x, x is y)


def box_list(a: int) -> int:
    boxes = [Box(a), Box(a + 1)]
    first = boxes[0]
    first.v = 100
    boxes[1].other = first
    return boxes[0].v + boxes[1].other.v + boxes[1].v


def closure_nonlocal(a: int) -> int:
    count = 0

    def bump(k: int) -> int:
        nonlocal count
        count += k
        return count
    bump(a)
    bump(a)
    return count + bump(1)


def list_comp(xs: List[int]) -> List[int]:
    return [x * 2 for x in xs]


def any_all(xs: List[str]) -> Tuple[bool, bool]:
    return (any(x.startswith("a") for x in xs), all(len(x) > 0 for x in xs))


def with_finally(s: str) -> str:
    out = ""
    try:
        try:
            if s == "boom":
                raise KeyError(s)
            out += "body;"
        finally:
            out += "inner-finally;"
    except KeyError:
        out += "caught;"
    else:
        out += "else;"
    return out


def reraise_other(s: str) -> str:
    try:
        if s == "v":
            raise ValueError("v")
        if s == "k":
            raise KeyError("k")
        return "none"
    except ValueError:
        raise TypeError("converted")


def isinstance_str_int(flag: bool) -> str:
    v = "s" if flag else "t"
    return "str" if isinstance(v, str) else "other"


def dict_items_sum(d: Dict[str, int]) -> int:
    return len(d) + (d["a"] if "a" in d else 0)


def opt_truthiness(a: Optional[str]) -> str:
    if a:
        return "truthy:" + a
    return "falsy"


def str_or_none(s: str) -> Optional[str]:
    return s or None


def nested_ternary(a: int) -> str:
    return "neg" if a < 0 else ("zero" if a == 0 else "pos")


def int_floor_mod(a: int, b: int) -> Tuple[int, int]:
    return (a // b, a % b)


def seq_eq(xs: List[int], ys: List[int]) -> bool:
    return xs == ys or xs + [1] == ys


def str_index_loop_free(s: str) -> str:
    return s[0] + s[-1] if len(s) >= 2 else s * 1 if False else s


def dict_comp_keys(xs: List[str], flag: bool) -> Dict[str, bool]:
    return {**{x: False for x in xs}, **{x: flag for x in xs[:1]}}


def dict_display_merge(d: Dict[str, int], k: str) -> Dict[str, int]:
    return {**d, k: 7, **{"z": 1}}


def int_bool_eq(a: int, b: bool) -> bool:
    return a == b
