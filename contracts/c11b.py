"""C11 - NodeMeta.__new__.wrapper_render: what every django-components tag does between its resolved arguments and render().

From the property: "Keyword names that are not Python identifiers are accepted only through **kwargs", "SyntaxError for a
positional argument after a keyword one", "never calls the function with different bindings".  For the list R that
resolve_params returned (arbitrary here):
  * the validator receives render itself, the signature without (self, context), and exactly the parameters of R that are
    positional or carry an identifier that is not a Python keyword - the caller's own entries, in order - plus ONE mapping that
    holds exactly the other keyword entries; a special key given twice is a TypeError like any repeated keyword
    (f(**{"data-x": 1}, **{"data-x": 2}) is one in Python) - the unchanged tree let the last value win: fixed C11 de92e6c;
  * SyntaxError exactly when a positional entry follows a special keyword entry (the validator cannot see that: the special
    entries are not in its list); then neither the validator nor render is called;
  * render is called exactly once, with the node, the Context and exactly the (args, kwargs) the validator returned, and its
    output is the tag's output; when the validator raises, render is not called at all.
`special(key)` is the code-independent reading of "cannot be written as a Python keyword argument":
not str.isidentifier(key) or keyword.iskeyword(key).
"""
import z3

import contracts.c11 as c11
from pyvc import ops
from pyvc.contracts import REG, Any_, Dict, Int, Loop, Obj, Seq, Str
from pyvc.interp import ExcVal, PyRaise
from pyvc.types import NONE, Conc, TInt, TStr, Val, VTuple

P = "C11"
MOD = "django_components.node"
S, I, B = z3.StringSort(), z3.IntSort(), z3.BoolSort()
OS, PARAM, PARAMS, VALS, KW = c11.OS, c11.PARAM, c11.PARAMS, c11.VALS, c11.KW
NODE, CTX, FN, SIG = Obj("BaseNode"), Obj("TemplateContext"), c11.FN, Obj("Signature")
TAGATTRS = Obj("TagAttrList")

REG.stub(("getattr", "BaseNode", "tag"), lambda run, obj, node: Val(TStr, ops.uf("node_tag", NODE.sort(), S)(obj.t)))
REG.stub(("getattr", "BaseNode", "node_id"), lambda run, obj, node: Val(TStr, ops.uf("node_id", NODE.sort(), S)(obj.t)))
REG.stub(("getattr", "BaseNode", "params"), lambda run, obj, node: Val(TAGATTRS, ops.uf("node_params", NODE.sort(), TAGATTRS.sort())(obj.t)))
REG.stub("keyword.iskeyword", lambda run, args, kwargs, node: Val(c11.TBool, ops.uf("keyword_iskeyword", S, B)(run.coerce(args[0], TStr).t)))


def special_key(k):
    return z3.Or(z3.Not(ops.uf("str_isidentifier", S, B)(k)), ops.uf("keyword_iskeyword", S, B)(k))


def is_special(p):
    k = PARAM.proj(p, 0)
    return z3.And(z3.Not(OS.is_none(k)), special_key(OS.get(k)))


def is_pos(p):
    return OS.is_none(PARAM.proj(p, 0))


# ---- spec functions over the prefix R[0..i) of the resolved parameters
def _sf():
    return {"kept": z3.Function("wr_kept_upto", I, PARAMS.sort()),       # the entries handed to the validator
            "seen": z3.Function("wr_special_seen_upto", I, B),            # some special keyword entry among R[0..i)
            "last": z3.Function("wr_last_special_upto", I, S, I)}         # index of the last special entry with key k, or -1


def _R(c):
    return c.ghost["resolved"].t


def _resolve_params(run, args, kwargs, node):
    """resolve_params(self.tag, self.params, context): ANY list of TagParam (its own contract is C02's); may raise anything.
    The spec functions over that list are introduced here by their defining equations."""
    if run.choose(2, None) == 1:
        raise PyRaise(ExcVal("Any", [], site="resolve_params (user filters / variables)"))
    R = z3.FreshConst(PARAMS.sort(), "resolved_params")
    run.ghost["resolved"] = Val(PARAMS, R)
    run.ghost["resolve_args"] = VTuple(list(args))
    f = _sf()
    i, k = z3.FreshConst(I, "i"), z3.FreshConst(S, "k")
    rng = z3.And(0 <= i, i < z3.Length(R))
    sp = is_special(R[i])
    kk = OS.get(PARAM.proj(R[i], 0))
    for ax in (
        f["kept"](0) == z3.Empty(PARAMS.sort()), z3.Not(f["seen"](0)), z3.ForAll([k], f["last"](0, k) == -1),
        z3.ForAll([i], z3.Implies(rng, z3.And(
            f["kept"](i + 1) == z3.If(sp, f["kept"](i), z3.Concat(f["kept"](i), z3.Unit(R[i]))),
            f["seen"](i + 1) == z3.Or(f["seen"](i), sp)))),
        z3.ForAll([i, k], z3.Implies(rng, f["last"](i + 1, k) == z3.If(z3.And(sp, kk == k), i, f["last"](i, k)))),
    ):
        run.pc.append(ax)
    return Val(PARAMS, R)


def _validate_params(run, args, kwargs, node):
    """validate_params(fn, signature, tag, params, extra_kwargs): its own contract is the other half of C11; here only WHAT it is
    given is recorded (ghost) and what it returns is arbitrary; TypeError when it rejects."""
    n = run.ghost.get("validate_calls")
    run.ghost["validate_calls"] = Val(TInt, (n.t if n is not None else z3.IntVal(0)) + 1)
    run.ghost["v_fn"], run.ghost["v_sig"], run.ghost["v_tag"] = args[0], args[1], run.coerce(args[2], TStr)
    run.ghost["v_params"] = run.coerce(args[3], PARAMS)
    run.ghost["v_extra"] = run.coerce(args[4], KW)
    if run.choose(2, None) == 1:
        raise PyRaise(ExcVal("TypeError", [], site="validate_params rejects the arguments"))
    a, k = Val(VALS, z3.FreshConst(VALS.sort(), "validated_args")), Val(KW, z3.FreshConst(KW.sort(), "validated_kwargs"))
    run.wf(k)
    run.ghost["v_ret_args"], run.ghost["v_ret_kwargs"] = a, k
    return VTuple([a, k])


def _orig_render(run, args, kwargs, node):
    """orig_render(self, context, *args, **kwargs): the tag's own render (user code)"""
    n = run.ghost.get("render_calls")
    run.ghost["render_calls"] = Val(TInt, (n.t if n is not None else z3.IntVal(0)) + 1)
    run.ghost["r_self"], run.ghost["r_ctx"] = args[0], args[1]
    rest = args[2:]
    ok = len(rest) == 1 and isinstance(rest[0], Conc) and isinstance(rest[0].obj, tuple) and rest[0].obj[0] == "starseq" and set(kwargs) == {"**"}
    run.ghost["r_shape_ok"] = Val(c11.TBool, z3.BoolVal(bool(ok)))
    if ok:
        run.ghost["r_args"] = run.coerce(rest[0].obj[1], VALS)
        run.ghost["r_kwargs"] = run.coerce(kwargs["**"], KW)
    if run.choose(2, None) == 1:
        raise PyRaise(ExcVal("Any", [], site="render (user code)"))
    out = Val(TStr, z3.FreshConst(S, "render_output"))
    run.ghost["r_out"] = out
    return out


def _g(c, name, default=None):
    v = c.ghost.get(name)
    return v.t if v is not None else default


def _calls(c, name):
    return _g(c, name, z3.IntVal(0))


def _inv(c):
    f = _sf()
    R = _R(c)
    i = c["_i0"].t
    j, k = z3.Const("bv_j", I), z3.Const("bv_k", S)
    inv = c["invalid_kwargs"].t
    return z3.And(
        c["resolved_params"].t == R,
        c["resolved_params_without_invalid_kwargs"].t == f["kept"](i),
        c["did_see_special_kwarg"].t == f["seen"](i),
        z3.ForAll([k], z3.And(-1 <= f["last"](i, k), f["last"](i, k) < i,
                              z3.Select(KW.has(inv), k) == (f["last"](i, k) >= 0),
                              z3.Implies(f["last"](i, k) >= 0, z3.And(is_special(R[f["last"](i, k)]), PARAM.proj(R[f["last"](i, k)], 0) == OS.some(k),
                                                                       z3.Select(KW.val(inv), k) == PARAM.proj(R[f["last"](i, k)], 1))))),
        # no positional entry so far follows a special one
        z3.ForAll([j], z3.Implies(z3.And(0 <= j, j < i, is_pos(R[j])), z3.Not(f["seen"](j)))),
        # seen is monotone (so "follows a special one" can be read at any later index)
        z3.ForAll([j], z3.Implies(z3.And(0 <= j, j < i, f["seen"](j)), f["seen"](j + 1))),
        _calls(c, "validate_calls") == 0, _calls(c, "render_calls") == 0,
    )


def _pos_after_special(c):
    if "resolved" not in c.ghost:
        return z3.BoolVal(False)
    f = _sf()
    R = _R(c)
    j = z3.Const("bv_j", I)
    return z3.Exists([j], z3.And(0 <= j, j < z3.Length(R), is_pos(R[j]), f["seen"](j)))


def _validator_given(c):
    if "v_params" not in c.ghost:
        return z3.BoolVal(True)          # rejected before the validator was asked (repeated special keyword)
    f = _sf()
    R = _R(c)
    n = z3.Length(R)
    k = z3.Const("bv_k", S)
    ex = _g(c, "v_extra")
    last = lambda kk: f["last"](n, kk)
    return z3.And(
        _g(c, "v_params") == f["kept"](n),
        z3.ForAll([k], z3.And(z3.Select(KW.has(ex), k) == (last(k) >= 0),
                              z3.Implies(last(k) >= 0, z3.Select(KW.val(ex), k) == PARAM.proj(R[last(k)], 1)))),
        # `last` is what its name says (stated over R alone): a special entry with key k at `last`, none later
        z3.ForAll([k], z3.Implies(last(k) >= 0, z3.And(last(k) < n, is_special(R[last(k)]), PARAM.proj(R[last(k)], 0) == OS.some(k)))),
    )


def _same_fn(c):
    """the validator is asked about render itself and the stripped signature; resolve_params got the node's own tag / params / Context"""
    ra = c.ghost["resolve_args"].items
    return z3.And(c.ghost["v_fn"].t == c.run.globals["orig_render"].t, c.ghost["v_sig"].t == c.run.globals["validation_signature"].t,
                  c.ghost["v_tag"].t == ops.uf("node_tag", NODE.sort(), S)(c.old("self").t),
                  ra[0].t == ops.uf("node_tag", NODE.sort(), S)(c.old("self").t),
                  ra[1].t == ops.uf("node_params", NODE.sort(), TAGATTRS.sort())(c.old("self").t),
                  ra[2].t == c.old("context").t)


def _render_called_as_validated(c):
    return z3.And(_calls(c, "render_calls") == 1, _calls(c, "validate_calls") == 1, c.ghost["r_shape_ok"].t,
                  c.ghost["r_self"].t == c.old("self").t, c.ghost["r_ctx"].t == c.old("context").t,
                  c.ghost["r_args"].t == c.ghost["v_ret_args"].t, c.ghost["r_kwargs"].t == c.ghost["v_ret_kwargs"].t,
                  c["result"].t == c.ghost["r_out"].t)


def _last_lemma(c):
    """`last(n, k)` = -1 means NO special entry with key k (needed to read the mapping as 'exactly the special entries')"""
    f = _sf()
    R = _R(c)
    n = z3.Length(R)
    j = z3.Const("bv_j", I)
    return z3.ForAll([j], z3.Implies(z3.And(0 <= j, j < n, is_special(R[j])), f["last"](n, OS.get(PARAM.proj(R[j], 0))) >= j))


def _inv_last(c):
    """every special entry so far is THE entry of its key (a repeated special key has raised TypeError)"""
    f = _sf()
    R = _R(c)
    i = c["_i0"].t
    j = z3.Const("bv_j", I)
    return z3.ForAll([j], z3.Implies(z3.And(0 <= j, j < i, is_special(R[j])), f["last"](i, OS.get(PARAM.proj(R[j], 0))) == j))


def _no_repeated_special(c):
    f = _sf()
    R = _R(c)
    n = z3.Length(R)
    j = z3.Const("bv_j", I)
    return z3.ForAll([j], z3.Implies(z3.And(0 <= j, j < n, is_special(R[j])), f["last"](n, OS.get(PARAM.proj(R[j], 0))) == j))


REG.contract(
    f"{MOD}:NodeMeta.__new__.wrapper_render", prop=P, types={"self": NODE, "context": CTX}, result=Str,
    globals={"orig_render": FN, "validation_signature": SIG},
    calls={"trace_node_msg": lambda run, args, kwargs, node: NONE, "resolve_params": _resolve_params,
           "validate_params": _validate_params, "orig_render": _orig_render},
    locals={"resolved_params_without_invalid_kwargs": PARAMS, "invalid_kwargs": KW, "resolved_params": PARAMS},
    modifies=[], raises={"SyntaxError": _pos_after_special, "TypeError": None, "Any": None},
    loops={0: Loop(inv=[_inv, _inv_last], variant="len(resolved_params) - _i0")},
    xensures={"SyntaxError": {"neither_validator_nor_render_called": lambda c: z3.And(_calls(c, "validate_calls") == 0, _calls(c, "render_calls") == 0)},
              "TypeError": {"render_not_called_when_the_validator_rejects": lambda c: _calls(c, "render_calls") == 0,
                            "validator_given_exactly_the_regular_entries_and_the_special_mapping": _validator_given}},
    ensures={
        "validator_given_exactly_the_regular_entries_and_the_special_mapping": _validator_given,
        "every_special_entry_is_in_the_mapping": _last_lemma,
        "validator_asked_about_render_itself": _same_fn,
        "accepted_only_without_a_positional_after_a_special_keyword": lambda c: z3.Not(_pos_after_special(c)),
        "render_called_once_with_exactly_the_validated_bindings_and_its_output_returned": _render_called_as_validated,
        # from the property ("exactly when calling render(...) with the same arguments would succeed"): Python refuses a keyword
        # given twice - also when it can only be spelled through ** ( f(**{"data-x": 1}, **{"data-x": 2}) is a TypeError )
        "accepted_only_without_a_repeated_special_keyword": _no_repeated_special,
    },
)

NOT_COVERED_WR = "validate_params' dispatch between the two validators (three lines: hasattr(fn, '__code__')) is read by the bounded stand-in only"


@REG.replay(f"{MOD}:NodeMeta.__new__.wrapper_render")
def _replay_wrapper_render(model, ob):
    """every argument list of up to 4 entries over {positional, a=, b=, data-x=, class=, data-x= again} through a real BaseNode tag
    whose render records its bindings, against the specification computed directly"""
    import itertools
    from django.conf import settings
    if not settings.configured:
        from tests.django_test_setup import setup_test_config
        setup_test_config({"autodiscover": False})
    from django.template import Context, Template
    from django_components import BaseNode, types  # noqa: F401
    from django_components.library import Library  # noqa: F401
    from django.template import Library as DjLibrary
    import keyword
    seen = {}

    class ProbeNode(BaseNode):
        tag = "wrprobe"
        end_tag = None
        allowed_flags = []

        def render(self, context, *args, **kwargs):
            seen["call"] = (args, dict(kwargs), list(kwargs))
            seen["n"] = seen.get("n", 0) + 1
            return "OUT"

    lib = DjLibrary()
    ProbeNode.register(lib)
    from django.template import engines
    eng = engines["django"].engine
    eng.template_libraries["wrprobe_lib"] = lib
    words = [("1", None), ("a=2", "a"), ("b=3", "b"), ("data-x=4", "data-x"), ("class=5", "class"), ("data-x=6", "data-x")]
    try:
        for n in range(0, 5):
            for combo in itertools.product(words, repeat=n):
                src = "{% load wrprobe_lib %}{% wrprobe " + " ".join(w for w, _k in combo) + " %}"
                special = lambda k: k is not None and (not k.isidentifier() or keyword.iskeyword(k))
                seen_sp, syntax = False, False
                for _w, k in combo:
                    if special(k):
                        seen_sp = True
                    elif k is None and seen_sp:
                        syntax = True
                pos_after_kw = any(k is None and any(k2 is not None and not special(k2) for _w2, k2 in combo[:j]) for j, (_w, k) in enumerate(combo))
                regular_keys = [k for _w, k in combo if k is not None]
                dup = len(set(regular_keys)) != len(regular_keys)
                seen.clear()
                try:
                    out = Template(src).render(Context({}))
                    got = ("ok", seen.get("call"), seen.get("n"), out)
                except SyntaxError:
                    got = ("SyntaxError", None, seen.get("n"), None)
                except TypeError:
                    got = ("TypeError", None, seen.get("n"), None)
                if syntax:
                    want = ("SyntaxError", None, None, None)
                elif pos_after_kw or dup:
                    want = ("TypeError", None, None, None)
                else:
                    args = tuple(int(w) for w, k in combo if k is None)
                    kw = {}
                    for w, k in combo:
                        if k is not None and not special(k):
                            kw[k] = int(w.split("=")[1])
                    for w, k in combo:
                        if special(k):
                            kw[k] = int(w.split("=")[1])
                    want = ("ok", (args, kw, None), 1, "OUT")
                if syntax and dup and got[0] in ("SyntaxError", "TypeError"):
                    want = (got[0], None, None, None)     # both reasons apply: either rejection is the Python behaviour
                same = got[0] == want[0] and got[2] == want[2] and (want[0] != "ok" or (got[1][0] == want[1][0] and got[1][1] == want[1][1] and got[3] == "OUT"))
                if not same:
                    return {"confirmed": True, "function": "NodeMeta.wrapper_render", "inputs": {"template": src},
                            "expected": repr(want)[:300], "observed": repr(got)[:300]}
    finally:
        eng.template_libraries.pop("wrprobe_lib", None)
    return {"confirmed": False}


# ================================================================================================ validate_params (the dispatch)
# From the property ("the fast and the fallback validation paths agree" is about the two validators; THIS function only chooses):
# exactly one validator is called - the fast one when the function object has a code object, the fallback otherwise - with the
# function (resp. the stripped signature), the parameter list and the extra keyword mapping UNCHANGED; its (args, kwargs) is
# returned unchanged; a TypeError of the validator leaves as a TypeError (with the tag's name in front), nothing else is caught.
def has_code(f):
    return ops.uf("function_has_code_object", FN.sort(), B)(f)


def _hasattr(run, args, kwargs, node):
    name = z3.simplify(run.coerce(args[1], TStr).t).as_string()
    if name == "__code__":
        return Val(c11.TBool, has_code(args[0].t))
    if name == "co_varnames":
        return Val(c11.TBool, z3.BoolVal(True))        # every code object has co_varnames (A-PY)
    from pyvc.interp import EngineError
    raise EngineError(f"hasattr(.., {name!r})")


def _validator(which):
    def f(run, args, kwargs, node):
        n = run.ghost.get("validator_calls")
        run.ghost["validator_calls"] = Val(TInt, (n.t if n is not None else z3.IntVal(0)) + 1)
        run.ghost["validator_which"] = Val(TInt, z3.IntVal(which))
        run.ghost["validator_args"] = list(args)
        if run.choose(2, None) == 1:
            raise PyRaise(ExcVal("TypeError", [Val(TStr, z3.FreshConst(S, "validator_message"))], site=f"validator {which} rejects"))
        a, k = Val(VALS, z3.FreshConst(VALS.sort(), "va")), Val(KW, z3.FreshConst(KW.sort(), "vk"))
        run.wf(k)
        run.ghost["validator_result"] = VTuple([a, k])
        return VTuple([a, k])
    return f


REG.stub(("getattr", "Function", "__code__"), lambda run, obj, node: Conc(("obj_kind", "code", obj)))


def _vp_post(c):
    a = c.ghost["validator_args"]
    fast = has_code(c.old("func").t)
    which = c.ghost["validator_which"].t
    res = c.ghost["validator_result"].items
    R = c["result"]
    r_items = R.items if isinstance(R, VTuple) else None
    same_res = z3.And(r_items[0].t == res[0].t, r_items[1].t == res[1].t) if r_items is not None else z3.BoolVal(False)
    first = z3.If(fast, a[0].t == c.old("func").t if a[0].ty == FN else z3.BoolVal(False), a[0].t == c.old("validation_signature").t if a[0].ty == SIG else z3.BoolVal(False))
    return z3.And(c.ghost["validator_calls"].t == 1, which == z3.If(fast, 1, 2), first,
                  c.run.coerce(a[1], PARAMS).t == c.old("params").t, c.run.coerce(a[2], c11.TOpt(KW)).t == c.old("extra_kwargs").t, same_res)


REG.contract(
    f"{c11.MOD}:validate_params", prop=P, types={"func": FN, "validation_signature": SIG, "tag": Str, "params": PARAMS, "extra_kwargs": c11.Opt(KW)},
    calls={"hasattr": _hasattr, "_validate_params_with_code": _validator(1), "_validate_params_with_signature": _validator(2)},
    modifies=[], raises={"TypeError": None},
    ensures={"exactly_one_validator_chosen_by_the_code_object_gets_the_arguments_unchanged_and_its_result_is_returned": _vp_post},
)
