"""C05 - inject() returns the nearest enclosing {% provide %}.

Global invariant GInv over the three registries of perfutil/provide.py with a ghost set `Active` (providers whose
body is executing):
  (a) p in Active                      => p in provide_cache              <- from the property: an enclosing provider's
                                                                             data is there "however many siblings share it"
  (c) p in dom(provide_references)     => p in provide_cache
  (d) p in Active                      => p in provide_references and p in provide_references[p]   (self reference)
Component ids are never provider ids (A-ID): `reference_id not in Active` is a precondition of unregister.
"""
import z3

from contracts.stubs_django import CTX, FLAT, LAYERS, ctx_idx, dicts_of, flatten_of, layer_val, lookup, visible
from pyvc import ops
from pyvc.contracts import REG, Any_, Dict, Int, Loop, Obj, Opt, Ref, Seq, Set, Str
from pyvc.interp import ExcVal, PyRaise
from pyvc.types import NONE, TAny, TStr, Val

P = "C05"
PMOD = "django_components.perfutil.provide"
MOD = "django_components.provide"
PAYLOAD = Obj("Payload")
CACHE = Dict(Str, PAYLOAD)
REFS = Dict(Str, Set(Str))
IDS = Set(Str)
SS = Set(Str)
GLOBALS = {"provide_cache": CACHE, "provide_references": REFS, "all_reference_ids": IDS}
GHOST = {"Active": SS}
S, I = z3.StringSort(), z3.IntSort()
PREFIX = z3.StringVal("_DJC_INJECT__")
PV = TAny.sort()


def G(c, name, old=False):
    return (c.old(name) if old else c.run.globals[name]).t


def active(c):
    return c.ghost["Active"].t


def ginv(c, old=False):
    cache, refs = G(c, "provide_cache", old), G(c, "provide_references", old)
    A = active(c)
    p = z3.Const("bv_p", S)
    return z3.And(
        z3.ForAll([p], z3.Implies(z3.Select(SS.has(A), p), z3.Select(CACHE.has(cache), p))),
        z3.ForAll([p], z3.Implies(z3.Select(REFS.has(refs), p), z3.Select(CACHE.has(cache), p))),
        z3.ForAll([p], z3.Implies(z3.Select(SS.has(A), p), z3.And(z3.Select(REFS.has(refs), p), z3.Select(SS.has(z3.Select(REFS.val(refs), p)), p)))),
    )


# ================================================================================================ unregister
def _unreg_inv_unvisited(c):
    K, i = c["_seq0"].t, c["_i0"].t
    refs = G(c, "provide_references")
    j = z3.Const("bv_j", I)
    return z3.ForAll([j], z3.Implies(z3.And(i <= j, j < z3.Length(K)), z3.And(z3.Select(REFS.has(refs), K[j]), ops.keypos(K, K[j]) == j)))


def _unreg_inv_visited(c):
    """Keys already visited no longer list the reference; keys not visited yet are untouched; nothing was added."""
    K, i = c["_seq0"].t, c["_i0"].t
    refs, refs0 = G(c, "provide_references"), G(c, "provide_references", True)
    rid = c["reference_id"].t
    p = z3.Const("bv_p", S)
    r = z3.Const("bv_r", S)
    pos = ops.keypos(K, p)
    mem = lambda d, a, b: z3.Select(SS.has(z3.Select(REFS.val(d), a)), b)
    return z3.And(
        # dom only shrinks
        z3.ForAll([p], z3.Implies(z3.Select(REFS.has(refs), p), z3.Select(REFS.has(refs0), p))),
        # membership: visited -> old minus rid ; unvisited -> old
        z3.ForAll([p, r], z3.Implies(z3.Select(REFS.has(refs), p),
                                     mem(refs, p, r) == z3.And(mem(refs0, p, r), z3.Or(pos >= i, r != rid)))),
        # a key is dropped only when it was visited and is now unreferenced
        z3.ForAll([p], z3.Implies(z3.And(z3.Select(REFS.has(refs0), p), z3.Not(z3.Select(REFS.has(refs), p))),
                                  z3.And(pos < i, z3.ForAll([r], z3.Implies(mem(refs0, p, r), r == rid))))),
    )


def _ids_removed(c):
    ids, ids0 = G(c, "all_reference_ids"), G(c, "all_reference_ids", True)
    rid = c["reference_id"].t
    r = z3.Const("bv_r", S)
    return z3.ForAll([r], z3.Select(IDS.has(ids), r) == z3.And(z3.Select(IDS.has(ids0), r), r != rid))


def _cache_tracks_refs(c):
    """provide_cache loses exactly the providers dropped from provide_references."""
    cache, cache0 = G(c, "provide_cache"), G(c, "provide_cache", True)
    refs, refs0 = G(c, "provide_references"), G(c, "provide_references", True)
    p = z3.Const("bv_p", S)
    dropped = z3.And(z3.Select(REFS.has(refs0), p), z3.Not(z3.Select(REFS.has(refs), p)))
    return z3.ForAll([p], z3.And(z3.Select(CACHE.has(cache), p) == z3.And(z3.Select(CACHE.has(cache0), p), z3.Not(dropped)),
                                 z3.Implies(z3.Select(CACHE.has(cache), p), z3.Select(CACHE.val(cache), p) == z3.Select(CACHE.val(cache0), p))))


def _unreg_post_refs(c):
    refs, refs0 = G(c, "provide_references"), G(c, "provide_references", True)
    rid = c.old("reference_id").t
    p, r = z3.Const("bv_p", S), z3.Const("bv_r", S)
    mem = lambda d, a, b: z3.Select(SS.has(z3.Select(REFS.val(d), a)), b)
    was_listed = z3.Select(IDS.has(G(c, "all_reference_ids", True)), rid)
    return z3.And(
        z3.ForAll([p, r], z3.Implies(z3.Select(REFS.has(refs), p), z3.And(z3.Select(REFS.has(refs0), p),
                                                                          mem(refs, p, r) == z3.And(mem(refs0, p, r), z3.Or(z3.Not(was_listed), r != rid))))),
        # dropped providers: only those whose single reference was rid - and never an Active one
        z3.ForAll([p], z3.Implies(z3.And(z3.Select(REFS.has(refs0), p), z3.Not(z3.Select(REFS.has(refs), p))),
                                  z3.And(was_listed, z3.Not(z3.Select(SS.has(active(c)), p)), z3.ForAll([r], z3.Implies(mem(refs0, p, r), r == rid))))),
    )


REG.contract(
    f"{PMOD}:unregister_provide_reference", prop=("C05", "C06"), types={"reference_id": Str}, globals=GLOBALS, ghost=GHOST,
    requires=[ginv, lambda c: z3.Not(z3.Select(SS.has(active(c)), c["reference_id"].t))],
    modifies=["provide_cache", "provide_references", "all_reference_ids"], raises={},
    loops={0: Loop(inv=[ginv, _unreg_inv_unvisited, _unreg_inv_visited, _ids_removed, _cache_tracks_refs], variant="len(_seq0) - _i0")},
    ensures={
        "ginv": ginv,
        "ids": lambda c: _ids_removed_post(c),
        "refs": _unreg_post_refs,
        "cache": _cache_tracks_refs,
    },
)


def _ids_removed_post(c):
    ids, ids0 = G(c, "all_reference_ids"), G(c, "all_reference_ids", True)
    rid = c.old("reference_id").t
    r = z3.Const("bv_r", S)
    return z3.ForAll([r], z3.Select(IDS.has(ids), r) == z3.And(z3.Select(IDS.has(ids0), r), r != rid))


# ================================================================================================ register
def _ctx_wf(c):
    """Every inject key visible in the context holds the id (a str) of a provider whose data is in provide_cache."""
    D = dicts_of(c.run, c["context"])
    k = z3.Const("bv_k", S)
    v = lookup(c.run, D, k)
    return z3.And(z3.Length(D) >= 1,
                  z3.ForAll([k], z3.Implies(z3.And(ctx_idx(D, k) >= 0, z3.PrefixOf(PREFIX, k)),
                                            z3.And(PV.is_StrV(v), z3.Select(CACHE.has(G(c, "provide_cache")), PV.s(v))))))


def _reg_inv_done(c):
    K, i = c["_seq0"].t, c["_i0"].t        # K: items of context.flatten()
    refs = G(c, "provide_references")
    rid = c["reference_id"].t
    j = z3.Const("bv_j", I)
    ety = c["_seq0"].ty.elem
    key = lambda t: ety.proj(K[t], 0)
    val = lambda t: ety.proj(K[t], 1)
    return z3.ForAll([j], z3.Implies(z3.And(0 <= j, j < i, z3.PrefixOf(PREFIX, key(j))),
                                     z3.And(z3.Select(REFS.has(refs), PV.s(val(j))), z3.Select(SS.has(z3.Select(REFS.val(refs), PV.s(val(j)))), rid))))


def _reg_inv_only_adds(c, post=False):
    refs, refs0 = G(c, "provide_references"), G(c, "provide_references", True)
    rid = c.old("reference_id").t if post else c["reference_id"].t
    p, r = z3.Const("bv_p", S), z3.Const("bv_r", S)
    mem = lambda d, a, b: z3.Select(SS.has(z3.Select(REFS.val(d), a)), b)
    return z3.And(
        z3.ForAll([p], z3.Implies(z3.Select(REFS.has(refs0), p), z3.Select(REFS.has(refs), p))),
        z3.ForAll([p, r], z3.Implies(z3.And(z3.Select(REFS.has(refs), p), r != rid),
                                     mem(refs, p, r) == z3.And(z3.Select(REFS.has(refs0), p), mem(refs0, p, r)))),
        z3.ForAll([p], z3.Implies(z3.And(z3.Select(REFS.has(refs0), p), mem(refs0, p, rid)), mem(refs, p, rid))),
        G(c, "provide_cache") == G(c, "provide_cache", True),
    )


def _reg_post_registered(c):
    """reference_id is listed under the provider of EVERY inject key visible in the context."""
    ctxv = c.old("context")
    D = z3.Select(c.field(CTX, "dicts", True), ctxv.t)
    refs = G(c, "provide_references")
    rid = c.old("reference_id").t
    k = z3.Const("bv_k", S)
    v = lookup(c.run, D, k)
    return z3.ForAll([k], z3.Implies(z3.And(ctx_idx(D, k) >= 0, z3.PrefixOf(PREFIX, k)),
                                     z3.And(z3.Select(REFS.has(refs), PV.s(v)), z3.Select(SS.has(z3.Select(REFS.val(refs), PV.s(v))), rid))))


REG.contract(
    f"{PMOD}:register_provide_reference", prop=("C05", "C06"), types={"context": Ref(CTX), "reference_id": Str}, globals=GLOBALS, ghost=GHOST,
    requires=[ginv, _ctx_wf, lambda c: c["context"].t > 0],
    modifies=["provide_references", "all_reference_ids"], raises={},
    loops={0: Loop(inv=[ginv, _reg_inv_done, _reg_inv_only_adds], variant="len(_seq0) - _i0")},
    ensures={
        "ginv": ginv,
        "registered_under_every_visible_provider": _reg_post_registered,
        "only_adds_reference_id": lambda c: _reg_inv_only_adds(c, post=True),
    },
)

ASSUMES = ["A-PY", "A-INST", "A-ID", "A-DJ"]
NOT_COVERED = [
    "composition (unchecked): that Django's layer stack mirrors lexical nesting of {% provide %}, and that _render_impl registers a component before get_context_data runs",
    "id uniqueness (A-ID) is probabilistic",
]


# ================================================================================================ managed_provide_cache
def _add(setval, k):
    return Val(SS, SS.mk(z3.Store(SS.has(setval.t), k, True), SS.size(setval.t) + 1))


def _no_component_id_is_a_provider(c):
    """A-ID: ids in all_reference_ids are component render ids, never ids of Active providers."""
    r = z3.Const("bv_r", S)
    return z3.ForAll([r], z3.Implies(z3.Select(IDS.has(G(c, "all_reference_ids")), r), z3.Not(z3.Select(SS.has(active(c)), r))))


def _mpc_yield(run, fr):
    """The with-body: may call register/unregister/nested providers, i.e. any sequence of GInv-preserving steps that
    leaves Active as it found it; may raise anything."""
    from pyvc.interp import SpecCtx
    c = SpecCtx(run, fr)
    pid = fr.lookup("provide_id").t
    run.ghost["Active_outer"] = run.ghost["Active"]
    run.ghost["Active"] = _add(run.ghost["Active"], pid)
    run.spec += 1
    try:
        goal = ginv(c)
    finally:
        run.spec -= 1
    run.oblige("yield#ginv_with_provider_active", goal, kind="post", note="GInv holds when the body starts, with this provider Active")
    for g in ("provide_cache", "provide_references", "all_reference_ids"):
        cur = run.globals[g]
        run.globals[g] = Val(cur.ty, cur.ty.fresh(f"{g}!body"))
        run.wf(run.globals[g])
    run.spec += 1
    try:
        run.assume(ginv(c))
        run.assume(_no_component_id_is_a_provider(c))
    finally:
        run.spec -= 1
    if run.choose(2, None) == 1:
        raise PyRaise(ExcVal("Any", [], site="body of `with managed_provide_cache`"))
    return NONE


def _mpc_ghost_exit(c):
    if "Active_outer" in c.ghost:
        c.ghost["Active"] = c.ghost["Active_outer"]


def _mpc_post_deleted_iff_unreferenced(c):
    cache, refs = G(c, "provide_cache"), G(c, "provide_references")
    pid = c.old("provide_id").t
    return z3.And(
        z3.Select(CACHE.has(cache), pid) == z3.Select(REFS.has(refs), pid),
        z3.Implies(z3.Select(REFS.has(refs), pid), z3.And(SS.size(z3.Select(REFS.val(refs), pid)) >= 1,
                                                          z3.Not(z3.Select(SS.has(z3.Select(REFS.val(refs), pid)), pid)))))


def _mpc_sweep_inv(c):
    """error path: every reference id still listed was there before the body, or is a not-yet-visited new one"""
    ids = G(c, "all_reference_ids")
    before = c["all_reference_ids_before"].t
    new = c["new_reference_ids"].t
    K, i = c["_seq0"].t, c["_i0"].t
    r = z3.Const("bv_r", S)
    return z3.ForAll([r], z3.Implies(z3.Select(IDS.has(ids), r), z3.Or(z3.Select(IDS.has(before), r),
                                                                         z3.And(z3.Select(IDS.has(new), r), ops.keypos(K, r) >= i))))


def _mpc_no_new_reference_survives(c):
    """on a failure, no reference registered inside the failed body survives (those components will never render)"""
    r = z3.Const("bv_r", S)
    return z3.ForAll([r], z3.Implies(z3.Select(IDS.has(G(c, "all_reference_ids")), r), z3.Select(IDS.has(G(c, "all_reference_ids", True)), r)))


_MPC_REQ = [ginv,
            lambda c: z3.Select(CACHE.has(G(c, "provide_cache")), c["provide_id"].t),
            lambda c: z3.Not(z3.Select(SS.has(active(c)), c["provide_id"].t)),
            lambda c: z3.Not(z3.Select(REFS.has(G(c, "provide_references")), c["provide_id"].t)),
            lambda c: z3.Not(z3.Select(IDS.has(G(c, "all_reference_ids")), c["provide_id"].t))]

REG.contract(
    f"{PMOD}:managed_provide_cache", prop=P, types={"provide_id": Str}, globals=GLOBALS, ghost=GHOST,
    locals={"all_reference_ids_before": IDS, "new_reference_ids": IDS},
    requires=_MPC_REQ, yield_hook=_mpc_yield, ghost_update=_mpc_ghost_exit,
    modifies=["provide_cache", "provide_references", "all_reference_ids"],
    raises={"Any": None},
    loops={0: Loop(inv=[ginv, _no_component_id_is_a_provider, lambda c: z3.Select(SS.has(active(c)), c["provide_id"].t), _mpc_sweep_inv,
                        lambda c: c["all_reference_ids_before"].t == G(c, "all_reference_ids", True)], variant="len(_seq0) - _i0")},
    ensures={"ginv": ginv, "deleted_iff_unreferenced": _mpc_post_deleted_iff_unreferenced},
    xensures={"Any": {"ginv": ginv, "deleted_iff_unreferenced": _mpc_post_deleted_iff_unreferenced,
                      "no_reference_registered_in_the_failed_body_survives": _mpc_no_new_reference_survives}},
)


# ------------------------------------------------------------------------------------------- replay on the real code
def _django():
    import django
    from django.conf import settings
    if not settings.configured:
        from tests.django_test_setup import setup_test_config
        setup_test_config({"autodiscover": False})


@REG.replay(f"{PMOD}:managed_provide_cache")
def _replay_mpc(model, ob):
    """The refuted clause says: while a provider's body runs (Active) its data may disappear / is not protected by the
    registries.  Concrete history that exercises exactly that: a page-level provider with sibling consumers."""
    _django()
    from django.template import Context, Template
    from django_components import Component, register, registry
    from django_components.perfutil import provide as pp

    name = "c05_replay_inj"
    try:
        registry.unregister(name)
    except Exception:
        pass

    @register(name)
    class Inj(Component):
        template = "<i>{{ v }}</i>"

        def get_context_data(self):
            return {"v": self.inject("k").x}

    src = '{% load component_tags %}{% provide "k" x=1 %}' + ('{% component "' + name + '" / %}') * 2 + "{% endprovide %}"
    before = (dict(pp.provide_cache), dict(pp.provide_references), set(pp.all_reference_ids))
    try:
        out = Template(src).render(Context({}))
        ok = out.count(">1</i>") == 2
        observed = out
    except Exception as e:
        ok, observed = False, f"{type(e).__name__}: {e}"
    finally:
        registry.unregister(name)
    leak = (dict(pp.provide_cache), dict(pp.provide_references), set(pp.all_reference_ids)) != before
    return {"confirmed": (not ok) or leak, "function": "Template.render of a page-level provider with two sibling consumers",
            "inputs": {"template": src}, "expected": "<i>1</i><i>1</i> and registries as before", "observed": observed, "registries_changed": leak}


# ------------------------------------------------------------------------------------------- replay on the real code
def _provide_battery(model, ob):
    """small registry states (2 providers, 3 reference ids, every assignment of reference sets) driven through the real
    functions, against the set semantics of the contracts: unregister removes the id everywhere and deletes exactly the
    providers left without references; register adds the id to every visible provider; a provider body that raises
    leaves no reference registered in it behind; an active provider's data stays until its body ends"""
    import itertools
    from django.conf import settings
    if not settings.configured:
        from tests.django_test_setup import setup_test_config
        setup_test_config({"autodiscover": False})
    from django.template import Context
    import django_components.perfutil.provide as pv
    saved = (dict(pv.provide_cache), {k: set(v) for k, v in pv.provide_references.items()}, set(pv.all_reference_ids))

    def load(cache, refs, allr):
        pv.provide_cache.clear(); pv.provide_cache.update(cache)
        pv.provide_references.clear(); pv.provide_references.update({k: set(v) for k, v in refs.items()})
        pv.all_reference_ids.clear(); pv.all_reference_ids.update(allr)

    def snap():
        return (dict(pv.provide_cache), {k: set(v) for k, v in pv.provide_references.items()}, set(pv.all_reference_ids))
    try:
        rs = ["r1", "r2", "r3"]
        subsets = [set(c) for n in range(1, 4) for c in itertools.combinations(rs, n)]
        # unregister
        for s1, s2 in itertools.product(subsets, repeat=2):
            for gone in rs:
                load({"p1": "d1", "p2": "d2"}, {"p1": s1, "p2": s2}, s1 | s2)
                pv.unregister_provide_reference(gone)
                want_refs = {p: s - {gone} for p, s in (("p1", s1), ("p2", s2)) if (s - {gone}) or gone not in (s1 | s2)}
                if gone not in (s1 | s2):
                    want_refs = {"p1": s1, "p2": s2}
                want = ({p: d for p, d in (("p1", "d1"), ("p2", "d2")) if p in want_refs}, want_refs, (s1 | s2) - {gone})
                if snap() != want:
                    return {"confirmed": True, "function": "unregister_provide_reference", "inputs": {"provide_references": {"p1": sorted(s1), "p2": sorted(s2)}, "reference_id": gone},
                            "expected": repr(want), "observed": repr(snap())}
        # register
        for visible in ([], ["p1"], ["p1", "p2"]):
            for cache in ({}, {"p1": "d1", "p2": "d2"}):
                load(cache, {p: {p} for p in cache}, set())
                ctx = Context({"_DJC_INJECT__k%d" % i: p for i, p in enumerate(visible)})
                ctx.update({"other": 1})
                pv.register_provide_reference(ctx, "r9")
                if not cache:
                    want = ({}, {}, set())
                else:
                    want = (cache, {p: ({p, "r9"} if p in visible else {p}) for p in cache}, {"r9"})
                if snap() != want:
                    return {"confirmed": True, "function": "register_provide_reference", "inputs": {"visible providers": visible, "provide_cache": cache},
                            "expected": repr(want), "observed": repr(snap())}
        # managed_provide_cache: body registers consumers, finishes or raises
        for fail in (False, True):
            for consumers in ([], ["c1"], ["c1", "c2"]):
                load({}, {}, set())
                try:
                    with pv.managed_provide_cache("p1"):
                        pv.provide_cache["p1"] = "d1"
                        ctx = Context({"_DJC_INJECT__k": "p1"})
                        for cns in consumers:
                            pv.register_provide_reference(ctx, cns)
                        if "p1" not in pv.provide_cache:
                            return {"confirmed": True, "function": "managed_provide_cache", "inputs": {"consumers": consumers}, "expected": "provider data present while its body runs", "observed": repr(snap())}
                        if consumers and not fail:
                            pv.unregister_provide_reference(consumers[0])
                            if "p1" not in pv.provide_cache:
                                return {"confirmed": True, "function": "managed_provide_cache", "inputs": {"consumers": consumers, "event": "first consumer finished"},
                                        "expected": "an ACTIVE provider keeps its data", "observed": repr(snap())}
                        if fail:
                            raise KeyError("boom")
                except KeyError:
                    pass
                left = consumers[1:] if not fail else []
                want = ({"p1": "d1"}, {"p1": set(left)}, set(left)) if left else ({}, {}, set())
                if snap() != want:
                    return {"confirmed": True, "function": "managed_provide_cache", "inputs": {"consumers": consumers, "body": "raises" if fail else "returns"},
                            "expected": repr(want), "observed": repr(snap())}
    finally:
        load(*saved)
    return {"confirmed": False}


for _fn in ("register_provide_reference", "unregister_provide_reference"):
    REG.replays[f"{PMOD}:{_fn}"] = _provide_battery


def _mpc_both(model, ob):
    r = _provide_battery(model, ob)
    return r if r.get("confirmed") else _replay_mpc(model, ob)


REG.replays[f"{PMOD}:managed_provide_cache"] = _mpc_both

import contracts.c03  # noqa: E402,F401  (make_isolated_context_copy passes the inject keys through: shared with C03)


def _bounded_provide(tier, repo):
    from harness.bounded_provide import run
    return run(repo, 2)


REG.bounded_check("bounded#inject_returns_the_nearest_enclosing_provide", P, _bounded_provide,
                  note="ProvideNode.render / Component.inject / _render_impl are not under contract: 63 pages nesting provide blocks for 2 keys, consumers (single and sibling pairs) and a wrapper component to depth 3 x 2 modes are rendered for real and compared with the property (nearest enclosing provide; KeyError outside every provide; registries empty after a successful render)")

import contracts.c05b  # noqa: E402,F401  (get_injected_context_var / set_provided_context_var)
