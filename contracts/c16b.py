"""C16 - the media worklist: _get_comp_cls_media.

From the property ("Component.media contains exactly the union of the JS/CSS files declared in the class's own Media and,
transitively, in the bases selected by Media.extend (all bases / none / the listed classes) ...; the result does not depend on
which class is accessed first"):  let
    sel(c)  = the classes c's OWN Media selects: all of c.__bases__ when c has no own Media or extend is True, none when extend is
              False, the listed classes otherwise;
    M(c)    = own(c) (+) M(b1) (+) ... (+) M(bk)   for sel(c) = [b1..bk], where own(c) is the media built from c's own js / css
              lists and (+) is Django's Media merge followed by re-wrapping in the component's media class
(M is defined by recursion over the class graph).  PROVED for every class graph, every state of the process-wide memo that
satisfies its invariant (every memoised class c holds M(c)) and every first-access order: the function returns M(comp_cls),
keeps the memo's invariant, never changes an existing entry, and never raises KeyError.
NOT proved: termination (a cyclic `extend` list would spin; the class graph of real classes is finite and acyclic); what
Django's merge does to file lists ("each once", order) is Django's (A-DJ) - (+) is opaque here.
REGION of the known finding F-C16: the code reads `Media` through the inherited attribute lookup, so for a class WITHOUT its own
Media that inherits one from an ancestor the code's view of `extend` / js / css is the ancestor's.  The clauses are proved for
class graphs outside that region (every class either has its own Media or sees none); the finding is re-confirmed natively.
"""
import ast

import z3

import contracts.c16 as c16
from contracts.common import CLS
from pyvc import ops
from pyvc.contracts import REG, Any_, Bool, Dict, Int, Loop, Obj, Opt, Seq, Str, Tup
from pyvc.interp import EngineError
from pyvc.types import NONE, Conc, TBool, TInt, TOpt, TStr, Val, VTuple

P = "C16"
MOD = "django_components.component_media"
S, I, B = z3.StringSort(), z3.IntSort(), z3.BoolSort()
CLASSES = Seq(CLS)
MI = Obj("MediaDeclaration")              # a `class Media:` object
OMI = TOpt(MI)
FILES = Obj("MediaFileLists")             # the value of a js / css declaration or of Media._js / ._css
MV = Obj("MediaValue")                    # a (component) Media instance
OMV = TOpt(MV)
EXT = Tup(TInt, CLASSES, tag="MediaExtend", fields=["kind", "listed"])      # kind 0: True, 1: False, 2: a list of classes
CACHE = Dict(CLS, MV)


def bases_of(c):
    return ops.uf("class_bases", CLS.sort(), CLASSES.sort())(c)


def own_media(c):
    """the class's OWN `Media` declaration (from its own namespace), or none"""
    return ops.uf("class_own_media_declaration", CLS.sort(), OMI.sort())(c)


def seen_media(c):
    """what getattr(c, "Media", None) returns: the nearest declaration in the MRO, or none"""
    return ops.uf("class_media_by_attribute_lookup", CLS.sort(), OMI.sort())(c)


def ext_of(m):
    return ops.uf("media_declaration_extend", MI.sort(), EXT.sort())(m)


def js_of(m):
    return ops.uf("media_declaration_js", MI.sort(), FILES.sort())(m)


def css_of(m):
    return ops.uf("media_declaration_css", MI.sort(), FILES.sort())(m)


NO_JS, NO_CSS = z3.Const("media_default_js_empty_list", FILES.sort()), z3.Const("media_default_css_empty_dict", FILES.sort())


def mk_media(js, css):
    return ops.uf("media_cls_new", FILES.sort(), FILES.sort(), MV.sort())(js, css)


def plus(a, b):
    return ops.uf("django_media_add", MV.sort(), MV.sort(), MV.sort())(a, b)


def js_part(m):
    return ops.uf("media_value_js", MV.sort(), FILES.sort())(m)


def css_part(m):
    return ops.uf("media_value_css", MV.sort(), FILES.sort())(m)


def step(acc, base_media):
    """media = media_cls(js=(media + base_media)._js, css=(media + base_media)._css)"""
    return mk_media(js_part(plus(acc, base_media)), css_part(plus(acc, base_media)))


# ---- the specification (from the property, over the class's OWN declaration)
def sel(c):
    om = own_media(c)
    e = ext_of(OMI.get(om))
    return z3.If(z3.Or(OMI.is_none(om), EXT.proj(e, 0) == 0), bases_of(c), z3.If(EXT.proj(e, 0) == 1, z3.Empty(CLASSES.sort()), EXT.proj(e, 1)))


def own(c):
    om = own_media(c)
    return z3.If(OMI.is_none(om), mk_media(NO_JS, NO_CSS), mk_media(js_of(OMI.get(om)), css_of(OMI.get(om))))


def _M():
    return z3.Function("c16_media_of_class", CLS.sort(), MV.sort())


def _fold():
    return z3.Function("c16_media_fold", CLS.sort(), I, MV.sort())


def _entry(run, fr):
    M, fold = _M(), _fold()
    c = z3.FreshConst(CLS.sort(), "c")
    k = z3.FreshConst(I, "k")
    for ax in (
        z3.ForAll([c], fold(c, 0) == own(c)),
        z3.ForAll([c, k], z3.Implies(z3.And(0 <= k, k < z3.Length(sel(c))), fold(c, k + 1) == step(fold(c, k), M(sel(c)[k])))),
        z3.ForAll([c], M(c) == fold(c, z3.Length(sel(c)))),
        # outside the region of F-C16: the attribute lookup sees the class's own declaration, or nothing
        z3.ForAll([c], seen_media(c) == own_media(c)),
        # typing: an `extend` is True, False or a list
        z3.ForAll([z3.Const("bv_m", MI.sort())], z3.And(EXT.proj(ext_of(z3.Const("bv_m", MI.sort())), 0) >= 0, EXT.proj(ext_of(z3.Const("bv_m", MI.sort())), 0) <= 2)),
    ):
        run.pc.append(ax)


# ---- the code's vocabulary
def _getattr3(run, args, kwargs, node):
    obj = args[0]
    name = z3.simplify(run.coerce(args[1], TStr).t)
    if not z3.is_string_value(name):
        raise EngineError("getattr with a computed name")
    name = name.as_string()
    if isinstance(obj, Val) and obj.ty == CLS and name == "Media":
        return Val(OMI, seen_media(obj.t))
    if isinstance(obj, Val) and obj.ty == CLS and name == "media_class":
        return Conc(("obj_kind", "media_cls", obj))
    if isinstance(obj, Val) and obj.ty in (OMI, MI):
        none = OMI.is_none(obj.t) if obj.ty == OMI else z3.BoolVal(False)
        m = OMI.get(obj.t) if obj.ty == OMI else obj.t
        if name == "extend":
            return Val(EXT, z3.If(none, EXT.mk(z3.IntVal(0), z3.Empty(CLASSES.sort())), ext_of(m)))       # default True
        if name == "js":
            return Val(FILES, z3.If(none, NO_JS, js_of(m)))
        if name == "css":
            return Val(FILES, z3.If(none, NO_CSS, css_of(m)))
    raise EngineError(f"getattr({obj}, {name!r}, default) is not modelled")


REG.stub(("is_true", "MediaExtend"), lambda run, v: EXT.proj(v.t, 0) == 0)
REG.stub(("is_false", "MediaExtend"), lambda run, v: EXT.proj(v.t, 0) == 1)
REG.stub(("coerce", "MediaExtend", CLASSES.name), lambda run, v, ty: Val(CLASSES, EXT.proj(v.t, 1)))
REG.stub(("iter", "MediaExtend"), lambda run, v: Val(CLASSES, EXT.proj(v.t, 1)))
REG.stub(("getattr", "CompClass", "__bases__"), lambda run, obj, node: Val(CLASSES, bases_of(obj.t)))
REG.stub(("binop", "Add", "MediaValue"), lambda run, a, b, node: Val(MV, plus(a.t, run.coerce(b, MV).t)))
REG.stub(("getattr", "MediaValue", "_js"), lambda run, obj, node: Val(FILES, js_part(obj.t)))
REG.stub(("getattr", "MediaValue", "_css"), lambda run, obj, node: Val(FILES, css_part(obj.t)))


def _media_cls(run, args, kwargs, node):
    return Val(MV, mk_media(run.coerce(kwargs["js"], FILES).t, run.coerce(kwargs["css"], FILES).t))


def _deque(run, args, kwargs, node):
    return ops.iter_to_seq(run, args[0], node) if not isinstance(args[0], VTuple) else ops.seq_from_items(run, args[0].items, CLASSES)


def _popleft(run, args, kwargs, node):
    fr = run.call_frame
    objnode = node.func.value
    st = run.ev(objnode, fr)
    n = z3.Length(st.t)
    run.oblige("safe#popleft_from_a_non_empty_deque", n > 0, kind="safe")
    head = Val(CLS, st.t[0])
    run.assign(objnode, Val(CLASSES, z3.Extract(st.t, 1, n - 1)), fr, writeback=True)
    return head


def _extendleft(run, args, kwargs, node):
    """bases_stack.extendleft(reversed(L)): L is put in front of the deque, in L's order"""
    a = node.args[0]
    if not (isinstance(a, ast.Call) and ast.unparse(a.func) == "reversed" and len(a.args) == 1):
        raise EngineError("extendleft of something other than reversed(<list>)")
    fr = run.call_frame
    L = ops.iter_to_seq(run, run.ev(a.args[0], fr), node)
    objnode = node.func.value
    st = run.ev(objnode, fr)
    run.assign(objnode, Val(CLASSES, z3.Concat(L.t, st.t)), fr, writeback=True)
    return NONE


def _cache_get(run, args, kwargs, node):
    g = run.globals["media_cache"]
    k = run.coerce(args[0], CLS).t
    return Val(OMV, z3.If(z3.Select(CACHE.has(g.t), k), OMV.some(z3.Select(CACHE.val(g.t), k)), OMV.none()))


# ---- invariants
def G(c, old=False):
    return (c.old("media_cache") if old else c["media_cache"]).t


def _memo_ok(c, g=None):
    g = G(c) if g is None else g
    x = z3.Const("bv_x", CLS.sort())
    return z3.ForAll([x], z3.Implies(z3.Select(CACHE.has(g), x), z3.Select(CACHE.val(g), x) == _M()(x)))


def _memo_grows(c):
    x = z3.Const("bv_x", CLS.sort())
    g0, g = G(c, True), G(c)
    return z3.ForAll([x], z3.Implies(z3.Select(CACHE.has(g0), x), z3.And(z3.Select(CACHE.has(g), x), z3.Select(CACHE.val(g), x) == z3.Select(CACHE.val(g0), x))))


def _outer(c):
    target = c.old("comp_cls").t
    return z3.And(_memo_ok(c), _memo_grows(c), c["comp_cls"].t == target,
                  z3.Or(z3.Contains(c["bases_stack"].t, z3.Unit(target)), z3.Select(CACHE.has(G(c)), target)))


def _inner(c):
    cur = c["curr_cls"].t
    k = c["_i1"].t
    j = z3.Const("bv_j", I)
    bases = c["_seq1"].t
    target = c.old("comp_cls").t
    return z3.And(_memo_ok(c), _memo_grows(c), c["comp_cls"].t == target, bases == sel(cur), c["media"].t == _fold()(cur, k),
                  z3.Not(z3.Select(CACHE.has(G(c)), cur)),
                  z3.ForAll([j], z3.Implies(z3.And(0 <= j, j < z3.Length(bases)), z3.Select(CACHE.has(G(c)), bases[j]))),
                  z3.Or(z3.Contains(c["bases_stack"].t, z3.Unit(target)), z3.Select(CACHE.has(G(c)), target), cur == target))


REG.contract(
    f"{MOD}:_get_comp_cls_media", prop=P, types={"comp_cls": CLS}, result=MV, entry=_entry,
    globals={"media_cache": CACHE}, locals={"bases_stack": CLASSES, "unresolved_bases": CLASSES, "media": MV, "bases": CLASSES},
    calls={"getattr": _getattr3, "media_cls": _media_cls, "deque": _deque, "bases_stack.popleft": _popleft, "bases_stack.extendleft": _extendleft,
           "media_cache.get": _cache_get},
    requires=[lambda c: _memo_ok(c)],
    modifies=["media_cache"], raises={},
    loops={0: Loop(inv=[_outer]), 1: Loop(inv=[_inner], variant="len(_seq1) - _i1")},
    ensures={
        "own_media_plus_the_media_of_the_selected_bases_transitively": lambda c: c["result"].t == _M()(c.old("comp_cls").t),
        "memo_holds_the_media_of_each_class_it_lists": lambda c: _memo_ok(c),
        "existing_memo_entries_unchanged": _memo_grows,
    },
)
