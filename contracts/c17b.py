"""C17 - ComponentsFileSystemFinder.find and .list: what the finder exposes (collectstatic and the dev server go through them).

From the property: a file is exposed "if and only if its name ends with an allowed suffix or matches an allowed pattern and
matches no forbidden one" and "no request path can resolve to a file outside the component directories":
  find(path, all)  - whatever it returns (one path, or a list of paths) is an EXISTING file BELOW one of the finder's locations
                     that satisfies the property's predicate; it returns a match exactly when some location has one
                     (a location's answer is find_location's, proved in c17);
  list(ignore)     - yields exactly the files of the existing location directories (in the order Django's get_files lists them)
                     that satisfy the predicate, each with the storage of its location - nothing else, none left out.
"""
import z3

import contracts.c17 as c17
from pyvc import ops
from pyvc.contracts import REG, Any_, Bool, Int, Loop, Obj, Opt, Seq, Str, Tup
from pyvc.types import NONE, Conc, TBool, TInt, TOpt, TStr, Val, VTuple

P = "C17"
MOD = "django_components.finders"
S, I, B = z3.StringSort(), z3.IntSort(), z3.BoolSort()
OS = TOpt(TStr)
from pyvc.contracts import Dict, Ref
CLS = "ComponentsFileSystemFinder"
LOC = Tup(TStr, TStr, tag="FinderLocation", fields=["prefix", "root"])
LOCS = Seq(LOC)
STRS = Seq(Str)
STORAGE = Obj("StorageObject")
FOUND = Tup(TBool, TStr, STRS, tag="FindResult", fields=["is_list", "one", "many"])
ALLOWED, FORBIDDEN = c17.ALLOWED, c17.FORBIDDEN


STORAGES = Dict(Str, STORAGE)
REG.heap_class(CLS, {"locations": LOCS, "storages": STORAGES}, module=MOD)


def locations(f):
    """self.locations in the ENTRY state (neither method assigns it: frame)"""
    return z3.Select(z3.Const(f"heap0!{CLS}.locations", z3.ArraySort(I, LOCS.sort())), f)


def storage_of(f, root):
    return z3.Select(STORAGES.val(z3.Select(z3.Const(f"heap0!{CLS}.storages", z3.ArraySort(I, STORAGES.sort())), f)), root)


def files_of(storage, ignore):
    """django.contrib.staticfiles.utils.get_files(storage, ignore_patterns): the relative paths of the files in the storage"""
    return ops.uf("storage_get_files", STORAGE.sort(), Obj("IgnorePatterns").sort(), STRS.sort())(storage, ignore)


def exposed(path):
    """THE PROPERTY's predicate  any_hit(ALLOWED, path) and not any_hit(FORBIDDEN, path), under its name: an opaque atom here,
    unfolded only in _is_path_valid's own unit (c17: `is_the_exposed_predicate`)"""
    return ops.uf("c17_exposed", S, B)(path)


REG.stub("os.path.isdir", lambda run, args, kwargs, node: Val(TBool, ops.uf("fs_isdir", S, B)(run.coerce(args[0], TStr).t)))
REG.stub("django.contrib.staticfiles.utils.get_files", lambda run, args, kwargs, node: Val(STRS, files_of(run.coerce(args[0], STORAGE).t, args[1].t)))
REG.stub(("coerce", "Str", "FindResult"), lambda run, v, ty: Val(FOUND, FOUND.mk(z3.BoolVal(False), v.t, z3.Empty(STRS.sort()))))
REG.stub(("coerce", STRS.name, "FindResult"), lambda run, v, ty: Val(FOUND, FOUND.mk(z3.BoolVal(True), z3.StringVal(""), v.t)))
REG.stub(("coerce", OS.name, "FindResult"), lambda run, v, ty: Val(FOUND, FOUND.mk(z3.BoolVal(False), OS.get(v.t), z3.Empty(STRS.sort()))))


# ---- find
def _good(c, p):
    """p is an existing, exposed file below one of the locations"""
    f = c.old("self").t
    L = locations(f)
    j = z3.Const("bv_j", I)
    return z3.And(ops.uf("fs_exists", S, B)(p), exposed(p),
                  z3.Exists([j], z3.And(0 <= j, j < z3.Length(L), c17.within(ops.uf("abspath", S, S)(LOC.proj(L[j], 1)), p))))


def _find_inv(c):
    m = c["matches"].t
    a = z3.Const("bv_a", I)
    return z3.ForAll([a], z3.Implies(z3.And(0 <= a, a < z3.Length(m)), _good(c, m[a])))


def _find_post(c):
    r = c["result"].t
    a = z3.Const("bv_a", I)
    many = FOUND.proj(r, 2)
    return z3.If(FOUND.proj(r, 0),
                 z3.ForAll([a], z3.Implies(z3.And(0 <= a, a < z3.Length(many)), _good(c, many[a]))),
                 z3.And(z3.Not(c.old("all").t), _good(c, FOUND.proj(r, 1))))


REG.contract(
    f"{MOD}:ComponentsFileSystemFinder.find", prop=P, types={"path": Str, "all": Bool}, result=FOUND,
    globals={"searched_locations": STRS}, locals={"matches": STRS},
    modifies=["searched_locations"], raises={"SuspiciousFileOperation": None},
    loops={0: Loop(inv=[_find_inv], variant="len(_seq0) - _i0")},
    ensures={"only_existing_exposed_files_below_a_location": _find_post},
)


# ---- list
PAIR = Tup(TStr, STORAGE, tag="ListedFile", fields=["path", "storage"])
PAIRS = Seq(PAIR)


def _yielded(c):
    return c.ghost["yielded"].t if "yielded" in c.ghost else z3.Empty(PAIRS.sort())


def _list_yield(run, fr):
    """`yield path, storage`: the consumer (collectstatic) receives the pair; GHOST: the sequence of pairs yielded so far"""
    v = run.ev(run.current_yield.value, fr) if getattr(run, "current_yield", None) is not None else None
    return v


def _spec():
    return z3.Function("c17_listed_upto", I, I, PAIRS.sort())      # listed(j, i): pairs due after locations[0..j) and the first i files of location j


def _list_entry(run, fr):
    f, ign = fr.vars["self"].t, fr.vars["ignore_patterns"].t
    L = locations(f)
    listed = _spec()
    j, i = z3.FreshConst(I, "j"), z3.FreshConst(I, "i")
    root = LOC.proj(L[j], 1)
    st = storage_of(f, root)
    files = files_of(st, ign)
    isdir = ops.uf("fs_isdir", S, B)(root)
    for ax in (
        listed(0, 0) == z3.Empty(PAIRS.sort()),
        z3.ForAll([j, i], z3.Implies(z3.And(0 <= j, j < z3.Length(L), isdir, 0 <= i, i < z3.Length(files)),
                                     listed(j, i + 1) == z3.If(exposed(files[i]), z3.Concat(listed(j, i), z3.Unit(PAIR.mk(files[i], st))), listed(j, i)))),
        z3.ForAll([j], z3.Implies(z3.And(0 <= j, j < z3.Length(L)), listed(j + 1, 0) == z3.If(isdir, listed(j, z3.Length(files)), listed(j, 0)))),
    ):
        run.pc.append(ax)
    run.ghost["yielded"] = Val(PAIRS, z3.Empty(PAIRS.sort()))


def _list_outer(c):
    return z3.And(_yielded(c) == _spec()(c["_i0"].t, 0), c["self"].t == c.old("self").t)


def _list_inner(c):
    f = c.old("self").t
    L = locations(f)
    j = c["_i0"].t
    root = LOC.proj(L[j], 1)
    return z3.And(_yielded(c) == _spec()(j, c["_i1"].t), c["self"].t == f, ops.uf("fs_isdir", S, B)(root),
                  c["_seq1"].t == files_of(storage_of(f, root), c.old("ignore_patterns").t), c["storage"].t == storage_of(f, root))


def _list_yield_hook(run, fr):
    path, storage = fr.lookup("path"), fr.lookup("storage")
    cur = run.ghost["yielded"].t
    run.ghost["yielded"] = Val(PAIRS, z3.Concat(cur, z3.Unit(PAIR.mk(run.coerce(path, TStr).t, run.coerce(storage, STORAGE).t))))
    return NONE


def _finder_inv(c):
    """class invariant established by __init__ (it creates one storage per location root; neither method changes the two fields)"""
    f = c["self"].t
    j = z3.Const("bv_j", I)
    st = z3.Select(z3.Const(f"heap0!{CLS}.storages", z3.ArraySort(I, STORAGES.sort())), f)
    return z3.ForAll([j], z3.Implies(z3.And(0 <= j, j < z3.Length(locations(f))), z3.Select(STORAGES.has(st), LOC.proj(locations(f)[j], 1))))


REG.contract(
    f"{MOD}:ComponentsFileSystemFinder.list", prop=P, requires=[_finder_inv], types={"ignore_patterns": Obj("IgnorePatterns")}, entry=_list_entry,
    yield_hook=_list_yield_hook, ghost={"yielded": PAIRS},
    modifies=[], raises={},
    loops={0: Loop(inv=[_list_outer], variant="len(_seq0) - _i0"), 1: Loop(inv=[_list_inner], variant="len(_seq1) - _i1")},
    ensures={"yields_exactly_the_exposed_files_of_the_existing_locations_with_their_storage":
             lambda c: _yielded(c) == _spec()(z3.Length(locations(c.old("self").t)), 0)},
)
