"""C10 - stock templating is preserved (clause 1 only; clause 2 is not decidable by function contracts, DESIGN section 4).

Clause 1 is decided syntactically: the two patched Template methods are AST-equal to the INSTALLED Django's methods
after the documented substitutions, plus a scan of every store into a Django module/class attribute.  Equality of the
lexers when no block tag holds a quote is C09.
"""
import ast
import hashlib
import os

from pyvc.contracts import REG
from pyvc.repo import SRC, load_module, all_repo_modules

P = "C10"
LEVEL = "proof"


def _django_base():
    import django.template.base as b
    path = b.__file__
    with open(path) as f:
        src = f.read()
    return path, src, ast.parse(src)


def _method(tree, cls, name):
    for n in tree.body:
        if isinstance(n, ast.ClassDef) and n.name == cls:
            for m in n.body:
                if isinstance(m, ast.FunctionDef) and m.name == name:
                    return m
    raise KeyError(f"{cls}.{name} not found in installed django.template.base")


def _strip(fn):
    """Drop docstring and annotations."""
    fn = ast.parse(ast.unparse(fn)).body[0]
    if fn.body and isinstance(fn.body[0], ast.Expr) and isinstance(fn.body[0].value, ast.Constant) and isinstance(fn.body[0].value.value, str):
        fn.body = fn.body[1:]
    fn.returns = None
    for a in fn.args.posonlyargs + fn.args.args + fn.args.kwonlyargs + ([fn.args.vararg] if fn.args.vararg else []) + ([fn.args.kwarg] if fn.args.kwarg else []):
        a.annotation = None
    for n in ast.walk(fn):
        if hasattr(n, "type_comment"):
            n.type_comment = None
    return fn


def _nested(modname, outer, inner):
    m = load_module(modname)
    for n in m.funcs[outer].node.body:
        if isinstance(n, ast.FunctionDef) and n.name == inner:
            return n
    raise KeyError(f"{inner} not found in {outer}")


def _dump(n):
    return ast.dump(n, annotate_fields=True, include_attributes=False)


def check_compile_nodelist():
    path, src, tree = _django_base()
    stock = _strip(_method(tree, "Template", "compile_nodelist"))
    ours = _strip(_nested("django_components.util.django_monkeypatch", "monkeypatch_template_compile_nodelist", "_compile_nodelist"))
    # substitution 1: the lexer selection + tokenize() of stock  |->  tokens = parse_template(self.source)
    body = list(stock.body)
    if not (isinstance(body[0], ast.If) and ast.unparse(body[0].test) == "self.engine.debug" and ast.unparse(body[1]) == "tokens = lexer.tokenize()"):
        return False, "installed Django's compile_nodelist does not start with the expected lexer selection"
    stock.body = [ast.parse("tokens = parse_template(self.source)").body[0]] + body[2:]
    # substitution 2: parser.extra_data  |->  getattr(parser, 'extra_data', {})   (same value whenever the attribute exists)
    s_stock = ast.unparse(stock).replace("self.extra_data = parser.extra_data", "self.extra_data = getattr(parser, 'extra_data', {})")
    stock2 = ast.parse(s_stock).body[0]
    stock2.name = ours.name
    ok = _dump(stock2) == _dump(ours)
    return ok, ("AST-equal to django.template.base.Template.compile_nodelist after lexer.tokenize() |-> parse_template(self.source)" if ok
                else "patched _compile_nodelist differs from stock beyond the lexer substitution:\n--- stock (substituted)\n" + ast.unparse(stock2) + "\n--- ours\n" + ast.unparse(ours))


EXPECTED_ISOLATED = """
if not hasattr(self, '_djc_is_component_nested'):
    isolated_context = True
else:
    isolated_context = not self._djc_is_component_nested
"""


def check_template_render():
    path, src, tree = _django_base()
    stock = _strip(_method(tree, "Template", "render"))
    ours = _strip(_nested("django_components.util.django_monkeypatch", "monkeypatch_template_render", "_template_render"))
    # the parametrisation block must be exactly the documented one: absent marker => True (= stock default)
    if _dump(ours.body[0]) != _dump(ast.parse(EXPECTED_ISOLATED).body[0]):
        return False, "the isolated_context selection is not the documented one (absent marker must give True):\n" + ast.unparse(ours.body[0])
    ours.body = ours.body[1:]
    import django.template.context as dctx
    with open(dctx.__file__) as f:
        ps = _strip(_method(ast.parse(f.read()), "RenderContext", "push_state"))
    dflt = dict(zip([a.arg for a in ps.args.args][-len(ps.args.defaults):], ps.args.defaults)) if ps.args.defaults else {}
    if "isolated_context" not in dflt or ast.unparse(dflt["isolated_context"]) != "True":
        return False, "installed Django's RenderContext.push_state no longer defaults isolated_context to True"
    s_stock = ast.unparse(stock).replace("push_state(self)", "push_state(self, isolated_context=isolated_context)").replace("self._render(context)", "self._render(context, *args, **kwargs)")
    stock2 = ast.parse(s_stock).body[0]
    stock2.name = ours.name
    stock2.args = ours.args      # (self, context, *args, **kwargs): extra arguments are only forwarded to _render
    if ast.unparse(ours.args) != "self, context, *args, **kwargs":
        return False, "unexpected signature of _template_render: " + ast.unparse(ours.args)
    ok = _dump(stock2) == _dump(ours)
    return ok, ("AST-equal to django.template.base.Template.render after push_state(self) |-> push_state(self, isolated_context=ic), ic == True when the marker is absent"
                if ok else "patched _template_render differs from stock:\n--- stock (substituted)\n" + ast.unparse(stock2) + "\n--- ours\n" + ast.unparse(ours))


ALLOWED_STORES = {
    ("django_components.util.django_monkeypatch", "template_cls.compile_nodelist"),
    ("django_components.util.django_monkeypatch", "template_cls.render"),
    ("django_components.util.django_monkeypatch", "template_cls._djc_patched"),
}


def _django_names(m):
    """Local names bound to django modules / classes by imports (module level and inside functions)."""
    names = set()
    for n in ast.walk(m.tree):
        if isinstance(n, ast.ImportFrom) and n.module and n.module.split(".")[0] == "django":
            for a in n.names:
                names.add(a.asname or a.name)
        elif isinstance(n, ast.Import):
            for a in n.names:
                if a.name.split(".")[0] == "django":
                    names.add(a.asname or a.name.split(".")[0])
    return names


def scan_django_stores():
    """Every `X.attr = ...` / setattr(X, ...) in the package where X is a Django module or class (or the Template class
    passed to the monkeypatch).  Returns the list found."""
    found = []
    for modname in all_repo_modules():
        m = load_module(modname)
        dj = _django_names(m) | ({"template_cls"} if modname.endswith("django_monkeypatch") else set())
        for n in ast.walk(m.tree):
            targets = []
            if isinstance(n, ast.Assign):
                targets = n.targets
            elif isinstance(n, (ast.AugAssign, ast.AnnAssign)):
                targets = [n.target]
            for t in targets:
                if isinstance(t, ast.Attribute):
                    root = t.value
                    while isinstance(root, ast.Attribute):
                        root = root.value
                    if isinstance(root, ast.Name) and root.id in dj:
                        found.append((modname, ast.unparse(t), n.lineno))
            if isinstance(n, ast.Call) and isinstance(n.func, ast.Name) and n.func.id == "setattr" and n.args and isinstance(n.args[0], ast.Name) and n.args[0].id in dj:
                found.append((modname, "setattr(" + ast.unparse(n.args[0]) + ", ...)", n.lineno))
    return found


def check_no_other_patch():
    found = scan_django_stores()
    extra = [f for f in found if (f[0], f[1]) not in ALLOWED_STORES and f[1] != "base.tag_re"]
    ok = not extra
    return ok, ("stores into Django objects: " + "; ".join(f"{m}:{ln} {t}" for m, t, ln in found) if ok else "unexpected store into a Django module/class: " + str(extra))


def check_tag_re_not_rebound():
    """Installing the app must not change how STOCK templates lex.  ComponentsConfig.ready() rebinds
    django.template.base.tag_re to a DOTALL regex when COMPONENTS.multiline_tags is on (the default): known finding F-C10a."""
    found = [f for f in scan_django_stores() if f[1] == "base.tag_re"]
    return (not found), ("no rebinding of django.template.base.tag_re" if not found else
                         f"django.template.base.tag_re is rebound at {found[0][0]}:{found[0][2]} (global change of Django's lexer for every template)")


REG.syntactic_check("syn#compile_nodelist_equals_stock_modulo_lexer", P, check_compile_nodelist)
REG.syntactic_check("syn#template_render_equals_stock_modulo_isolated_context", P, check_template_render)
REG.syntactic_check("syn#no_other_store_into_django_objects", P, check_no_other_patch)
REG.syntactic_check("syn#tag_re_not_rebound", P, check_tag_re_not_rebound)


def EVIDENCE_EXTRA():
    import django
    path, src, _ = _django_base()
    return {"django_version": django.get_version(), "django_template_base": path, "django_template_base_sha256": hashlib.sha256(src.encode()).hexdigest(),
            "clause_2": "NOT DECIDED: extends / include / block.super inlining through components is an equivalence between whole programs; no function contract expresses it (DESIGN section 4)",
            "depends_on": "C09 (parse_template == stock lexer when no block tag holds a quote)"}


def _f10a(w):
    import django.template.base as b
    import re
    from django.conf import settings
    if not settings.configured:
        from tests.django_test_setup import setup_test_config
        setup_test_config({"autodiscover": False})
    return bool(b.tag_re.flags & re.DOTALL)


FINDING_REPLAYS = {"F-C10a": _f10a}
ASSUMES = ["A-PY"]
def _bounded_composition(tier, repo):
    from harness.bounded_composition import run
    return run(repo)


REG.bounded_check("bounded#template_families_render_like_their_hand_flattened_twin", P, _bounded_composition,
                  note="clause 2 has NO deductive part (no function-level contract expresses 'renders like the hand-flattened template'): 240 template families (extends / block / block.super / include around and inside components, a component whose slot sits in an included partial, a component whose template extends a base, slot pass-through) x 2 context modes are rendered for real next to their hand-flattened twins")

NOT_COVERED = ["clause 2 of the property (composition of extends/include/block with components) is NOT decided deductively; it is covered only by the BOUNDED stand-in bounded#template_families_render_like_their_hand_flattened_twin (240 families x 2 modes, never counted as proved)",
               "AST equality is against the Django installed in this image (version and sha256 in the evidence)"]


def _bounded_stock(tier, repo):
    from harness.bounded_stock import run
    return run(repo)


REG.bounded_check("bounded#stock_templates_render_identically_with_and_without_the_library", P, _bounded_stock,
                  note="clause 1 beyond the two patched methods: 284 stock templates x 3 contexts are rendered in two processes (stock Django / Django with django_components installed) and output, error type and the Context left behind must be identical for every template stock Django accepts; the multi-line-tag templates are the region of the known finding F-C10a")

# clause 1 delegates "the lexers agree on templates without quoted block tags" to the C09 contracts; the one syntactic
# obligation those contracts rest on (the shape of the take-until patterns) is therefore an obligation of C10 as well
import contracts.c09 as _c09  # noqa: E402

REG.syntactic_check("syn#take_until_patterns", P, _c09.check_take_until_patterns)
