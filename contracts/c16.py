"""C16 - component assets = own class plus the bases selected by Media.extend.

PROVED: the MRO walk - _get_comp_cls_attr returns the member from the NEAREST class in the MRO that defines either member
of the pair (template/template_file, js/js_file, css/css_file), for every MRO, every attribute name and every state of
the per-class media objects; ComponentMedia.__post_init__ rejects exactly the classes that define both members of a pair.
KNOWN FINDING (F-C16, re-confirmed natively on every run): _get_comp_cls_media reads `Media` through the same inherited
lookup, so a class WITHOUT its own Media inherits its first base's `extend` setting and drops the other bases.
"""
import z3

from contracts.common import CLS
from pyvc import ops
from pyvc.contracts import REG, Any_, Bool, Dict, Int, Loop, Obj, Opt, Ref, Seq, Str, Tup
from pyvc.interp import EngineError
from pyvc.types import NONE, Conc, TAny, TBool, TInt, TOpt, TRef, TSeq, TStr, Val, VTuple

P = "C16"
MOD = "django_components.component_media"
S, I, B = z3.StringSort(), z3.IntSort(), z3.BoolSort()
PV = TAny.sort()
MEDIA = "ComponentMedia"
VALUES = Dict(Str, Any_)
MRO = Seq(CLS)
REG.heap_class(MEDIA, {"resolved": Bool, "values": VALUES, "comp_cls": CLS}, module=MOD)


def mro_of(c):
    return ops.uf("class_mro", CLS.sort(), MRO.sort())(c)


def media_of(c):
    """cls._component_media (0 = the class has none)"""
    return ops.uf("class_component_media", CLS.sort(), I)(c)


REG.stub(("method", "CompClass", "mro"), lambda run, obj, args, kwargs, node: Val(MRO, mro_of(obj.t)))


def _cls_getattr(run, obj, node):
    r = media_of(obj.t)
    run.assume(z3.And(r >= 0, r < run.next_ref))
    return Val(TRef(MEDIA), r)


REG.stub(("getattr", "CompClass", "_component_media"), _cls_getattr)


def attr_val(values_arr, ref, name):
    d = z3.Select(values_arr, ref)
    return z3.If(z3.Select(VALUES.has(d), name), z3.Select(VALUES.val(d), name), PV.NoneV)


def _dyn_getattr(run, args, kwargs, node):
    """getattr(obj, name[, None]) on a ComponentMedia with a possibly symbolic attribute name"""
    obj = args[0]
    if isinstance(obj, Val) and isinstance(obj.ty, TRef) and obj.ty.cls == MEDIA:
        name = run.coerce(args[1], TStr).t
        nm = z3.simplify(name)
        if z3.is_string_value(nm) and nm.as_string() in ("resolved", "comp_cls"):
            return run.load_field(obj.t, MEDIA, nm.as_string())
        run.implicit_raise(obj.t != 0, "AttributeError", node)
        return Val(TAny, attr_val(run.field_array(MEDIA, "values"), obj.t, name))
    if isinstance(obj, Val) and obj.ty == CLS:
        nm = z3.simplify(run.coerce(args[1], TStr).t)
        if z3.is_string_value(nm) and nm.as_string() == "_component_media":
            return _cls_getattr(run, obj, node)
    raise EngineError("dynamic getattr on an object that is neither a ComponentMedia nor a component class")


def _dyn_setattr(run, args, kwargs, node):
    """setattr(media_obj, name, value): stores into the object's attribute table"""
    obj = args[0]
    if isinstance(obj, Val) and isinstance(obj.ty, TRef) and obj.ty.cls == MEDIA:
        cur = run.load_field(obj.t, MEDIA, "values")
        new = ops.setitem(run, cur, run.coerce(args[1], TStr), run.coerce(args[2], TAny), node)
        run.store_field(obj.t, MEDIA, "values", new)
        return NONE
    raise EngineError("setattr on an object that is not a ComponentMedia")


# ---- _resolve_media: ASSUMED (file-system work): marks the object resolved and preserves, for each pair, whether the pair is empty
PAIRS = [("js", "js_file"), ("css", "css_file"), ("template", "template_file")]


def _pair_empty(values_arr, ref, a, b):
    return z3.And(PV.is_NoneV(attr_val(values_arr, ref, z3.StringVal(a))), PV.is_NoneV(attr_val(values_arr, ref, z3.StringVal(b))))


def _resolve_post(c):
    m = c["comp_media"].t
    v0, v1 = c.field(MEDIA, "values", True), c.field(MEDIA, "values")
    r = z3.Const("bv_r", I)
    return z3.And(
        z3.Select(c.field(MEDIA, "resolved"), m),
        *[_pair_empty(v1, m, a, b) == _pair_empty(v0, m, a, b) for a, b in PAIRS],
        z3.ForAll([r], z3.Implies(r != m, z3.And(z3.Select(v1, r) == z3.Select(v0, r),
                                                 z3.Select(c.field(MEDIA, "resolved"), r) == z3.Select(c.field(MEDIA, "resolved", True), r)))))


REG.contract(f"{MOD}:_resolve_media", prop=P, verify=False, types={"comp_cls": CLS, "comp_media": Ref(MEDIA)},
             note="ASSUMED (resolves files on disk): marks the media object resolved; a pair that was empty stays empty and vice versa; no other object changes",
             requires=[lambda c: c["comp_media"].t > 0], modifies=[f"{MEDIA}.resolved", f"{MEDIA}.values"], raises={"Any": None},
             ensures={"resolved_pairs_preserved": _resolve_post})


# ================================================================================================ _get_comp_cls_attr
def _pair_of(attr):
    """(a, b) of the pair that `attr` belongs to, as terms; is_pair"""
    cases = [(z3.Or(attr == z3.StringVal(a), attr == z3.StringVal(b)), a, b) for a, b in PAIRS]
    return cases


def _skipped(values_arr, mro, j, attr):
    """class mro[j] does not decide the lookup of `attr`"""
    m = media_of(mro[j])
    pair_case = z3.Or(*[cond for cond, a, b in _pair_of(attr)])
    pair_empty = z3.Or(*[z3.And(cond, _pair_empty(values_arr, m, a, b)) for cond, a, b in _pair_of(attr)])
    return z3.Or(m == 0, z3.If(pair_case, pair_empty, PV.is_NoneV(attr_val(values_arr, m, attr))))


def _attr_inv(c):
    mro = mro_of(c["comp_cls"].t)
    i = c["_i0"].t
    j = z3.Const("bv_j", I)
    return z3.And(c["_seq0"].t == mro,
                  z3.ForAll([j], z3.Implies(z3.And(0 <= j, j < i), _skipped(c.field(MEDIA, "values"), mro, j, c["attr"].t))))


def _pairs_stable(c):
    """history clause: the lookup never changes WHICH classes define a pair (only resolution touches the objects, and it
    preserves emptiness) - so the answer for any other class is not affected by this call"""
    r = z3.Const("bv_r", I)
    v0, v1 = c.field(MEDIA, "values", True), c.field(MEDIA, "values")
    return z3.ForAll([r], z3.And(*[_pair_empty(v1, r, a, b) == _pair_empty(v0, r, a, b) for a, b in PAIRS]))


def _attr_post(c):
    mro = mro_of(c["comp_cls"].t)
    vals = c.field(MEDIA, "values")
    attr = c["attr"].t
    res = c["result"].t
    j, k = z3.Const("bv_j", I), z3.Const("bv_k", I)
    n = z3.Length(mro)
    none_case = z3.And(PV.is_NoneV(res), z3.ForAll([j], z3.Implies(z3.And(0 <= j, j < n), _skipped(vals, mro, j, attr))))
    found_case = z3.Exists([k], z3.And(0 <= k, k < n, z3.Not(_skipped(vals, mro, k, attr)),
                                       z3.ForAll([j], z3.Implies(z3.And(0 <= j, j < k), _skipped(vals, mro, j, attr))),
                                       res == attr_val(vals, media_of(mro[k]), attr)))
    return z3.Or(none_case, found_case)


REG.contract(
    f"{MOD}:_get_comp_cls_attr", prop=P, types={"comp_cls": CLS, "attr": Str}, result=Any_,
    calls={"getattr": _dyn_getattr, "setattr": _dyn_setattr},
    locals={"comp_media": Ref(MEDIA)},
    # every component class gets its OWN ComponentMedia object from the metaclass (classes in an MRO are distinct)
    requires=[lambda c: z3.ForAll([z3.Const("bv_j", I), z3.Const("bv_k", I)], z3.Implies(
        z3.And(0 <= z3.Const("bv_j", I), z3.Const("bv_j", I) < z3.Const("bv_k", I), z3.Const("bv_k", I) < z3.Length(mro_of(c["comp_cls"].t)),
               media_of(mro_of(c["comp_cls"].t)[z3.Const("bv_j", I)]) != 0),
        media_of(mro_of(c["comp_cls"].t)[z3.Const("bv_j", I)]) != media_of(mro_of(c["comp_cls"].t)[z3.Const("bv_k", I)])))],
    modifies=[f"{MEDIA}.resolved", f"{MEDIA}.values"], raises={"Any": None},
    loops={0: Loop(inv=[_attr_inv, _pairs_stable], variant="len(_seq0) - _i0")},
    ensures={"taken_from_the_nearest_class_that_defines_the_pair": _attr_post,
             "which_classes_define_a_pair_is_unchanged": _pairs_stable},
)


# ================================================================================================ ComponentMedia.__post_init__
def _self_getattr(run, args, kwargs, node):
    return _dyn_getattr(run, args, kwargs, node)


def _both_set(c, a, b, old=True):
    vals = c.field(MEDIA, "values", old)
    s = c["self"].t
    return z3.And(z3.Not(PV.is_NoneV(attr_val(vals, s, z3.StringVal(a)))), z3.Not(PV.is_NoneV(attr_val(vals, s, z3.StringVal(b)))))


REG.contract(
    f"{MOD}:ComponentMedia.__post_init__", prop=P, calls={"getattr": _self_getattr},
    modifies=[],
    raises={"ImproperlyConfigured": lambda c: z3.Or(*[_both_set(c, a, b) for a, b in PAIRS])},
    ensures={"accepted_only_without_a_doubly_defined_pair": lambda c: z3.Not(z3.Or(*[_both_set(c, a, b) for a, b in PAIRS]))},
)


# ================================================================================================ F-C16 (native witness)
def _f16(w):
    from django.conf import settings
    if not settings.configured:
        from tests.django_test_setup import setup_test_config
        setup_test_config({"autodiscover": False})
    from django_components import Component

    class A(Component):
        template = "a"

        class Media:
            extend = False
            js = ["a.js"]

    class Bc(Component):
        template = "b"

        class Media:
            js = ["b.js"]

    class C(A, Bc):
        template = "c"
    return "b.js" not in [str(x) for x in C.media._js]


FINDING_REPLAYS = {"F-C16": _f16}


def check_media_read_from_own_declaration():
    """From the property: the bases selected for class c come from c's OWN Media declaration.  _get_comp_cls_media must not
    obtain `Media` through the inherited attribute lookup (getattr(curr_cls, "Media", ...) resolves via the lazy descriptor
    = first class in the MRO that has one)."""
    import ast
    from pyvc.repo import load_module
    m = load_module(MOD)
    fn = m.funcs["_get_comp_cls_media"].node
    bad = [ast.unparse(n) for n in ast.walk(fn) if isinstance(n, ast.Call) and isinstance(n.func, ast.Name) and n.func.id == "getattr"
           and len(n.args) >= 2 and isinstance(n.args[1], ast.Constant) and n.args[1].value == "Media"]
    return (not bad), ("Media is not read through inherited attribute lookup" if not bad else f"inherited lookup of Media: {bad}")


REG.syntactic_check("syn#media_input_is_the_class_own_declaration", P, check_media_read_from_own_declaration)

ASSUMES = ["A-PY", "A-INST", "A-DJ"]
NOT_COVERED = [
    "_get_comp_cls_media's worklist is proved outside the region of F-C16 (contracts/c16b.py) with Django's Media merge as an opaque function; 'each file once, order consistent' at the level of file lists is covered only by the BOUNDED stand-in bounded#media_worklist_equals_own_plus_selected_bases (never counted as proved); termination of the worklist is not proved",
    "_resolve_media's contract is assumed (file-system resolution)",
    "django.forms.Media merging",
]


def _bounded_media(tier, repo):
    from harness.bounded_media import run
    return run(repo, 4)


REG.bounded_check("bounded#media_worklist_equals_own_plus_selected_bases", P, _bounded_media,
                  note="the worklist of _get_comp_cls_media is not under contract: every hierarchy of 4 classes with own Media (outside F-C16) is built for real and .media compared with the property, in two access orders")

import contracts.c16b  # noqa: E402,F401  (_get_comp_cls_media: the media worklist)
