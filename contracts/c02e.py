"""C02 - one atom of a tag argument: TagValuePart.serialize, TagValue.compile, TagValue.resolve.

From the property ("literals, variables and filter chains mean what they mean in a stock Django {{ }} expression"): an atom is
compiled ONCE, from exactly its own text (without a leading spread token) and with the parser of the template it was written
in - the parser is what binds filter names to the libraries that template loaded - into the stock FilterExpression, or, when
the atom is a single quoted string that contains template syntax, into a nested template; resolving the atom evaluates that
expression in the given context.  Nothing but the atom's own `compiled` field is written, and no state outside the atom
is consulted (a frame obligation: a process-wide memo keyed by the text alone would hand one template's filters to another).
"""
import z3

from pyvc import ops
from pyvc.contracts import REG, Any_, Bool, Int, Obj, Opt, Ref, Seq, Str, Tup
from pyvc.interp import ExcVal, PyRaise
from pyvc.types import TBool, TOpt, TStr, Val

P = "C02"
TP = "django_components.util.tag_parser"
S, I, B = z3.StringSort(), z3.IntSort(), z3.BoolSort()
OS = TOpt(TStr)
PART = Tup(TStr, OS, OS, TBool, OS, tag="TagValuePart", fields=["value", "quoted", "spread", "translation", "filter"])
PARTS = Seq(PART)
EXPR = Obj("CompiledExpression")
OEXPR = TOpt(EXPR)
PARSER = Obj("TemplateParser")
CTX = Obj("TemplateContext")
VALUE = Obj("PyValue")
TV = "TagValue"
REG.record("TagValuePart", PART)
REG.heap_class(TV, {"parts": PARTS, "compiled": OEXPR}, module=TP)


def opt_text(o):
    """f"{x}" of an Optional[str] that is known to be given, and "" for the falsy cases used by the code (None or empty)"""
    return z3.If(OS.is_none(o), z3.StringVal(""), OS.get(o))


def truthy(o):
    return z3.And(z3.Not(OS.is_none(o)), z3.Length(OS.get(o)) > 0)


def part_text(p):
    """canonical text of one part, from the documented syntax: [filter token] + ( _(quoted) | spread + quoted | quoted )"""
    v, q, sp, tr, fl = (PART.proj(p, k) for k in range(5))
    qv = z3.If(truthy(q), z3.Concat(OS.get(q), v, OS.get(q)), v)
    body = z3.If(tr, z3.Concat(z3.StringVal("_("), qv, z3.StringVal(")")), z3.If(truthy(sp), z3.Concat(OS.get(sp), qv), qv))
    return z3.If(truthy(fl), z3.Concat(OS.get(fl), body), body)


def part_wf(p):
    """the class invariant TagValuePart.__post_init__ enforces (objects that violate it cannot be constructed)"""
    v, q, sp, tr, fl = (PART.proj(p, k) for k in range(5))
    return z3.And(z3.Implies(tr, truthy(q)), z3.Implies(tr, z3.Not(truthy(sp))), z3.Implies(truthy(sp), z3.Not(truthy(fl))))


REG.contract(
    f"{TP}:TagValuePart.serialize", prop=P, types={"self": PART}, result=Str, modifies=[], raises={}, requires=[lambda c: part_wf(c["self"].t)],
    ensures={"canonical_text_of_the_part": lambda c: c["result"].t == part_text(c["self"].t)},
)


def parts_text(ps):
    """"".join(part.serialize() for part in parts)"""
    return ops.uf("tag_value_parts_text", PARTS.sort(), S)(ps)


def is_dynamic(t):
    """expression.is_dynamic_expression(text): a quoted string with {{ }} / {% %} / {# #} inside (the regex has a back-reference and
    is not translated; its reading is C02's whole-tag stand-in's business)"""
    return ops.uf("is_dynamic_expression_text", S, B)(t)


def stock_expr(t, parser):
    return ops.uf("django_FilterExpression", S, PARSER.sort(), EXPR.sort())(t, parser)


def nested_template(t, parser):
    return ops.uf("DynamicFilterExpression", PARSER.sort(), S, EXPR.sort())(parser, t)


def expr_value(e, ctx):
    return ops.uf("expression_resolve", EXPR.sort(), CTX.sort(), VALUE.sort())(e, ctx)


def _serialize_self(run, args, kwargs, node):
    s = run.call_frame.lookup("self")
    return Val(TStr, parts_text(z3.Select(run.field_array(TV, "parts"), s.t)))


def _new_stock(run, args, kwargs, node):
    if run.choose(2, None) == 1:
        raise PyRaise(ExcVal("TemplateSyntaxError", [], site="FilterExpression(text, parser): malformed expression / unknown filter"))
    return Val(EXPR, stock_expr(run.coerce(args[0], TStr).t, run.coerce(args[1], PARSER).t))


def _new_dynamic(run, args, kwargs, node):
    if run.choose(2, None) == 1:
        raise PyRaise(ExcVal("TemplateSyntaxError", [], site="DynamicFilterExpression(parser, text): nested template does not compile"))
    return Val(EXPR, nested_template(run.coerce(args[1], TStr).t, run.coerce(args[0], PARSER).t))


def _parts(c, old=True):
    return z3.Select(c.field(TV, "parts", old), c.old("self").t)


def _compiled(c, old=False):
    return z3.Select(c.field(TV, "compiled", old), c.old("self").t)


def _own_text(c):
    """the atom's text without the spread token of its first part"""
    ps = _parts(c)
    t = parts_text(ps)
    sp = PART.proj(ps[0], 2)
    is_spread = z3.And(z3.Length(ps) > 0, z3.Not(OS.is_none(sp)))
    off = z3.If(truthy(sp), z3.Length(OS.get(sp)), 0)
    return z3.If(is_spread, z3.SubString(t, off, z3.Length(t) - off), t)


def _compile_post(c):
    t = _own_text(c)
    parser = c.old("parser").t
    was = _compiled(c, True)
    want = z3.If(z3.And(z3.Length(_parts(c)) == 1, is_dynamic(t)), nested_template(t, parser), stock_expr(t, parser))
    return z3.If(OEXPR.is_none(was), _compiled(c) == OEXPR.some(want), _compiled(c) == was)


def _others_untouched(c):
    r = z3.Const("bv_r", I)
    return z3.ForAll([r], z3.Implies(r != c.old("self").t, z3.Select(c.field(TV, "compiled"), r) == z3.Select(c.field(TV, "compiled", True), r)))


REG.contract(
    f"{TP}:TagValue.compile", prop=P, types={"self": Ref(TV), "parser": PARSER},
    calls={"self.serialize": _serialize_self, "is_dynamic_expression": lambda run, args, kwargs, node: Val(TBool, is_dynamic(run.coerce(args[0], TStr).t)),
           "FilterExpression": _new_stock, "DynamicFilterExpression": _new_dynamic},
    requires=[lambda c: c["self"].t > 0],
    modifies=[f"{TV}.compiled"], raises={"TemplateSyntaxError": None},
    xensures={"TemplateSyntaxError": {"nothing_stored_when_the_expression_does_not_compile": lambda c: z3.And(_compiled(c) == _compiled(c, True), _others_untouched(c))}},
    ensures={
        "compiled_once_from_its_own_text_with_the_parser_of_its_template": _compile_post,
        "no_other_atom_touched": _others_untouched,
    },
)


def _expr_resolve(run, obj, args, kwargs, node):
    if run.choose(2, None) == 1:
        raise PyRaise(ExcVal("Any", [], site="compiled.resolve(context): user filters / variables"))
    return Val(VALUE, expr_value(obj.t, run.coerce(args[0], CTX).t), foreign=True)


REG.stub(("method", "CompiledExpression", "resolve"), _expr_resolve)


def _opt_expr_resolve(run, obj, args, kwargs, node):
    """`self.compiled.resolve(context)` on the Optional field: AttributeError if it is None"""
    run.oblige("safe#compiled_is_not_None_when_resolved", z3.Not(OEXPR.is_none(obj.t)), kind="safe", note="`.resolve` on self.compiled")
    return _expr_resolve(run, Val(EXPR, OEXPR.get(obj.t)), args, kwargs, node)


REG.stub(("method", OEXPR.name, "resolve"), _opt_expr_resolve)

REG.contract(
    f"{TP}:TagValue.resolve", prop=P, types={"self": Ref(TV), "context": CTX}, result=VALUE,
    requires=[lambda c: c["self"].t > 0],
    modifies=[], raises={"TemplateSyntaxError": lambda c: OEXPR.is_none(_compiled(c, True)), "Any": None},
    ensures={"value_of_the_compiled_expression_in_this_context": lambda c: z3.And(
        z3.Not(OEXPR.is_none(_compiled(c, True))), c["result"].t == expr_value(OEXPR.get(_compiled(c, True)), c.old("context").t))},
)


@REG.replay(f"{TP}:TagValue.compile")
def _replay_compile(model, ob):
    """two templates that load DIFFERENT libraries defining the same filter name, the same atom text in both; a spread atom; a
    nested-template atom; each compiled through the real parse_tag + TagValue.compile and evaluated"""
    from django.conf import settings
    if not settings.configured:
        from tests.django_test_setup import setup_test_config
        setup_test_config({"autodiscover": False})
    from django.template import Context, Engine, Library
    from django.template.base import Parser
    from django_components.util.tag_parser import parse_tag
    eng = Engine.get_default()
    la, lb = Library(), Library()
    la.filter("c02mark", lambda v: f"A:{v}")
    lb.filter("c02mark", lambda v: f"B:{v}")
    ctx = Context({"n": "x", "d": {"k": 1}})
    for rnd in range(2):
        for lib, tagv in ((la, "A"), (lb, "B")):
            parser = Parser([], eng.template_libraries, eng.template_builtins)
            parser.add_library(lib)
            for text, want in (("n|c02mark", f"{tagv}:x"), ("'v {{ n }}'", "v x"), ("...d", {"k": 1}), ("'lit'|c02mark", f"{tagv}:lit")):
                _t, attrs = parse_tag("t " + text, parser)
                got = attrs[1].value.resolve(ctx)
                if got != want:
                    return {"confirmed": True, "function": "TagValue.compile / resolve", "inputs": {"atom": text, "library loaded by the template": tagv, "round": rnd},
                            "expected": repr(want), "observed": repr(got)}
    return {"confirmed": False}


@REG.replay(f"{TP}:TagValuePart.serialize")
def _replay_part(model, ob):
    import itertools
    from django.conf import settings
    if not settings.configured:
        from tests.django_test_setup import setup_test_config
        setup_test_config({"autodiscover": False})
    from django.template.exceptions import TemplateSyntaxError
    from django_components.util.tag_parser import TagValuePart
    for v, q, sp, tr, fl in itertools.product(["x", ""], [None, "'", '"'], [None, "...", "*"], [False, True], [None, "|", ":"]):
        try:
            p = TagValuePart(value=v, quoted=q, spread=sp, translation=tr, filter=fl)
        except TemplateSyntaxError:
            continue
        qv = f"{q}{v}{q}" if q else v
        body = f"_({qv})" if tr else (f"{sp}{qv}" if sp else qv)
        want = (fl or "") + body
        if p.serialize() != want:
            return {"confirmed": True, "function": "TagValuePart.serialize", "inputs": {"value": v, "quoted": q, "spread": sp, "translation": tr, "filter": fl},
                    "expected": want, "observed": p.serialize()}
    return {"confirmed": False}
