"""C06 - a finished or failed render leaves nothing behind.

Exceptional postconditions at the raise points of the context managers of the render path: the SAME exception object
that user code raised escapes (never replaced by another one), annotated with the component path, and the managed state
(metadata stack, provide registries) is as on entry.
"""
import z3

import contracts.c05  # noqa: F401  (managed_provide_cache: exceptional postconditions shared)
from pyvc import ops
from pyvc.contracts import REG, Any_, Bool, Dict, Int, Loop, Obj, Opt, Ref, Seq, Str, Tup
from pyvc.interp import EngineError, ExcVal, PyRaise
from pyvc.types import NONE, Conc, TAny, TBool, TInt, TOpt, TSeq, TStr, Val, VTuple, mk_bool

P = "C06"
EXC = "django_components.util.exception"
COMP = "django_components.component"
S, I, B = z3.StringSort(), z3.IntSort(), z3.BoolSort()
PV = TAny.sort()
ARGS = Seq(Any_)
PATH = Seq(Str)
OPATH = TOpt(PATH)
REG.contracts["django_components.perfutil.provide:managed_provide_cache"].prop = ("C05", "C06")


# ------------------------------------------------------------------------------------------------ exception objects
# a user exception: dynamic attributes `args` (tuple of arbitrary values) and, once annotated, `_components`
def _exc_attrs(exc):
    if not hasattr(exc, "dyn"):
        exc.dyn = {"args": Val(ARGS, z3.FreshConst(ARGS.sort(), "exc_args")),
                   "_components": Val(OPATH, z3.FreshConst(OPATH.sort(), "exc_components"))}
    return exc.dyn


def _exc_of(v):
    if isinstance(v, Conc) and isinstance(v.obj, ExcVal):
        return v.obj
    raise EngineError(f"not an exception object: {v}")


def _hasattr(run, args, kwargs, node):
    exc = _exc_of(args[0])
    name = z3.simplify(run.coerce(args[1], TStr).t).as_string()
    if name == "_components":
        return Val(TBool, z3.Not(OPATH.is_none(_exc_attrs(exc)["_components"].t)))
    raise EngineError(f"hasattr(exc, {name!r})")


REG.stub(("builtin", "hasattr"), _hasattr)


def _exc_getattr(attr):
    def g(run, obj, node):
        exc = _exc_of(obj)
        d = _exc_attrs(exc)
        if attr == "_components":
            v = d["_components"]
            run.implicit_raise(z3.Not(OPATH.is_none(v.t)), "AttributeError", node, "_components")
            return Val(PATH, OPATH.get(v.t))
        return d[attr]
    return g


def _exc_setattr(attr):
    def s(run, obj, v, node):
        exc = _exc_of(obj)
        d = _exc_attrs(exc)
        if attr == "_components":
            if isinstance(v, Conc) and v.obj == ("emptylist",):
                v = Val(PATH, z3.Empty(PATH.sort()))
            d["_components"] = Val(OPATH, OPATH.some(run.coerce(v, PATH).t))
        elif attr == "args":
            d["args"] = run.coerce(v, ARGS)
        else:
            raise EngineError(f"setattr(exc, {attr})")
    return s


for _a in ("args", "_components"):
    REG.stub(("getattr", "conc:ExcVal", _a), _exc_getattr(_a))
    REG.stub(("setattr", "conc:ExcVal", _a), _exc_setattr(_a))


def _pv_split(run, obj, args, kwargs, node):
    """x.split(sep, 1) on a value of unknown type: AttributeError unless it is a str"""
    run.implicit_raise(z3.Or(PV.is_StrV(obj.t), PV.is_SafeV(obj.t)), "AttributeError", node, "split on a non-str exception argument")
    s = z3.If(PV.is_StrV(obj.t), PV.s(obj.t), PV.ss(obj.t))
    return _split1(run, s, run.coerce(args[0], TStr).t)


def _split1(run, s, sep):
    parts = ops.uf("str_split1", S, S, z3.SeqSort(S))(s, sep)
    run.assume(z3.And(z3.Length(parts) >= 1, z3.Length(parts) <= 2))
    return Val(Seq(Str), parts)


REG.stub(("method", "PyVal", "split"), lambda run, obj, args, kwargs, node: _pv_split(run, obj, args, kwargs, node))
REG.stub(("method", "Str", "split"), lambda run, obj, args, kwargs, node: _split1(run, obj.t, run.coerce(args[0], TStr).t))


# ------------------------------------------------------------------------------------------------ yield hooks
def _body_may_raise(run, fr):
    """The with-body: arbitrary user code; it may raise any exception object (possibly already annotated by an inner
    component_error_message / add_slot_to_error_message)."""
    if run.choose(2, None) == 1:
        exc = ExcVal("Any", [], site="with-body (user code)")
        _exc_attrs(exc)
        run.ghost["body_exc"] = Conc(exc)
        raise PyRaise(exc)
    return NONE


def _same_exception(c):
    raised = c["raised"].obj
    body = c.ghost["body_exc"].obj
    return z3.BoolVal(raised is body)


PREFIX = z3.StringVal("An error occured while rendering components ")


def _annotated(c):
    raised = c["raised"].obj
    args = _exc_attrs(raised)["args"].t
    a0 = args[0]
    return z3.And(z3.Length(args) == 1, PV.is_StrV(a0), z3.PrefixOf(PREFIX, PV.s(a0)))


REG.contract(
    f"{EXC}:component_error_message", prop=P, types={"component_path": PATH}, yield_hook=_body_may_raise,
    locals={"components": PATH},
    modifies=[],
    raises={"Any": None},        # only the user's exception may escape - in particular no AttributeError from the annotation code
    ensures={},
    xensures={"Any": {"the_original_exception_object_propagates": _same_exception, "annotated_with_the_component_path": _annotated}},
)

REG.contract(
    f"{EXC}:add_slot_to_error_message", prop=P, types={"component_name": Str, "slot_name": Str}, yield_hook=_body_may_raise,
    modifies=[], raises={"Any": None}, ensures={},
    xensures={"Any": {"the_original_exception_object_propagates": _same_exception}},
)

# ------------------------------------------------------------------------------------------------ Component._with_metadata
META = Obj("MetadataItem")
STACK = Seq(META)
REG.heap_class("Component", {"_metadata_stack": STACK}, module=COMP)


def _meta_body(run, fr):
    """body: nested renders of the same instance push and pop in a balanced way; may raise"""
    s = fr.vars["self"].t
    cur = z3.Select(run.field_array("Component", "_metadata_stack"), s)
    run.ghost["stack_in_body"] = Val(STACK, cur)
    return _body_may_raise(run, fr)


def _stack(c, old=False):
    return z3.Select(c.field("Component", "_metadata_stack", old), c["self"].t)


REG.contract(
    f"{COMP}:Component._with_metadata", prop=P, types={"item": META}, yield_hook=_meta_body,
    modifies=["Component._metadata_stack"], raises={"Any": None},
    ensures={"stack_restored": lambda c: _stack(c) == _stack(c, True)},
    xensures={"Any": {"stack_restored_on_error": lambda c: _stack(c) == _stack(c, True), "the_original_exception_object_propagates": _same_exception}},
)

ASSUMES = ["A-PY", "A-INST", "A-ID", "A-DJ"]
NOT_COVERED = [
    "Component._render_impl / component_post_render are not under contract: what a failed render leaves in the module-level registries, the caller's Context and its render_context is covered only by the BOUNDED stand-in bounded#failed_render_leaves_nothing_behind (72 scenarios, never counted as proved), which is where the known finding F-C06a comes from",
    "reachability after gc / memory growth is a heap-liveness notion, not expressible (DESIGN section 4)",
]


# ------------------------------------------------------------------------------------------- replay on the real code
@REG.replay(f"{EXC}:component_error_message")
def _replay_cem(model, ob):
    from django_components.util.exception import component_error_message
    for arg in (42, None, ("t",), "msg", b"x"):
        orig = ValueError(arg)
        try:
            with component_error_message(["Page", "Comp"]):
                raise orig
        except Exception as e:
            if e is not orig:
                return {"confirmed": True, "function": "component_error_message", "inputs": {"raise": f"ValueError({arg!r})", "component_path": ["Page", "Comp"]},
                        "expected": "the same ValueError object, annotated", "observed": f"{type(e).__name__}: {e}"}
    return {"confirmed": False}


@REG.replay(f"{COMP}:Component._with_metadata")
def _replay_wm(model, ob):
    from django.conf import settings
    if not settings.configured:
        from tests.django_test_setup import setup_test_config
        setup_test_config({"autodiscover": False})
    from django_components import Component

    class C(Component):
        template = "x"
    comp = C()
    before = len(comp._metadata_stack)
    try:
        with comp._with_metadata(object()):
            raise KeyError("boom")
    except KeyError:
        pass
    after = len(comp._metadata_stack)
    return {"confirmed": after != before, "function": "Component._with_metadata", "inputs": {"body": "raise KeyError('boom')"},
            "expected": f"stack depth {before}", "observed": f"stack depth {after}"}

import contracts.c06b  # noqa: E402,F401  (_prepare_template / _maybe_bind_template: Context layers restored, shared with C03)


def _bounded_failed_render(tier, repo):
    from harness.bounded_failed_render import run
    return run(repo)


REG.bounded_check("bounded#failed_render_leaves_nothing_behind", P, _bounded_failed_render,
                  note="Component._render_impl / component_post_render are not under contract: a user callback raises at every site of a render (5 sites x 3 positions x provide x 2 modes); registries, Context layers and render_context depth must be as before.  Known finding F-C06a delimits what IS left behind today (component_context_cache entries, one render_context layer); anything else is a violation")


# ------------------------------------------------------------------------------------------------ Component._render
# From the property ("The original exception type propagates to the caller (annotated with the component path) instead of being
# swallowed or replaced"): _render is _render_impl inside component_error_message([self.name]) - the SAME arguments go in, the
# result comes out unchanged, and when _render_impl raises, that very exception object leaves _render (annotated by the
# context manager, whose contract is above), whatever `raise err from None` does to its __cause__.
def _render_impl_stub(run, args, kwargs, node):
    run.ghost["impl_args"] = list(args)
    n = run.ghost.get("impl_calls")
    run.ghost["impl_calls"] = Val(TInt, (n.t if n is not None else z3.IntVal(0)) + 1)
    if run.choose(2, None) == 1:
        exc = ExcVal("Any", [], site="_render_impl (user code anywhere in the component tree)")
        _exc_attrs(exc)
        run.ghost["impl_exc"] = Conc(exc)
        raise PyRaise(exc)
    r = Val(TStr, z3.FreshConst(S, "rendered"))
    run.ghost["impl_result"] = r
    return r


REG.contract(f"{COMP}:Component.name", prop=P, verify=False, result=Str, modifies=[], raises={}, ensures={},
             note="ASSUMED: the name property (registered_name or the class name) is a read-only str")
_RARGS = ["context", "args", "kwargs", "slots", "escape_slots_content", "type", "render_dependencies", "request"]


def _render_post(c):
    a = c.ghost["impl_args"]
    same = [c.run.coerce(a[k], c.old(n).ty).t == c.old(n).t for k, n in enumerate(_RARGS)]
    return z3.And(c.ghost["impl_calls"].t == 1, c.ghost["cem_entered"].t == 1, len(a) == len(_RARGS), c["result"].t == c.ghost["impl_result"].t, *same)


def _cem_cm(run, args, kwargs, node):
    """component_error_message(path) at a call site, as its own contract (above) describes it: the body's exception object
    propagates (annotated); nothing is swallowed; GHOST: it was entered"""
    n = run.ghost.get("cem_entered")
    run.ghost["cem_entered"] = Val(TInt, (n.t if n is not None else z3.IntVal(0)) + 1)

    def enter():
        return NONE

    def exit_(exc):
        return False
    return Conc(("cm", enter, exit_))


REG.contract(
    f"{COMP}:Component._render", prop=P, calls={"component_error_message": _cem_cm, "self._render_impl": _render_impl_stub},
    types={"context": Any_, "args": Any_, "kwargs": Any_, "slots": Any_, "escape_slots_content": Bool, "type": Str, "render_dependencies": Bool, "request": Any_},
    result=Str, modifies=[], raises={"Any": None},
    ensures={"render_impl_called_once_with_the_same_arguments_and_its_result_returned": _render_post},
    xensures={"Any": {"the_exception_of_render_impl_itself_propagates": lambda c: z3.BoolVal("impl_exc" in c.ghost and c["raised"].obj is c.ghost["impl_exc"].obj)}},
)

import contracts.c06c  # noqa: E402,F401  (on_component_rendered: the release callback)
