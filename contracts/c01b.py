"""C01 - SlotNode.render: which content a {% slot %} tag renders, and against whose fills.

From the property: "each rendered {% slot %} outputs exactly the fill addressed to it - the {% fill %} carrying the slot's name or,
for the slot flagged `default`, the implicit body ... - and otherwise its own default content, always resolved against the
fills given to the component instance whose template contains that slot tag and never against another instance's fills ...
a `required` slot without a fill raises an error".  For the instance OWNING the tag (the one whose render id is the nearest
component key visible in the Context) with fills F:
    addressed(F) = "default"  if the tag is flagged `default` and F has a "default" entry,   else the slot's own name
    content      = F[addressed(F)] if F has it,  else the slot's own body (its nodelist turned into a render function)
  * content is called exactly once, with the Context the mode prescribes (C03's unit), exactly the tag's keyword arguments as slot
    data and a reference to this slot, and its output is the tag's output;
  * `required` and no fill (and not the dynamic component) is a TemplateSyntaxError, as are two different `default` slots and a
    slot filled both by name and as `default`;
  * afterwards the caller's Context has its layers back (the pass-through of the provide keys into the content's Context - the
    loop over context.flatten() - is NOT part of this contract: its invariant made the unit too heavy for the quick tier; the
    clause functions _inv_extra / _post_inject are kept below, unused);
  * nothing renders while an enclosing {% component %} body is only collecting fills.
REGION of the known findings F-C01a / F-C01b: in django mode, for a component rendered WITHOUT an outer context whose fills lack the
slot's name, the code searches the Context for ANOTHER component's key and resolves the slot against that instance's fills.  The
clauses are proved outside that region (the branch is excluded by a precondition); inside it the bounded stand-in's findings apply.
"""
import z3

import contracts.c01 as c01
from contracts.stubs_django import CTX, FLAT, LAYER, LAYERS, ctx_axioms, ctx_idx, dicts_of, flatten_of, layer_val, lookup, visible
from pyvc import ops
from pyvc.contracts import REG, Any_, Bool, Dict, Int, Loop, Obj, Opt, Ref, Seq, Str, Tup
from pyvc.interp import EngineError, ExcVal, PyRaise
from pyvc.types import NONE, Conc, TAny, TBool, TInt, TOpt, TStr, Val

P = "C01"
MOD = "django_components.slots"
S, I, B = z3.StringSort(), z3.IntSort(), z3.BoolSort()
PV = TAny.sort()
OS = TOpt(TStr)
SLOT, SLOTS, NODELIST = c01.SLOT, c01.SLOTS, c01.NODELIST
SNODE = Obj("SlotNodeObject")
CCTX = Obj("ComponentContextObject")
CACHE = Dict(Str, CCTX)
KW = Dict(Str, Any_)
COMPKEY = z3.StringVal("_DJC_COMPONENT_CTX")
INJECT = z3.StringVal("_DJC_INJECT__")
DEFAULT = z3.StringVal("default")


def flag(n, name):
    return ops.uf("slot_node_flag", SNODE.sort(), S, B)(n, name)


def body_of(n):
    return ops.uf("slot_node_nodelist", SNODE.sort(), NODELIST.sort())(n)


def cc(name, sort):
    return lambda x: ops.uf(f"component_ctx_{name}", CCTX.sort(), sort)(x)


cc_name, cc_fills, cc_dynamic, cc_default0 = cc("component_name", S), cc("fills", SLOTS.sort()), cc("is_dynamic_component", B), cc("default_slot_at_entry", OS.sort())
cc_behavior, cc_outer, cc_tname = cc("registry_context_behavior", S), cc("outer_context", I), cc("template_name", OS.sort())

REG.stub(("getattr", "SlotNodeObject", "flags"), lambda run, obj, node: Conc(("obj_kind", "slot_flags", obj)))
REG.stub(("getitem", "conc:obj_kind:slot_flags"), lambda run, obj, key, node: Val(TBool, flag(obj.obj[2].t, run.coerce(key, TStr).t)))
REG.stub(("getattr", "SlotNodeObject", "nodelist"), lambda run, obj, node: Val(NODELIST, body_of(obj.t)))
REG.stub(("getattr", "ComponentContextObject", "component_name"), lambda run, obj, node: Val(TStr, cc_name(obj.t)))
REG.stub(("getattr", "ComponentContextObject", "component_path"), lambda run, obj, node: Val(Obj("ComponentPath"), ops.uf("component_ctx_path", CCTX.sort(), Obj("ComponentPath").sort())(obj.t)))
REG.stub(("getattr", "ComponentContextObject", "component_id"), lambda run, obj, node: Val(TStr, cc("component_id", S)(obj.t)))
REG.stub(("getattr", "ComponentContextObject", "fills"), lambda run, obj, node: Val(SLOTS, cc_fills(obj.t)))
REG.stub(("getattr", "ComponentContextObject", "is_dynamic_component"), lambda run, obj, node: Val(TBool, cc_dynamic(obj.t)))
REG.stub(("getattr", "ComponentContextObject", "template_name"), lambda run, obj, node: Val(OS, cc_tname(obj.t)))
REG.stub(("getattr", "ComponentContextObject", "registry"), lambda run, obj, node: Conc(("obj_kind", "cc_registry", obj)))
REG.stub(("getattr", "conc:obj_kind:cc_registry", "settings"), lambda run, obj, node: Conc(("obj_kind", "cc_settings", obj.obj[2])))
REG.stub(("getattr", "conc:obj_kind:cc_settings", "context_behavior"), lambda run, obj, node: Val(TStr, cc_behavior(obj.obj[2].t)))
REG.stub(("getattr", "ComponentContextObject", "outer_context"), lambda run, obj, node: Val(Ref(CTX), cc_outer(obj.t)))


def _default_slot_get(run, obj, node):
    """component_ctx.default_slot: the value at entry unless this call has set it (ghost)"""
    g = run.ghost.get("default_slot_now")
    return g if g is not None else Val(OS, cc_default0(obj.t))


def _default_slot_set(run, obj, value, node):
    run.ghost["default_slot_now"] = Val(OS, OS.some(run.coerce(value, TStr).t))
    run.ghost["default_slot_owner"] = obj
    return None


REG.stub(("getattr", "ComponentContextObject", "default_slot"), _default_slot_get)
REG.stub(("setattr", "ComponentContextObject", "default_slot"), _default_slot_set)
REG.stub("django_components.app_settings.ContextBehavior.DJANGO", None)
for _n, _v in (("DJANGO", "django"), ("ISOLATED", "isolated")):
    REG.stub(("value", f"django_components.app_settings.ContextBehavior.{_n}"), Val(TStr, z3.StringVal(_v)))
    REG.stub(("value", f"ContextBehavior.{_n}"), Val(TStr, z3.StringVal(_v)))


def extracting(ctx):
    return ops.uf("context_is_extracting_fill", I, B)(ctx)


def slot_out(f, ctx, data, ref):
    return ops.uf("slot_function_output", SLOT.sort(), I, KW.sort(), Obj("SlotRefObj").sort(), S)(f, ctx, data, ref)


def own_content(cname, sname, nl):
    """the slot's own body as a render function: _nodelist_to_slot_render_func(component_name, slot_name, nodelist, None, None)"""
    OE = TOpt(c01.EXTRA)
    return c01.mk_slot(cname, OS.some(sname), nl, OS.none(), OS.none(), OE.none())


SFILL = Tup(TStr, TBool, SLOT, tag="SlotFillRecord", fields=["name", "is_filled", "slot"])
REG.record("SlotFill", SFILL)


def _new_slot_fill(run, args, kwargs, node):
    return Val(SFILL, SFILL.mk(run.coerce(kwargs["name"], TStr).t, run.truth(kwargs["is_filled"]), run.coerce(kwargs["slot"], SLOT).t))


def _slot_ref(run, args, kwargs, node):
    r = Val(Obj("SlotRefObj"), ops.uf("slot_ref_of", SNODE.sort(), I, Obj("SlotRefObj").sort())(args[0].t, args[1].t))
    return r


def _resolve_ctx(run, args, kwargs, node):
    """self._resolve_slot_context(context, slot_fill, component_ctx): proved in C03's unit; here its postcondition is assumed:
    the current Context for default content and in django mode, the outer context (or a new one) for a fill in isolated mode"""
    ctx, sf, cx = args[0], args[1], args[2]
    filled = SFILL.proj(sf.t, 1)
    dj, iso = cc_behavior(cx.t) == z3.StringVal("django"), cc_behavior(cx.t) == z3.StringVal("isolated")
    if run.choose(2, None) == 1:
        run.assume(z3.And(filled, z3.Not(dj), z3.Not(iso)))
        raise PyRaise(ExcVal("ValueError", [], site="_resolve_slot_context: unknown context_behavior"))
    run.assume(z3.Or(z3.Not(filled), dj, iso))
    which = run.choose(2, None)
    if which == 0:
        run.assume(z3.Or(z3.Not(filled), dj))
        res = Val(Ref(CTX), ctx.t)
    else:
        run.assume(z3.And(filled, iso))
        fresh = run.alloc(CTX)
        from contracts.stubs_django import BUILTINS
        run.store_field(fresh.t, CTX, "dicts", Val(LAYERS, z3.Unit(BUILTINS)))
        res = Val(Ref(CTX), z3.If(cc_outer(cx.t) != 0, cc_outer(cx.t), fresh.t))
    run.ghost["used_ctx"] = res
    return res


RCL = Obj("RenderContextLayer")


def _rc_dicts(run, obj, node):
    return Val(Seq(RCL), ops.uf("render_context_layers", obj.ty.sort(), Seq(RCL).sort())(obj.t))


REG.stub(("contains", "RenderContextLayer"), lambda run, item, cont, node: ops.uf("render_layer_has_key", RCL.sort(), S, B)(cont.t, run.coerce(item, TStr).t))


def _rc_push(run, obj, args, kwargs, node):
    """render_context.push(layer): Django's RenderContext keeps its own stack; balanced by the `with` (A-DJ)"""
    k = run.ghost.get("rc_pushes")
    run.ghost["rc_pushes"] = Val(TInt, (k.t if k is not None else z3.IntVal(0)) + 1)

    def enter():
        return NONE

    def exit_(exc):
        k2 = run.ghost["rc_pushes"]
        run.ghost["rc_pushes"] = Val(TInt, k2.t - 1)
        return False
    return Conc(("cm", enter, exit_))


REG.stub(("method", "RenderContext", "push"), _rc_push)
REG.stub(("getattr", "RenderContext", "dicts"), _rc_dicts)


def _add_slot_msg(run, args, kwargs, node):
    def enter():
        return NONE

    def exit_(exc):
        return False
    return Conc(("cm", enter, exit_))


def _call_slot(run, args, kwargs, node):
    """slot_fill.slot(used_ctx, kwargs, slot_ref): the chosen content runs (template / user code).  GHOST: which function, with what,
    how often, and the layers of the Context it ran in.  RELY: it leaves that Context's layers as it found them."""
    fr = run.call_frame
    sf = fr.lookup("slot_fill")
    n = run.ghost.get("content_calls")
    run.ghost["content_calls"] = Val(TInt, (n.t if n is not None else z3.IntVal(0)) + 1)
    run.ghost["content_fn"] = Val(SLOT, SFILL.proj(sf.t, 2))
    run.ghost["content_args"] = [args[0], args[1], args[2]]
    run.ghost["layers_in_content"] = Val(LAYERS, dicts_of(run, args[0]))
    run.ghost["rc_pushes_in_content"] = run.ghost.get("rc_pushes", Val(TInt, z3.IntVal(0)))
    if run.choose(2, None) == 1:
        raise PyRaise(ExcVal("Any", [], site="slot content (template / user code)"))
    out = Val(TStr, slot_out(SFILL.proj(sf.t, 2), args[0].t, run.coerce(args[1], KW).t, args[2].t))
    run.ghost["content_out"] = out
    return out


def _close_matches(run, args, kwargs, node):
    return Val(Seq(Str), z3.FreshConst(z3.SeqSort(S), "close_matches"))


REG.stub(("new", "InternalSettings"), lambda run, args, kwargs, node: Conc(("obj_kind", "app_settings")))
REG.stub(("getattr", "conc:obj_kind:app_settings", "DEBUG_HIGHLIGHT_SLOTS"), lambda run, obj, node: Val(TBool, z3.BoolVal(False)))      # A-LOG: debug highlighting off


# ---- the property, over the entry state
def owner(c):
    """the instance whose render id is the nearest component key visible at the tag"""
    D0 = z3.Select(c.field(CTX, "dicts", True), c.old("context").t)
    cid = PV.s(lookup(c.run, D0, COMPKEY))
    return z3.Select(CACHE.val(c.old("component_context_cache").t), cid)


def addressed(c):
    F = cc_fills(owner(c))
    n = c.old("self").t
    return z3.If(z3.And(flag(n, DEFAULT), z3.Select(SLOTS.has(F), DEFAULT)), DEFAULT, c.old("name").t)


def content(c):
    F = cc_fills(owner(c))
    a = addressed(c)
    return z3.If(z3.Select(SLOTS.has(F), a), z3.Select(SLOTS.val(F), a), own_content(cc_name(owner(c)), c.old("name").t, body_of(c.old("self").t)))


def is_filled(c):
    return z3.Select(SLOTS.has(cc_fills(owner(c))), addressed(c))


def _pre_has_owner(c):
    """the render pipeline's invariant: a component key visible in a Context is the render id (a non-empty str) of a live instance"""
    D0 = z3.Select(c.field(CTX, "dicts"), c["context"].t)
    v = lookup(c.run, D0, COMPKEY)
    return z3.Implies(visible(c.run, D0, COMPKEY), z3.Or(PV.is_NoneV(v), z3.And(PV.is_StrV(v), z3.Implies(z3.Length(PV.s(v)) > 0, z3.Select(CACHE.has(c["component_context_cache"].t), PV.s(v))))))


def _outside_region(c):
    """NOT (django mode, no outer context, the slot's name is not among the owner's fills): region of F-C01a / F-C01b"""
    D0 = z3.Select(c.field(CTX, "dicts"), c["context"].t)
    v = lookup(c.run, D0, COMPKEY)
    o = z3.Select(CACHE.val(c["component_context_cache"].t), PV.s(v))
    return z3.Not(z3.And(cc_behavior(o) == z3.StringVal("django"), cc_outer(o) == 0, z3.Not(z3.Select(SLOTS.has(cc_fills(o)), c["name"].t))))


def _post_content(c):
    a = c.ghost["content_args"]
    ref = ops.uf("slot_ref_of", SNODE.sort(), I, Obj("SlotRefObj").sort())(c.old("self").t, c.old("context").t)
    return z3.And(c.ghost["content_calls"].t == 1, c.ghost["content_fn"].t == content(c),
                  a[0].t == c.ghost["used_ctx"].t, c.run.coerce(a[1], KW).t == c.old("kwargs").t, a[2].t == ref,
                  c["result"].t == c.ghost["content_out"].t)


def _post_inject(c):
    """every provide key visible at the tag is visible - with the same provider id - where the content runs"""
    D0 = z3.Select(c.field(CTX, "dicts", True), c.old("context").t)
    Dc = c.ghost["layers_in_content"].t
    ctx_axioms(c.run, Dc)
    k = z3.Const("bv_k", S)
    return z3.ForAll([k], z3.Implies(z3.And(z3.PrefixOf(INJECT, k), ctx_idx(D0, k) >= 0),
                                     z3.And(ctx_idx(Dc, k) >= 0, layer_val(Dc, ctx_idx(Dc, k), k) == layer_val(D0, ctx_idx(D0, k), k))))


def _post_layers(c):
    u = c.ghost["used_ctx"].t
    return z3.And(z3.Select(c.field(CTX, "dicts"), c.old("context").t) == z3.Select(c.field(CTX, "dicts", True), c.old("context").t),
                  z3.Implies(u < c.old_next_ref, z3.Select(c.field(CTX, "dicts"), u) == z3.Select(c.field(CTX, "dicts", True), u)),
                  c.ghost["rc_pushes"].t == 0, c.ghost["rc_pushes_in_content"].t == 1)


def _raise_cond(c):
    """TemplateSyntaxError exactly for: no owning component; a second, different `default` slot; a slot filled by name and as
    default; a required slot without a fill (none of the last three for the dynamic component's pass-through)"""
    D0 = z3.Select(c.field(CTX, "dicts", True), c.old("context").t)
    v = lookup(c.run, D0, COMPKEY)
    no_owner = z3.Or(z3.Not(visible(c.run, D0, COMPKEY)), PV.is_NoneV(v), z3.And(PV.is_StrV(v), z3.Length(PV.s(v)) == 0))
    o = owner(c)
    n, name = c.old("self").t, c.old("name").t
    F = cc_fills(o)
    dflt = z3.And(flag(n, DEFAULT), z3.Not(cc_dynamic(o)))
    two_defaults = z3.And(dflt, z3.Not(OS.is_none(cc_default0(o))), OS.get(cc_default0(o)) != name)
    twice = z3.And(dflt, name != DEFAULT, z3.Select(SLOTS.has(F), name), z3.Select(SLOTS.has(F), DEFAULT))
    required = z3.And(flag(n, z3.StringVal("required")), z3.Not(is_filled(c)), z3.Not(cc_dynamic(o)))
    return z3.And(z3.Not(extracting(c.old("context").t)), z3.Or(no_owner, two_defaults, twice, required))


def _inv_extra(c):
    """the loop that copies the provide keys: after i entries of the flattened Context, extra_context holds the base entries and
    every provide key met so far with its visible value"""
    D0 = z3.Select(c.field(CTX, "dicts", True), c.old("context").t)
    F = flatten_of(c.run, D0)
    order = FLAT.order(F)
    i = c["_i0"].t
    k = z3.Const("bv_k", S)
    ex = c["extra_context"].t
    return z3.And(
        z3.Select(c.field(CTX, "dicts"), c["context"].t) == D0, c["context"].t == c.old("context").t,
        z3.ForAll([k], z3.Implies(z3.And(z3.PrefixOf(INJECT, k), z3.Select(FLAT.has(F), k), ops.keypos(order, k) < i),
                                  z3.And(z3.Select(LAYER.has(ex), k), z3.Select(LAYER.val(ex), k) == z3.Select(FLAT.val(F), k)))))


REG.contract(
    f"{MOD}:SlotNode.render", prop=P, types={"self": SNODE, "context": Ref(CTX), "name": Str, "kwargs": KW}, result=Str, self_type=SNODE,
    globals={"component_context_cache": CACHE},
    calls={"_is_extracting_fill": lambda run, args, kwargs, node: Val(TBool, extracting(args[0].t)),
           "self.__repr__": lambda run, args, kwargs, node: Val(TStr, z3.FreshConst(S, "repr")),
           "SlotFill": _new_slot_fill, "SlotRef": _slot_ref, "self._resolve_slot_context": _resolve_ctx,
           "_nodelist_to_slot_render_func": lambda run, args, kwargs, node: Val(SLOT, own_content(run.coerce(kwargs["component_name"], TStr).t, run.coerce(kwargs["slot_name"], TStr).t, run.coerce(kwargs["nodelist"], NODELIST).t)),
           "add_slot_to_error_message": _add_slot_msg, "slot_fill.slot": _call_slot, "difflib.get_close_matches": _close_matches,
           "apply_component_highlight": lambda run, args, kwargs, node: args[1]},
    locals={"extra_context": LAYER, "slot_fills": SLOTS},
    requires=[lambda c: c["context"].t > 0, lambda c: z3.Length(z3.Select(c.field(CTX, "dicts"), c["context"].t)) >= 1, _pre_has_owner, _outside_region,
              lambda c: z3.Or(cc_outer(z3.Select(CACHE.val(c["component_context_cache"].t), PV.s(lookup(c.run, z3.Select(c.field(CTX, "dicts"), c["context"].t), COMPKEY)))) == 0,
                              z3.And(cc_outer(z3.Select(CACHE.val(c["component_context_cache"].t), PV.s(lookup(c.run, z3.Select(c.field(CTX, "dicts"), c["context"].t), COMPKEY)))) > 0,
                                     cc_outer(z3.Select(CACHE.val(c["component_context_cache"].t), PV.s(lookup(c.run, z3.Select(c.field(CTX, "dicts"), c["context"].t), COMPKEY)))) < z3.Int("next_ref0")))],
    modifies=[f"{CTX}.dicts"], raises={"TemplateSyntaxError": _raise_cond, "ValueError": None, "Any": None},
    loops={0: Loop(inv=[lambda c: z3.And(z3.Select(c.field(CTX, "dicts"), c["context"].t) == z3.Select(c.field(CTX, "dicts", True), c.old("context").t), c["context"].t == c.old("context").t)],
                   variant="len(_seq0) - _i0")},
    parallel=True,
    ensures={
        "nothing_rendered_while_fills_are_collected": lambda c: z3.Implies(extracting(c.old("context").t), z3.And(c["result"].t == z3.StringVal(""), z3.BoolVal("content_calls" not in c.ghost))),
        "renders_the_fill_addressed_to_it_from_its_owners_fills_else_its_own_body_once_with_the_tags_data": lambda c: z3.Implies(z3.Not(extracting(c.old("context").t)), _post_content(c)) if "content_calls" in c.ghost else extracting(c.old("context").t),
        "accepted_only_without_a_slot_error": lambda c: z3.Not(_raise_cond(c)),
        "callers_context_layers_restored": lambda c: z3.Select(c.field(CTX, "dicts"), c.old("context").t) == z3.Select(c.field(CTX, "dicts", True), c.old("context").t),
    },
)
