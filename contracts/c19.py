"""C19 - every script URL a render emits is served with that component's code.

The component media cache is modelled as a map (global ghost `media_cache`).  Writer and reader go through the same
key function `_gen_cache_key`; a URL / tag is only requested for a script that exists (call-site preconditions).
"""
import ast

import z3

from contracts.common import CLS, OS, class_css, class_hash, class_js, class_name
import contracts.c13  # noqa: F401  (contracts of wrap_component_js / wrap_component_css used at call sites)
from pyvc import ops
from pyvc.contracts import REG, Bool, Dict, Int, Loop, Obj, Opt, Seq, Str, Tup
from pyvc.interp import EngineError
from pyvc.repo import all_repo_modules, load_module
from pyvc.types import NONE, Conc, TBool, TInt, TOpt, TStr, Val

P = "C19"
DEP = "django_components.dependencies"
S, I, B = z3.StringSort(), z3.IntSort(), z3.BoolSort()
CACHE = Dict(Str, Str)
MAPPING = Dict(Str, CLS)
GLOBALS = {"media_cache": CACHE}
REG.inline("django_components.util.misc:is_nonempty_str")


def key_of(h, t, i):
    """The key function, as the property needs it: one key per (class hash, kind, optional input hash)."""
    base = z3.Concat(z3.StringVal("__components:"), h, z3.StringVal(":"), t)
    return z3.If(z3.And(z3.Not(OS.is_none(i)), z3.Length(OS.get(i)) > 0), z3.Concat(base, z3.StringVal(":"), OS.get(i)), base)


def nonblank(os_):
    return z3.And(z3.Not(OS.is_none(os_)), z3.Length(ops.str_strip(OS.get(os_))) > 0)


def cls_script(c, t):
    return z3.If(t == z3.StringVal("js"), class_js(c), class_css(c))


# ---- the cache object (django BaseCache as a map; A-DJ: no spontaneous eviction within one render)
REG.stub(f"django_components.cache:get_component_media_cache", lambda run, args, kwargs, node: Conc(("obj_kind", "media_cache")))


def _mc(run):
    if "media_cache" not in run.globals:
        raise EngineError("unit uses the media cache but does not declare the global `media_cache`")
    return run.globals["media_cache"]


def _has_key(run, obj, args, kwargs, node):
    c = _mc(run)
    return Val(TBool, z3.Select(CACHE.has(c.t), run.coerce(args[0], TStr).t))


def _cache_set(run, obj, args, kwargs, node):
    c = _mc(run)
    run.globals["media_cache"] = ops.setitem(run, c, run.coerce(args[0], TStr), run.coerce(args[1], TStr), node)
    return NONE


def _cache_get(run, obj, args, kwargs, node):
    c = _mc(run)
    k = run.coerce(args[0], TStr).t
    return Val(OS, z3.If(z3.Select(CACHE.has(c.t), k), OS.some(z3.Select(CACHE.val(c.t), k)), OS.none()))


REG.stub(("method", "conc:obj_kind:media_cache", "has_key"), _has_key)
REG.stub(("method", "conc:obj_kind:media_cache", "set"), _cache_set)
REG.stub(("method", "conc:obj_kind:media_cache", "get"), _cache_get)


def G(c, old=False):
    return (c.old("media_cache") if old else c.run.globals["media_cache"]).t


# ================================================================================================ _gen_cache_key
REG.contract(
    f"{DEP}:_gen_cache_key", prop=P, types={"comp_cls_hash": Str, "script_type": Str, "input_hash": OS}, result=Str,
    modifies=[], raises={},
    ensures={"is_key_function": lambda c: c["result"].t == key_of(c["comp_cls_hash"].t, c["script_type"].t, c["input_hash"].t)},
)


def _lemma_key_injective():
    """Different (hash, kind, input hash) never share a key - for hashes / input hashes without ':' and kinds js/css."""
    h1, h2, i1, i2 = z3.Strings("h1 h2 i1 i2")
    t1, t2 = z3.Strings("t1 t2")
    n1, n2 = z3.Bools("n1 n2")   # input hash absent
    colon = z3.StringVal(":")
    o1 = z3.If(n1, OS.none(), OS.some(i1))
    o2 = z3.If(n2, OS.none(), OS.some(i2))
    hyps = [z3.Not(z3.Contains(h1, colon)), z3.Not(z3.Contains(h2, colon)), z3.Not(z3.Contains(i1, colon)), z3.Not(z3.Contains(i2, colon)),
            z3.Or(t1 == z3.StringVal("js"), t1 == z3.StringVal("css")), z3.Or(t2 == z3.StringVal("js"), t2 == z3.StringVal("css")),
            z3.Implies(z3.Not(n1), z3.Length(i1) > 0), z3.Implies(z3.Not(n2), z3.Length(i2) > 0),
            key_of(h1, t1, o1) == key_of(h2, t2, o2)]
    return hyps, z3.And(h1 == h2, t1 == t2, n1 == n2, z3.Implies(z3.Not(n1), i1 == i2))


REG.lemma("lemma#cache_key_injective", P, _lemma_key_injective, note="injectivity of the key f-string for colon-free components")

# ================================================================================================ _is_script_in_cache
REG.contract(
    f"{DEP}:_is_script_in_cache", prop=P, types={"comp_cls": CLS, "script_type": Str, "input_hash": OS}, result=Bool, globals=GLOBALS,
    modifies=[], raises={},
    ensures={"is_membership_of_the_key": lambda c: c["result"].t == z3.Select(CACHE.has(G(c)), key_of(class_hash(c["comp_cls"].t), c["script_type"].t, c["input_hash"].t))},
)


# ================================================================================================ _cache_script
def _only_key_changed(c, key):
    k = z3.Const("bv_k", S)
    m0, m1 = G(c, True), G(c)
    return z3.ForAll([k], z3.Implies(k != key, z3.And(z3.Select(CACHE.has(m1), k) == z3.Select(CACHE.has(m0), k),
                                                      z3.Select(CACHE.val(m1), k) == z3.Select(CACHE.val(m0), k))))


def _is_kind(t):
    return z3.Or(t == z3.StringVal("js"), t == z3.StringVal("css"))


REG.contract(
    f"{DEP}:_cache_script", prop=P, types={"comp_cls": CLS, "script": Str, "script_type": Str, "input_hash": OS}, globals=GLOBALS,
    modifies=["media_cache"],
    raises={"ValueError": lambda c: z3.Not(_is_kind(c.old("script_type").t))},
    xensures={"ValueError": {"cache_unchanged": lambda c: G(c) == G(c, True)}},
    ensures={
        "only_js_css_keys_are_written": lambda c: _is_kind(c.old("script_type").t),            # KInv
        "stored_stripped_under_the_key": lambda c: z3.And(
            z3.Select(CACHE.has(G(c)), key_of(class_hash(c.old("comp_cls").t), c.old("script_type").t, c.old("input_hash").t)),
            z3.Select(CACHE.val(G(c)), key_of(class_hash(c.old("comp_cls").t), c.old("script_type").t, c.old("input_hash").t)) == ops.str_strip(c.old("script").t)),
        "nothing_else_changes": lambda c: _only_key_changed(c, key_of(class_hash(c.old("comp_cls").t), c.old("script_type").t, c.old("input_hash").t)),
    },
)

# ================================================================================================ cache_component_js / css
for _fn, _t, _attr in (("cache_component_js", "js", class_js), ("cache_component_css", "css", class_css)):
    def _mk(t, attr):
        key = lambda c: key_of(class_hash(c.old("comp_cls").t), z3.StringVal(t), OS.none())
        return {
            # after the call the component's script is served under its key (written now, or already there)
            "published_if_nonblank": lambda c: z3.Implies(nonblank(attr(c.old("comp_cls").t)), z3.And(
                z3.Select(CACHE.has(G(c)), key(c)),
                z3.Or(z3.Select(CACHE.val(G(c)), key(c)) == ops.str_strip(OS.get(attr(c.old("comp_cls").t))),
                      z3.And(z3.Select(CACHE.has(G(c, True)), key(c)), z3.Select(CACHE.val(G(c)), key(c)) == z3.Select(CACHE.val(G(c, True)), key(c)))))),
            "nothing_else_changes": lambda c: _only_key_changed(c, key(c)),
        }
    def _strip_axiom(attr):
        def entry(run, fr):
            s_ = OS.get(attr(fr.vars["comp_cls"].t))
            run.pc.append(z3.Length(ops.str_strip(s_)) <= z3.Length(s_))     # A-PY: str.strip() never grows a string
        return entry
    REG.contract(f"{DEP}:{_fn}", prop=P, types={"comp_cls": CLS}, globals=GLOBALS, modifies=["media_cache"], raises={}, ensures=_mk(_t, _attr), entry=_strip_axiom(_attr))

# ================================================================================================ get_script_content
REG.contract(
    f"{DEP}:get_script_content", prop=P, types={"script_type": Str, "comp_cls": CLS, "input_hash": OS}, result=OS, globals=GLOBALS,
    modifies=[], raises={},
    ensures={"reads_the_same_key": lambda c: c["result"].t == z3.If(
        z3.Select(CACHE.has(G(c)), key_of(class_hash(c["comp_cls"].t), c["script_type"].t, c["input_hash"].t)),
        OS.some(z3.Select(CACHE.val(G(c)), key_of(class_hash(c["comp_cls"].t), c["script_type"].t, c["input_hash"].t))), OS.none())},
)


# ================================================================================================ get_script_url / get_script_tag (call-site preconditions)
def script_url(h, t, i):
    return ops.uf("script_url", S, S, OS.sort(), S)(h, t, i)


def _reverse(run, args, kwargs, node):
    """django.urls.reverse(CACHE_ENDPOINT_NAME, kwargs={...}) (A-DJ): the URL of the endpoint for exactly these path arguments - a
    function of (comp_cls_hash, script_type, input_hash or none); nothing else may be passed"""
    from pyvc.interp import EngineError
    from pyvc.types import TDict
    kw = kwargs.get("kwargs")
    if isinstance(kw, Conc) and isinstance(kw.obj, tuple) and kw.obj[0] == "dictlit":
        # a display with constant keys only: the same reading, key by key
        items = {}
        for k_, v_, _n in kw.obj[1]:
            kc = z3.simplify(k_.t)
            if not z3.is_string_value(kc):
                raise EngineError("reverse(kwargs={...}) with a computed key")
            items[kc.as_string()] = run.coerce(v_, TStr).t
        run.oblige("pre@reverse#exactly_the_endpoint_arguments", z3.BoolVal("comp_cls_hash" in items and "script_type" in items and set(items) <= {"comp_cls_hash", "script_type", "input_hash"}), kind="pre")
        name = run.coerce(args[0], TStr).t
        run.oblige("pre@reverse#endpoint_name", name == z3.StringVal(_endpoint_name()), kind="pre", note="the URL is reversed for the library's cache endpoint")
        return Val(TStr, script_url(items.get("comp_cls_hash", z3.StringVal("")), items.get("script_type", z3.StringVal("")),
                                    OS.some(items["input_hash"]) if "input_hash" in items else OS.none()))
    if kw is None or not isinstance(kw, Val) or not isinstance(kw.ty, TDict):
        raise EngineError(f"reverse() without a kwargs dict: {kw}")
    D_ = kw.ty
    name = run.coerce(args[0], TStr).t
    run.oblige("pre@reverse#endpoint_name", name == z3.StringVal(_endpoint_name()), kind="pre", note="the URL is reversed for the library's cache endpoint")
    k = z3.Const("bv_k", S)
    hk, tk, ik = z3.StringVal("comp_cls_hash"), z3.StringVal("script_type"), z3.StringVal("input_hash")
    run.oblige("pre@reverse#exactly_the_endpoint_arguments", z3.And(
        z3.Select(D_.has(kw.t), hk), z3.Select(D_.has(kw.t), tk), z3.ForAll([k], z3.Implies(z3.Select(D_.has(kw.t), k), z3.Or(k == hk, k == tk, k == ik)))), kind="pre")
    val = lambda key_: run.coerce(Val(D_.v, z3.Select(D_.val(kw.t), key_)), TStr).t
    return Val(TStr, script_url(val(hk), val(tk), z3.If(z3.Select(D_.has(kw.t), ik), OS.some(val(ik)), OS.none())))


def _endpoint_name():
    import ast as _ast
    from pyvc.repo import load_module
    return _ast.literal_eval(load_module(DEP).consts["CACHE_ENDPOINT_NAME"])


REG.contract(
    f"{DEP}:get_script_url", prop=P, types={"script_type": Str, "comp_cls": CLS, "input_hash": OS}, result=Str, calls={"reverse": _reverse},
    note="the URL is django.urls.reverse (assumed: a function of its path arguments) of exactly (class hash, kind, input hash)",
    # from the property: a URL is only emitted for a script that exists
    requires=[lambda c: _is_kind(c["script_type"].t), lambda c: nonblank(cls_script(c["comp_cls"].t, c["script_type"].t))],
    modifies=[], raises={},
    ensures={"url": lambda c: c["result"].t == script_url(class_hash(c["comp_cls"].t), c["script_type"].t, c["input_hash"].t)},
)

REG.contract(
    f"{DEP}:get_script_tag", prop=P, types={"script_type": Str, "comp_cls": CLS, "input_hash": OS}, result=Str, globals=GLOBALS,
    requires=[lambda c: _is_kind(c["script_type"].t)],
    modifies=[],
    raises={"RuntimeError": None},     # missing from the cache, or content that would close its own element
    ensures={"wraps_the_cached_content_of_this_component": lambda c: z3.And(
        z3.Select(CACHE.has(G(c)), key_of(class_hash(c["comp_cls"].t), c["script_type"].t, c["input_hash"].t)),
        z3.Contains(c["result"].t, z3.Select(CACHE.val(G(c)), key_of(class_hash(c["comp_cls"].t), c["script_type"].t, c["input_hash"].t))))},
)

# ================================================================================================ _prepare_tags_and_urls
DATA = Seq(Tup(TStr, TStr, OS, tag="DepTriple", fields=["hash", "kind", "input"]))
REG.contract(
    f"{DEP}:_prepare_tags_and_urls", prop=("C19", "C04"), types={"data": DATA, "type": Str}, globals={"media_cache": CACHE, "comp_hash_mapping": MAPPING},
    locals={"to_load_js_urls": Seq(Str), "to_load_css_urls": Seq(Str), "inlined_js_tags": Seq(Str), "inlined_css_tags": Seq(Str),
            "loaded_js_urls": Seq(Str), "loaded_css_urls": Seq(Str)},
    requires=[lambda c: _all_hashes_known(c)],
    modifies=[], raises={"RuntimeError": None},
    loops={0: Loop(inv=[], variant="len(data) - _i0")},
    ensures={},      # the clause is carried by the preconditions of get_script_url / get_script_tag at the six call sites
)


def _all_hashes_known(c):
    i = z3.Const("bv_i", I)
    data = c["data"].t
    m = c.run.globals["comp_hash_mapping"].t
    return z3.ForAll([i], z3.Implies(z3.And(0 <= i, i < z3.Length(data)), z3.Select(MAPPING.has(m), DATA.elem.proj(data[i], 0))))


# ================================================================================================ cached_script_view
REQ = Obj("HttpRequest")
RESP = Tup(TInt, OS, OS, tag="HttpResponse", fields=["status", "content", "content_type"])
REG.stub(("getattr", "HttpRequest", "method"), lambda run, obj, node: Val(TStr, ops.uf("request_method", REQ.sort(), S)(obj.t)))
REG.stub("django.http.HttpResponseNotAllowed", lambda run, args, kwargs, node: Val(RESP, RESP.mk(z3.IntVal(405), OS.none(), OS.none())))
REG.stub("django.http.HttpResponseNotFound", lambda run, args, kwargs, node: Val(RESP, RESP.mk(z3.IntVal(404), OS.none(), OS.none())))
REG.stub("django.http.HttpResponse", lambda run, args, kwargs, node: Val(RESP, RESP.mk(z3.IntVal(200), run.coerce(kwargs["content"], OS).t, run.coerce(kwargs["content_type"], OS).t)))

CONTENT_TYPES = Dict(Str, Str)
REG.contract(
    f"{DEP}:_get_content_types", prop=P, types={"script_type": Str}, result=Str, globals={"_CONTENT_TYPES": CONTENT_TYPES},
    requires=[lambda c: _content_types_const(c)],
    modifies=[], raises={"ValueError": lambda c: z3.Not(_is_kind(c.old("script_type").t))},
    ensures={"known_kind": lambda c: _is_kind(c["script_type"].t),
             "type": lambda c: c["result"].t == z3.If(c["script_type"].t == z3.StringVal("js"), z3.StringVal("text/javascript"), z3.StringVal("text/css"))},
)


def _content_types_const(c):
    """_CONTENT_TYPES is the module constant {"js": "text/javascript", "css": "text/css"} (read from the source)."""
    m = load_module(DEP)
    d = ast.literal_eval(m.consts["_CONTENT_TYPES"])
    g = c.run.globals["_CONTENT_TYPES"].t
    k = z3.Const("bv_k", S)
    return z3.And(z3.ForAll([k], z3.Select(CONTENT_TYPES.has(g), k) == z3.Or(*[k == z3.StringVal(x) for x in d])),
                  *[z3.Select(CONTENT_TYPES.val(g), z3.StringVal(x)) == z3.StringVal(v) for x, v in d.items()])


def _view_key(c):
    m = c.run.globals["comp_hash_mapping"].t
    cls = z3.Select(MAPPING.val(m), c["comp_cls_hash"].t)
    return key_of(class_hash(cls), c["script_type"].t, c["input_hash"].t)


def _hash_known(c):
    return z3.Select(MAPPING.has(c.run.globals["comp_hash_mapping"].t), c["comp_cls_hash"].t)


REG.contract(
    f"{DEP}:cached_script_view", prop=P, types={"req": REQ, "comp_cls_hash": Str, "script_type": Str, "input_hash": OS}, result=RESP,
    globals={"media_cache": CACHE, "comp_hash_mapping": MAPPING, "_CONTENT_TYPES": CONTENT_TYPES},
    requires=[_content_types_const,
              # HInv (writer: Component.__init_subclass__): the mapping sends a hash to the class with that hash
              lambda c: z3.Implies(_hash_known(c), class_hash(z3.Select(MAPPING.val(c.run.globals["comp_hash_mapping"].t), c["comp_cls_hash"].t)) == c["comp_cls_hash"].t)],
    # NOTHING is assumed about script_type / input_hash: the URL converters accept any text without '/', and a "kind"
    # such as `js:42b7b4` forms the key of a cached variables script (the key f-string is not injective outside js/css).
    # An earlier version of this contract assumed "a key that is present was written for this very kind" - false, and it
    # hid a server error (known_findings: fixed C19).
    modifies=[], raises={},           # never a server error
    ensures={
        "405_iff_not_get": lambda c: (RESP.proj(c["result"].t, 0) == 405) == (ops.uf("request_method", REQ.sort(), S)(c["req"].t) != z3.StringVal("GET")),
        "404_iff_unknown_hash_kind_or_script": lambda c: z3.Implies(
            ops.uf("request_method", REQ.sort(), S)(c["req"].t) == z3.StringVal("GET"),
            (RESP.proj(c["result"].t, 0) == 404) == z3.Or(z3.Not(_hash_known(c)), z3.Not(_is_kind(c["script_type"].t)), z3.Not(z3.Select(CACHE.has(G(c)), _view_key(c))))),
        "else_200_with_that_components_code_and_type": lambda c: z3.Implies(
            z3.And(ops.uf("request_method", REQ.sort(), S)(c["req"].t) == z3.StringVal("GET"), _hash_known(c), _is_kind(c["script_type"].t), z3.Select(CACHE.has(G(c)), _view_key(c))),
            z3.And(RESP.proj(c["result"].t, 0) == 200,
                   RESP.proj(c["result"].t, 1) == OS.some(z3.Select(CACHE.val(G(c)), key_of(c["comp_cls_hash"].t, c["script_type"].t, c["input_hash"].t))),
                   RESP.proj(c["result"].t, 2) == OS.some(z3.If(c["script_type"].t == z3.StringVal("js"), z3.StringVal("text/javascript"), z3.StringVal("text/css"))))),
    },
)


# ================================================================================================ variables scripts
def md5hex(s_):
    return ops.uf("md5_hexdigest", S, S)(s_)


JSONABLE = Obj("JsonData")
REG.stub("json.dumps", lambda run, args, kwargs, node: Val(TStr, ops.uf("json_dumps", JSONABLE.sort(), S)(args[0].t)))


def _md5(run, args, kwargs, node):
    v = run.coerce(args[0], TStr)
    return Conc(("md5", v.t))


def _hexdigest(run, obj, args, kwargs, node):
    t = md5hex(obj.obj[1])
    run.pc.append(z3.Length(t) == 32)          # A-PY (hashlib): 32 characters ...
    run.pc.append(z3.InRe(t, z3.Star(z3.Union(z3.Range("0", "9"), z3.Range("a", "f")))))    # ... of lower-case hex
    return Val(TStr, t)


REG.stub("hashlib.md5", _md5)
REG.stub(("method", "conc:md5", "hexdigest"), _hexdigest)


def _vars_hash(c, name):
    return z3.SubString(md5hex(ops.uf("str_encode", S, S)(ops.uf("json_dumps", JSONABLE.sort(), S)(c.old(name).t))), 0, 6)


for _fn, _t, _attr, _arg in (("cache_component_js_vars", "js", class_js, "js_vars"), ("cache_component_css_vars", "css", class_css, "css_vars")):
    def _mkv(t, attr, arg):
        key = lambda c: key_of(class_hash(c.old("comp_cls").t), z3.StringVal(t), OS.some(_vars_hash(c, arg)))
        return {
            "none_iff_no_script_of_this_kind": lambda c: OS.is_none(c["result"].t) == z3.Not(nonblank(attr(c.old("comp_cls").t))),
            "hash_is_a_function_of_the_data": lambda c: z3.Implies(z3.Not(OS.is_none(c["result"].t)), z3.And(OS.get(c["result"].t) == _vars_hash(c, arg), z3.Length(OS.get(c["result"].t)) == 6)),
            # from the property: the URL emitted for (class, kind, returned hash) is served - the script is in the cache under THIS kind
            "published_under_the_key_of_this_kind": lambda c: z3.Implies(z3.Not(OS.is_none(c["result"].t)), z3.Select(CACHE.has(G(c)), key(c))),
            "nothing_else_changes": lambda c: _only_key_changed(c, key(c)),
        }
    REG.contract(f"{DEP}:{_fn}", prop=P, types={"comp_cls": CLS, _arg: JSONABLE}, result=OS, globals=GLOBALS, modifies=["media_cache"], raises={},
                 ensures=_mkv(_t, _attr, _arg))


# ================================================================================================ ownership scan
def own_cache_set():
    """KInv needs: the media cache is written only by _cache_script."""
    found = []
    for modname in all_repo_modules():
        m = load_module(modname)
        for fq, fi in m.funcs.items():
            for n in ast.walk(fi.node):
                if isinstance(n, ast.Call) and isinstance(n.func, ast.Attribute) and n.func.attr in ("set", "set_many", "add", "delete", "clear", "touch", "incr"):
                    src = ast.unparse(n.func.value)
                    if src in ("cache", "component_media_cache", "get_component_media_cache()"):
                        found.append(f"{modname}:{fq}:{n.lineno} {ast.unparse(n.func)}")
    ok = all(f.startswith(f"{DEP}:_cache_script:") for f in found) and found
    return bool(ok), "writers of the component media cache: " + "; ".join(found)


REG.syntactic_check("own#media_cache_written_only_by__cache_script", P, own_cache_set)

# ------------------------------------------------------------------------------------------- replay on the real code
def _urls_battery(histories):
    from harness.bounded_urls import KINDS, worker
    import itertools
    from pyvc.repo import REPO
    steps = [(name, mode) for name in KINDS for mode in ("document", "fragment")] + ["clear"]
    seqs = [s for k in (1, 2) for s in itertools.product(steps, repeat=k) if s[-1] != "clear"] if histories else []
    r = worker((REPO, seqs, True))
    fails = [f for f in r["fails"] if not f.get("known_finding")]      # recorded findings (F-C19a: class-factory twins) are re-confirmed by the bounded check, not here
    if fails:
        f = fails[0]
        return {"confirmed": True, "function": "cached_script_view (through django's test client and the library's urlconf)", "inputs": f["input"],
                "expected": f["expected"], "observed": f["observed"], "clause": f["clause"]}
    return {"confirmed": False}


@REG.replay(f"{DEP}:cached_script_view")
def _replay_view(model, ob):
    """every request path over known / unknown class hashes x kinds (incl. a kind with a cached input hash glued on) x input
    hashes x methods, after one render of each generated component"""
    return _urls_battery(False)


for _fn in ("cache_component_js_vars", "cache_component_css_vars", "cache_component_js", "cache_component_css", "_cache_script", "_is_script_in_cache",
            "_gen_cache_key", "get_script_content", "get_script_tag", "_prepare_tags_and_urls"):
    REG.replay(f"{DEP}:{_fn}")(lambda model, ob: _urls_battery(True))


def _bounded_urls(tier, repo):
    from harness.bounded_urls import run
    return run(repo, maxlen=3 if tier == "thorough" else 2)


REG.bounded_check("bounded#every_emitted_url_is_served_and_unknown_paths_are_404", P, _bounded_urls,
                  note="the order cache-before-emit inside Component._render_impl, the URL resolver round trip and histories of renders and cache clears are not under contract: every history of <= 2 (thorough: 3) steps over 6 generated component classes (js / css / both / neither / both with equal or different js- and css-data) x document / fragment render + media-cache clear is run, every URL the last render emits is fetched through django's test client, and every request path over known / unknown hashes x 10 kinds x 3 input hashes x 4 methods is compared with the property")

ASSUMES = ["A-PY", "A-INST", "A-DJ"]
NOT_COVERED = [
    "A-HASH (assumed, and FALSE for class factories - known finding F-C19a): distinct live component classes have distinct class hashes; the clause 'already published under the key' in the postcondition of cache_component_js / css is the component's OWN script only under this assumption",
    "every class hash that occurs in a dependency marker of the processed HTML is alive in comp_hash_mapping (a WeakValueDictionary): precondition of _prepare_tags_and_urls, not derived (HTML produced by another process, or by a class that has been garbage-collected since, raises KeyError)",
    "evictions between the render and the later GET (BaseCache is a map without spontaneous eviction here)",
    "django.urls.reverse / URL resolver round trip (assumed stub; get_script_url itself is proved to pass exactly the class hash, the kind and the input hash)",
    "the ordering cache-before-emit inside Component._render_impl is argued (DESIGN), not machine-checked",
]
