"""C13 - html_attrs and Python-passed slot content emit exactly the data given, escaped.

Values are PyVal (None | bool | int | str | SafeString | other object).  `esc` is the assumed contract of
django.utils.html.conditional_escape on plain text (A-DJ): the result contains none of  < > " '  and
unescape(esc(s)) == s; SafeString passes through unchanged.
"""
import z3

from pyvc import ops
from pyvc.contracts import REG, Any_, Bool, Dict, Int, Loop, Obj, Opt, Seq, Str, Tup
from pyvc.types import NONE, Conc, TAny, TBool, TInt, TStr, Val, VTuple

P = "C13"
MOD = "django_components.attributes"
DEP = "django_components.dependencies"
PAIR = Tup(TStr, TAny, tag="AttrPair", fields=["key", "value"])
PAIRS = Seq(PAIR)
ATTRS = Dict(Str, TAny, ordered=True)
S, I, B = z3.StringSort(), z3.IntSort(), z3.BoolSort()
PV = TAny.sort()


def esc(s):
    return ops.uf("html_escape", S, S)(s)


def str_pv(v):
    """str(v) for a PyVal"""
    return z3.If(PV.is_StrV(v), PV.s(v), z3.If(PV.is_SafeV(v), PV.ss(v), ops.uf("str_PyVal", PV, S)(v)))


def esc_pv(v):
    """conditional_escape(v): SafeString unchanged, everything else str()-ed and escaped"""
    return z3.If(PV.is_SafeV(v), PV.ss(v), esc(str_pv(v)))


def _as_pv(run, v):
    return run.coerce(v, TAny) if not (isinstance(v, Val) and v.ty is TAny) else v


REG.stub("django.utils.html.conditional_escape", lambda run, args, kwargs, node: Val(TStr, esc_pv(_as_pv(run, args[0]).t)))


def _format_html(run, args, kwargs, node):
    """format_html(fmt, *args): each arg conditional_escape()d, substituted into the `{}` of a constant format."""
    fmt = z3.simplify(run.coerce(args[0], TStr).t)
    if not z3.is_string_value(fmt):
        from pyvc.interp import EngineError
        raise EngineError("format_html with a non-constant format")
    pieces = fmt.as_string().split("{}")
    if len(pieces) != len(args):
        from pyvc.interp import EngineError
        raise EngineError("format_html arity")
    parts = []
    for k, piece in enumerate(pieces):
        if piece:
            parts.append(z3.StringVal(piece))
        if k < len(args) - 1:
            parts.append(esc_pv(_as_pv(run, args[k + 1]).t))
    return Val(TStr, z3.Concat(*parts) if len(parts) > 1 else parts[0])


REG.stub("django.utils.html.format_html", _format_html)
REG.stub("django.utils.safestring.mark_safe", lambda run, args, kwargs, node: args[0])
REG.stub("django.utils.safestring.SafeString", lambda run, args, kwargs, node: args[0])


# ================================================================================================ append_attributes
def _au():
    return (z3.Function("attr_has_upto", I, S, B), z3.Function("attr_val_upto", I, S, PV))


def pv_concat(a, b):
    """a + b on PyVals when both are str-like (SafeString + SafeString stays safe)"""
    sa, sb = str_pv(a), str_pv(b)
    return z3.If(z3.And(PV.is_SafeV(a), PV.is_SafeV(b)), PV.SafeV(z3.Concat(sa, sb)), PV.StrV(z3.Concat(sa, sb)))


def strlike(v):
    return z3.Or(PV.is_StrV(v), PV.is_SafeV(v))


def _append_entry(run, fr):
    """Spec functions: after processing args[0..i), key k is present iff it occurred, and its value is the first value
    followed by every later one, each preceded by one space (in order of appearance)."""
    args = fr.vars["args"].t
    has_u, val_u = _au()
    i = z3.FreshConst(I, "i")
    k = z3.FreshConst(S, "k")
    key = PAIR.proj(args[i], 0)
    value = PAIR.proj(args[i], 1)
    rng = z3.And(0 <= i, i < z3.Length(args))
    space = PV.StrV(z3.StringVal(" "))
    for ax in (
        z3.ForAll([k], z3.Not(has_u(0, k))),
        z3.ForAll([i, k], z3.Implies(rng, z3.And(
            has_u(i + 1, k) == z3.Or(has_u(i, k), key == k),
            val_u(i + 1, k) == z3.If(key == k, z3.If(has_u(i, k), pv_concat(val_u(i, k), pv_concat(space, value)), value), val_u(i, k))))),
    ):
        run.pc.append(ax)


def _append_inv(c, upto=None, res=None):
    has_u, val_u = _au()
    i = upto if upto is not None else c["_i0"].t
    r = res if res is not None else c["result"].t
    k = z3.Const("bv_k", S)
    return z3.ForAll([k], z3.And(z3.Select(ATTRS.has(r), k) == has_u(i, k),
                                 z3.Implies(has_u(i, k), z3.Select(ATTRS.val(r), k) == val_u(i, k))))


def _accumulated_strlike_unless_in_region(c):
    """Helper invariant: unless some argument value is not a str (region of F-C13a), every accumulated value is a str."""
    r = c["result"].t
    k = z3.Const("bv_k", S)
    args = c["args"].t
    i = z3.Const("bv_i", I)
    allstr = z3.ForAll([i], z3.Implies(z3.And(0 <= i, i < z3.Length(args)), strlike(PAIR.proj(args[i], 1))))
    return z3.Or(z3.Not(allstr), z3.ForAll([k], z3.Implies(z3.Select(ATTRS.has(r), k), strlike(z3.Select(ATTRS.val(r), k)))))


def _all_appended_values_strlike(c):
    """Region of the known finding F-C13a: some value that is appended to an existing key (or the value it is appended
    to) is not a str."""
    args = c.old("args").t
    i = z3.Const("bv_i", I)
    return z3.ForAll([i], z3.Implies(z3.And(0 <= i, i < z3.Length(args)), strlike(PAIR.proj(args[i], 1))))


REG.contract(
    f"{MOD}:append_attributes", prop=P, types={"args": PAIRS}, result=ATTRS, entry=_append_entry,
    locals={"result": ATTRS},
    modifies=[], raises={},       # the property: "over bool / None / number values" too - no TypeError
    findings={"raises-only#TypeError": lambda c: z3.Not(_all_appended_values_strlike(c))},
    loops={0: Loop(inv=[_append_inv, _accumulated_strlike_unless_in_region], variant="len(args) - _i0")},
    ensures={"joined_in_order_of_appearance": lambda c: _append_inv(c, upto=z3.Length(c.old("args").t), res=c["result"].t)},
)


# ================================================================================================ attributes_to_string
def _pieces():
    return z3.Function("attr_pieces_upto", I, z3.SeqSort(S))


def _ats_entry(run, fr):
    """Spec: pieces_upto(i) = rendered pieces of items[0..i): nothing for None/False, esc(key) for True,
    esc(key)="esc(value)" otherwise."""
    attrs = fr.vars["attributes"].t
    order = ATTRS.order(attrs)
    pieces = _pieces()
    i = z3.FreshConst(I, "i")
    key = order[i]
    value = z3.Select(ATTRS.val(attrs), key)
    is_false = z3.And(PV.is_BoolV(value), z3.Not(PV.b(value)))
    is_true = z3.And(PV.is_BoolV(value), PV.b(value))
    piece = z3.If(is_true, esc(key), z3.Concat(esc(key), z3.StringVal('="'), esc_pv(value), z3.StringVal('"')))
    for ax in (
        pieces(0) == z3.Empty(z3.SeqSort(S)),
        z3.ForAll([i], z3.Implies(z3.And(0 <= i, i < z3.Length(order)),
                                  pieces(i + 1) == z3.If(z3.Or(PV.is_NoneV(value), is_false), pieces(i), z3.Concat(pieces(i), z3.Unit(piece))))),
    ):
        run.pc.append(ax)


BAD_IN_NAME = [" ", "\t", "\n", "\r", "\x0c", "=", "/", ">"]


def _contains_sep(s):
    return z3.Or(*[z3.Contains(s, z3.StringVal(b)) for b in BAD_IN_NAME])


def _names_entry(run, fr):
    _ats_entry(run, fr)
    # A-DJ (django.utils.html.escape): only & < > " ' are replaced, by entities that contain none of the characters
    # that end an attribute name; so a separator in the output comes from a separator in the input
    order = ATTRS.order(fr.vars["attributes"].t)
    i = z3.FreshConst(I, "i")
    run.pc.append(z3.ForAll([i], z3.Implies(z3.And(0 <= i, i < z3.Length(order)), z3.Implies(_contains_sep(esc(order[i])), _contains_sep(order[i])))))


def _rendered_names_are_single_tokens(c):
    """From the property: 'whatever characters the names contain, parsing the output yields exactly those names' - a
    rendered name must not contain whitespace, '=', '/', '>' (it would be read as a different name / several names)."""
    attrs = c.old("attributes").t
    order = ATTRS.order(attrs)
    i = z3.Const("bv_i", I)
    v = z3.Select(ATTRS.val(attrs), order[i])
    rendered = z3.Not(z3.Or(PV.is_NoneV(v), z3.And(PV.is_BoolV(v), z3.Not(PV.b(v)))))
    return z3.ForAll([i], z3.Implies(z3.And(0 <= i, i < z3.Length(order), rendered), z3.Not(_contains_sep(esc(order[i])))))


def _some_name_has_separator(c):
    order = ATTRS.order(c.old("attributes").t)
    i = z3.Const("bv_i2", I)
    return z3.Exists([i], z3.And(0 <= i, i < z3.Length(order), _contains_sep(order[i])))


REG.contract(
    f"{MOD}:attributes_to_string", prop=P, types={"attributes": ATTRS}, result=Str, entry=_names_entry,
    findings={"post#rendered_names_are_single_tokens": _some_name_has_separator},
    locals={"attr_list": Seq(Str)},
    modifies=[], raises={},
    loops={0: Loop(inv=[lambda c: c["attr_list"].t == _pieces()(c["_i0"].t)], variant="len(_seq0) - _i0")},
    ensures={"space_joined_escaped_pieces": lambda c: c["result"].t == ops.str_join(z3.StringVal(" "), _pieces()(z3.Length(ATTRS.order(c.old("attributes").t)))),
             "rendered_names_are_single_tokens": _rendered_names_are_single_tokens},
)


# ================================================================================================ escaping lemmas
def _lemma_value_cannot_break_out():
    """A rendered, non-safe VALUE contains no double quote, so it cannot end its attribute (esc axiom A-DJ)."""
    v = z3.Const("v", PV)
    hyps = [z3.Not(PV.is_SafeV(v)),
            # A-DJ: conditional_escape output of plain text contains none of < > " '
            z3.Not(z3.Contains(esc(str_pv(v)), z3.StringVal('"')))]
    return hyps, z3.Not(z3.Contains(esc_pv(v), z3.StringVal('"')))


REG.lemma("lemma#escaped_value_has_no_quote", P, _lemma_value_cannot_break_out, note="from the esc axiom")


def _unused_lemma_name_cannot_break_out():
    """A rendered, non-safe NAME must contain no whitespace, '=', '/', '>' - otherwise an HTML parser reads a different
    name.  esc() gives no such guarantee: this is the known finding F-C13b (region: the name contains such a character)."""
    k = z3.String("k")
    bad = [" ", "\t", "\n", "\r", "\x0c", "=", "/", ">"]
    contains_bad = lambda s: z3.Or(*[z3.Contains(s, z3.StringVal(b)) for b in bad])
    # A-DJ: esc is the identity on text without & < > " '
    specials = ["&", "<", ">", '"', "'"]
    hyps = [z3.Implies(z3.Not(z3.Or(*[z3.Contains(k, z3.StringVal(c)) for c in specials])), esc(k) == k),
            z3.Not(contains_bad(k))]          # outside the finding's region
    return hyps, z3.Or(z3.Not(contains_bad(esc(k))), z3.Or(*[z3.Contains(k, z3.StringVal(c)) for c in specials]))




# ================================================================================================ end-tag guards
def _lower(s):
    return ops.str_lower(s)


from contracts.common import CLS  # noqa: E402


def _lower_axioms(tag):
    def entry(run, fr):
        c = fr.vars["content"].t
        t = z3.StringVal(tag)
        # A-PY (str.lower): an all-lowercase ASCII needle found in s is found in s.lower()
        run.pc.append(z3.Implies(z3.Contains(c, t), z3.Contains(_lower(c), t)))
    return entry


for _fn, _tag, _open, _close in (("wrap_component_js", "</script", "<script>", "</script>"), ("wrap_component_css", "</style", "<style>", "</style>")):
    REG.contract(
        f"{DEP}:{_fn}", prop=P, types={"comp_cls": CLS, "content": Str}, result=Str, entry=_lower_axioms(_tag),
        modifies=[],
        # refused exactly when the content would terminate its own element, IN ANY LETTER CASE (from the property)
        raises={"RuntimeError": (lambda t: lambda c: z3.Contains(_lower(c.old("content").t), z3.StringVal(t)))(_tag)},
        ensures={
            "not_refused_only_if_harmless": (lambda t: lambda c: z3.Not(z3.Contains(_lower(c.old("content").t), z3.StringVal(t))))(_tag),
            "wrapped_verbatim": (lambda o, cl: lambda c: c["result"].t == z3.Concat(z3.StringVal(o), c.old("content").t, z3.StringVal(cl)))(_open, _close),
        },
    )


@REG.replay(f"{DEP}:wrap_component_js")
def _replay_wrap_js(model, ob):
    return _replay_wrap("wrap_component_js", "</script", "<script>{}</script>")


@REG.replay(f"{DEP}:wrap_component_css")
def _replay_wrap_css(model, ob):
    return _replay_wrap("wrap_component_css", "</style", "<style>{}</style>")


def _replay_wrap(fn, tag, fmt):
    from django_components import dependencies as dep

    class K:
        pass
    for content in (f"x{tag.upper()}>", f"a{tag.title()} >", f"{tag[:3].upper()}{tag[3:]}>y", f"ok{tag}>", "plain",
                    f"a{tag}/>b", f"a{tag} x='1'>b", f"a{tag}\n/>", f"{tag.upper()}\tdefer>", f"// {tag}"):
        want_refused = tag in content.lower()
        try:
            got = getattr(dep, fn)(K, content)
            refused = False
        except RuntimeError:
            refused, got = True, "RuntimeError"
        if refused != want_refused or (not refused and got != fmt.format(content)):
            return {"confirmed": True, "function": fn, "inputs": {"content": content}, "expected": "RuntimeError" if want_refused else fmt.format(content), "observed": got}
    return {"confirmed": False}

ASSUMES = ["A-PY", "A-INST", "A-DJ"]
NOT_COVERED = [
    "HtmlAttrsNode.render (defaults/attrs merge with dict.update and **kwargs) is covered only by the BOUNDED stand-in bounded#html_attrs_tag_emits_exactly_the_merged_attributes",
    "HTML-parser reading of the output is represented by the two escaping lemmas only",
]


def _f13a(w):
    from django_components.attributes import append_attributes
    try:
        append_attributes(*[tuple(p) for p in w["args"]])
        return False
    except TypeError:
        return True


def _f13b(w):
    from html.parser import HTMLParser
    from django_components.attributes import attributes_to_string
    out = attributes_to_string(w["attributes"])
    got = []

    class Pp(HTMLParser):
        def handle_starttag(self, tag, attrs):
            got.extend(attrs)
    Pp().feed(f"<div {out}>")
    return dict(got) != dict(w["attributes"])


FINDING_REPLAYS = {"F-C13a": _f13a, "F-C13b": _f13b}

import contracts.c13b  # noqa: E402,F401  (merge_repeated_kwargs: html_attrs repeated keys)

def _bounded_html_attrs(tier, repo):
    from harness.bounded_html_attrs import run
    return run(repo)


REG.bounded_check("bounded#html_attrs_tag_emits_exactly_the_merged_attributes", P, _bounded_html_attrs,
                  note="HtmlAttrsNode.render / resolve_params and the tag plumbing are not under contract as a whole: 3072 {% html_attrs %} tags (attrs / defaults dicts, plain, repeated and special-character kwargs; plain, special, SafeString, True, False, None values) are rendered for real, the output is parsed by html.parser and compared with the property; inputs inside the region of F-C13a (appending to a non-str value) only have to fail with that TypeError")



# ================================================================================================ HtmlAttrsNode.render
# Frame contract only (the functional statement of the whole tag is the bounded stand-in below): `attrs` and `defaults` are the
# CALLER's dicts (the same object may be handed to the next tag, the next loop iteration, the next request) - the engine marks
# container parameters as caller-owned, so merging INTO one of them is the obligation frame#foreign_object_mutated_through_<var>;
# **kwargs is a fresh dict per call.  No exception of its own (the TypeError of append_attributes is the known finding F-C13a).
OATTRS = Opt(ATTRS)


def _attrs_items(run, d, args, kwargs, node):
    """dict.items() of an attribute dict as a sequence of AttrPair records (the element type of append_attributes' *args):
    one pair per key, in insertion order"""
    from pyvc.types import Conc
    t = d.t
    r = z3.FreshConst(PAIRS.sort(), "items")
    i = z3.FreshConst(I, "ii")
    order = ATTRS.order(t)
    run.assume(z3.Length(r) == z3.Length(order))
    run.assume(z3.ForAll([i], z3.Implies(z3.And(0 <= i, i < z3.Length(r)), r[i] == PAIR.mk(order[i], z3.Select(ATTRS.val(t), order[i])))))
    return Conc(("seqview", Val(PAIRS, r))), None


REG.stub(("method2", ATTRS.name, "items"), _attrs_items)
REG.contract(
    f"{MOD}:HtmlAttrsNode.render", prop=P, types={"self": Obj("HtmlAttrsNode"), "context": Obj("Context"), "attrs": OATTRS, "defaults": OATTRS, "kwargs": ATTRS},
    result=Str, locals={"final_attrs": ATTRS},
    modifies=[], raises={"TypeError": None},
    ensures={},
)


@REG.replay(f"{MOD}:HtmlAttrsNode.render")
def _replay_html_attrs_render(model, ob):
    """a few real {% html_attrs %} tags with attrs / defaults dicts: output parsed back, dicts compared with their state before"""
    from harness.bounded_html_attrs import worker
    from pyvc.repo import REPO
    cases = [(a, d, e) for a in (None, [("class", "plain")], [("data-x", "special"), ("class", "safe")]) for d in (None, [("class", "special")], [("data-x", "plain")])
             for e in ([], [("class", "plain")])]
    r = worker((REPO, cases))
    if r["fails"]:
        f = r["fails"][0]
        return {"confirmed": True, "function": "HtmlAttrsNode.render (through a real {% html_attrs %} tag)", "inputs": f["input"], "expected": f["expected"], "observed": f["observed"], "clause": f["clause"]}
    return {"confirmed": False}

import contracts.c13c  # noqa: E402,F401  (_normalize_slot_fills: slot content escaped exactly once)
