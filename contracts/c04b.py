"""C04 - the fragment-mode declaration: _gen_exec_script.

From the property ("In fragment mode the same set is declared to the client-side loader instead of being inlined"; observed at
"decoded JSON of <script type=application/json data-djc>"): the script element holds the JSON of ONE object with exactly the
four keys the client-side manager reads, each mapped to the base64 of exactly the corresponding list, in order - the URLs
already loaded under `loadedCssUrls` / `loadedJsUrls`, the tags still to load under `toLoadCssTags` / `toLoadJsTags` - and
there is no element at all exactly when all four lists are empty.
base64 and json.dumps are dependencies: b64(s) and json(d) are opaque functions of their argument (A-PY).
"""
import z3

from pyvc import ops
from pyvc.contracts import REG, Dict, Int, Opt, Seq, Str
from pyvc.types import TBool, TOpt, TStr, Val

P = "C04"
DEP = "django_components.dependencies"
S, I, B = z3.StringSort(), z3.IntSort(), z3.BoolSort()
STRS = Seq(Str)
DATA = Dict(Str, STRS)
OS = TOpt(TStr)


def b64(s):
    """base64.b64encode(s.encode()).decode()"""
    return ops.uf("base64_of_text", S, S)(s)


def json_of(d):
    return ops.uf("json_dumps_str_lists", DATA.sort(), S)(d)


def _any(run, args, kwargs, node):
    """any([l1, l2, l3, l4]): some list is non-empty (read element by element from the list display)"""
    import ast as _ast
    a = node.args[0]
    if not isinstance(a, _ast.List):
        from pyvc.interp import EngineError
        raise EngineError("any() over something other than a list display")
    fr = run.call_frame
    return Val(TBool, z3.Or(*[z3.Length(run.coerce(run.ev(e, fr), STRS).t) > 0 for e in a.elts]))


def _b64encode(run, args, kwargs, node):
    a = args[0]
    from pyvc.types import Conc
    return Conc(("obj_kind", "b64bytes", a))


REG.stub("base64.b64encode", _b64encode)
REG.stub(("method", "conc:obj_kind:b64bytes", "decode"), lambda run, obj, args, kwargs, node: Val(TStr, b64(ops.uf("str_decode_of_encode", S, S)(obj.obj[2].t) if False else _plain(obj.obj[2]))))


def _plain(v):
    """the text whose .encode() was passed to b64encode"""
    t = v.t
    if z3.is_app(t) and t.decl().name() == "str_encode":
        return t.arg(0)
    return ops.uf("bytes_as_text", S, S)(t)


def _json_dumps(run, args, kwargs, node):
    from pyvc.types import Conc
    v = args[0]
    if isinstance(v, Conc) and isinstance(v.obj, tuple) and v.obj[0] == "dictlit":
        d = Val(DATA, DATA.empty())
        for k_, val_, _n in v.obj[1]:
            d = ops.setitem(run, d, run.coerce(k_, TStr), run.coerce(val_, STRS), node)
        v = d
    pv = run.coerce(v, DATA)
    run.ghost["payload"] = pv          # what is serialised (so the clause can speak about it without an existential)
    return Val(TStr, json_of(pv.t))


def mapped(L, out):
    """out is L with b64 applied element-wise"""
    q = z3.Const("bv_q", I)
    return z3.And(z3.Length(out) == z3.Length(L), z3.ForAll([q], z3.Implies(z3.And(0 <= q, q < z3.Length(L)), out[q] == b64(L[q]))))


def _post(c):
    r = c["result"].t
    lists = {"loadedCssUrls": c.old("loaded_css_urls").t, "loadedJsUrls": c.old("loaded_js_urls").t,
             "toLoadCssTags": c.old("to_load_css_tags").t, "toLoadJsTags": c.old("to_load_js_tags").t}
    empty = z3.And(*[z3.Length(v) == 0 for v in lists.values()])
    k = z3.Const("bv_k", S)
    keys = [z3.StringVal(n) for n in lists]
    if "payload" not in c.ghost:
        return z3.And(empty, OS.is_none(r))
    d = c.ghost["payload"].t
    payload_ok = z3.And(
        z3.ForAll([k], z3.Select(DATA.has(d), k) == z3.Or(*[k == kk for kk in keys])),
        *[mapped(v, z3.Select(DATA.val(d), z3.StringVal(n))) for n, v in lists.items()])
    return z3.And(z3.Not(empty), z3.Not(OS.is_none(r)), payload_ok,
                  OS.get(r) == z3.Concat(z3.StringVal('<script type="application/json" data-djc>'), json_of(d), z3.StringVal("</script>")))


REG.contract(
    f"{DEP}:_gen_exec_script", prop=P, types={"to_load_js_tags": STRS, "to_load_css_tags": STRS, "loaded_js_urls": STRS, "loaded_css_urls": STRS}, result=OS,
    calls={"any": _any, "json.dumps": _json_dumps},
    modifies=[], raises={},
    ensures={"declares_exactly_the_four_lists_base64_under_their_own_keys_or_nothing_when_all_are_empty": _post},
)
