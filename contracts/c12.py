"""C12 - parsing any tag or template terminates with success or TemplateSyntaxError.

PROVED (shared with C09): the template lexer - parse_template / _detailed_tag_parser raise nothing but
TemplateSyntaxError (every implicit IndexError / KeyError / TypeError site is an obligation) and terminate (loop variants).
BOUNDED stand-in: parse_tag (550-line scanner with nested closures) - exhaustive enumeration, see harness/.
NOT APPLICABLE: the quadratic time bound and regex back-tracking (cost semantics are not modelled).
"""
import contracts.c09  # noqa: F401
from pyvc.contracts import REG

P = "C12"
REG.contracts["django_components.util.template_parser:parse_template"].prop = ("C09", "C12")


def _bounded_all_strings(tier, repo):
    from harness.bounded_parse_tag import run
    return run(repo, 6 if tier == "thorough" else 5)


def _bounded_grammar(tier, repo):
    from harness.grammar_tags import run
    return run(repo, 2, 3 if tier == "thorough" else 2)


REG.bounded_check("bounded#parse_tag_all_short_strings", P, _bounded_all_strings,
                  note="parse_tag returns or raises TemplateSyntaxError and answers within 5 s, for EVERY string up to the stated length over the 18-symbol syntax alphabet")
REG.bounded_check("bounded#serialise_reparse_documented_grammar", P, _bounded_grammar,
                  note="re-parsing the canonical serialisation of every documented-grammar AST (bounded depth/width) gives the same structure")

ASSUMES = ["A-PY", "A-INST", "A-RE", "A-DJ"]
NOT_COVERED = [
    "NOT APPLICABLE sub-clauses: quadratic TIME bound and regex back-tracking (cost semantics of `str +=` and of `re` are not modelled)",
    "parse_tag is only covered by the bounded stand-in (stated bound in coverage.bounded), not proved",
]
