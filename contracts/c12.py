"""C12 - parsing any tag or template terminates with success or TemplateSyntaxError.

PROVED (shared with C09): the template lexer - parse_template / _detailed_tag_parser raise nothing but
TemplateSyntaxError (every implicit IndexError / KeyError / TypeError site is an obligation) and terminate (loop variants).
BOUNDED stand-in: parse_tag (550-line scanner with nested closures) - exhaustive enumeration, see harness/.
NOT decided deductively: the quadratic time bound and regex back-tracking (cost semantics are not modelled); a bounded
time-budget stand-in on adversarial inputs is reported under coverage.bounded.
"""
import contracts.c09  # noqa: F401
from pyvc.contracts import REG

P = "C12"
REG.contracts["django_components.util.template_parser:parse_template"].prop = ("C09", "C12")


def _bounded_all_strings(tier, repo):
    from harness.bounded_parse_tag import run
    return run(repo, 6 if tier == "thorough" else 5)


def _bounded_grammar(tier, repo):
    from harness.grammar_tags import run
    return run(repo, 2, 3 if tier == "thorough" else 2)


REG.bounded_check("bounded#parse_tag_all_short_strings", P, _bounded_all_strings,
                  note="parse_tag returns or raises TemplateSyntaxError and answers within 5 s, for EVERY string up to the stated length over the 18-symbol syntax alphabet")
REG.bounded_check("bounded#serialise_reparse_documented_grammar", P, _bounded_grammar,
                  note="re-parsing the canonical serialisation of every documented-grammar AST (bounded depth/width) gives the same structure")

def _bounded_time(tier, repo):
    import sys
    for pth in (repo + "/src", repo):
        if pth not in sys.path:
            sys.path.insert(0, pth)
    from django.conf import settings
    if not settings.configured:
        from tests.django_test_setup import setup_test_config
        setup_test_config({"autodiscover": False})
    r = contracts.c09._time_budget()
    return {"space": "7 adversarial tag texts (runs of 28-46 backslashes / 40 escaped quotes in unterminated strings, 4000 quotes, 4000-character tag, 2000 percent signs), each lexed in a child process with a 4 s budget",
            "evaluations": 7, "failures": [r] if r else [], "exhaustive": False}


REG.bounded_check("bounded#lexer_time_budget_on_adversarial_inputs", P, _bounded_time,
                  note="stand-in for the cost clause (running time is not modelled by the contracts): catastrophic regex back-tracking / super-linear scanning shows up as a blown 4 s budget")

ASSUMES = ["A-PY", "A-INST", "A-RE", "A-DJ"]
NOT_COVERED = [
    "the quadratic TIME bound and regex back-tracking are NOT decided deductively (cost semantics of `str +=` and of `re` are not modelled); a bounded time-budget stand-in on adversarial inputs runs instead and is reported under coverage.bounded",
    "parse_tag is only covered by the bounded stand-in (stated bound in coverage.bounded), not proved",
]
