"""C04 - exactly the JS/CSS of the rendered components is delivered, once, in order.

Marker round trip: the marker emitted by insert_component_dependencies_comment is recognised in full by
COMPONENT_COMMENT_REGEX and decomposed by SCRIPT_NAME_REGEX into the same four fields - for EVERY class hash that
hash_comp_cls can return ("whatever the class is named").  The languages are translated from the real regex
constants on every run (regex2smt); only re's scanning discipline is assumed (A-RE).
"""
import ast
import re

import z3

import contracts.c19  # noqa: F401  (_prepare_tags_and_urls and the script-cache contracts are shared)
from contracts.common import CLS, OS, class_hash, class_name
from contracts.stubs_python import regex_lang
from pyvc import ops
from pyvc.contracts import REG, Bool, Dict, Int, Loop, Obj, Opt, Seq, Str, Tup
from pyvc.regex2smt import translate
from pyvc.repo import load_module
from pyvc.types import NONE, Conc, TBool, TInt, TOpt, TStr, Val

P = "C04"
DEP = "django_components.dependencies"
MISC = "django_components.util.misc"
S, I = z3.StringSort(), z3.IntSort()


def _const_regex(name):
    m = load_module(DEP)
    node = m.consts[name]
    pat = ast.literal_eval(node.args[0])
    return pat


def _re(pat):
    return translate(pat, 0)


def _group_lang(pat, group):
    """language of one named group of a bytes pattern (textual extraction of `(?P<name>...)`)"""
    txt = pat.decode("latin-1")
    i = txt.index(f"(?P<{group}>") + len(f"(?P<{group}>")
    depth, j = 1, i
    while depth:
        if txt[j] == "\\":
            j += 2
            continue
        depth += {"(": 1, ")": -1}.get(txt[j], 0)
        j += 1
    return translate(txt[i:j - 1].encode("latin-1"), 0)


def emit_format():
    m = load_module(DEP)
    return ast.literal_eval(m.consts["COMPONENT_DEPS_COMMENT"])


ID_RE = z3.Loop(z3.Union(z3.Range("0", "9"), z3.Range("a", "z"), z3.Range("A", "Z")), 6, 6)       # gen_id(): 6 chars of [0-9A-Za-z]
HEX06 = z3.Loop(z3.Union(z3.Range("0", "9"), z3.Range("a", "f")), 0, 6)
# what hash_comp_cls guarantees (its postcondition below): ASCII word characters and '-'
HASH_EMIT = z3.Plus(z3.Union(z3.Range("0", "9"), z3.Range("a", "z"), z3.Range("A", "Z"), z3.Re("_"), z3.Re("-")))


def marker_of(h, rid, js, css):
    fmt = emit_format()
    pre, post = fmt.split("{data}")
    return z3.Concat(z3.StringVal(pre), h, z3.StringVal(","), rid, z3.StringVal(","), js, z3.StringVal(","), css, z3.StringVal(post))


def _fields():
    h, rid, js, css = z3.Strings("h rid js css")
    hyps = [z3.InRe(h, HASH_EMIT), z3.InRe(rid, ID_RE), z3.InRe(js, HEX06), z3.InRe(css, HEX06)]
    return h, rid, js, css, hyps


def lemma_marker_recognised():
    h, rid, js, css, hyps = _fields()
    return hyps, z3.InRe(marker_of(h, rid, js, css), _re(_const_regex("COMPONENT_COMMENT_REGEX")))


def lemma_data_decomposes():
    """the data part is in the language of SCRIPT_NAME_REGEX (anchors stripped)"""
    h, rid, js, css, hyps = _fields()
    pat = _const_regex("SCRIPT_NAME_REGEX")
    assert pat.startswith(b"^") and pat.endswith(b"$")
    data = z3.Concat(h, z3.StringVal(","), rid, z3.StringVal(","), js, z3.StringVal(","), css)
    return hyps, z3.InRe(data, _re(pat[1:-1]))


def lemma_fields_in_group_languages():
    h, rid, js, css, hyps = _fields()
    pat = _const_regex("SCRIPT_NAME_REGEX")
    return hyps, z3.And(z3.InRe(h, _group_lang(pat, "comp_cls_hash")), z3.InRe(rid, _group_lang(pat, "id")),
                        z3.InRe(js, _group_lang(pat, "js")), z3.InRe(css, _group_lang(pat, "css")))


def lemma_unique_split(k):
    """One-comma lemma, applied three times: fields are comma-free, so the split at the commas is unique."""
    def build():
        pat = _const_regex("SCRIPT_NAME_REGEX")
        a1, a2, b1, b2 = z3.Strings("a1 a2 b1 b2")
        g = ["comp_cls_hash", "id", "js"][k]
        comma = z3.StringVal(",")
        hyps = [z3.InRe(a1, _group_lang(pat, g)), z3.InRe(b1, _group_lang(pat, g)), z3.Concat(a1, comma, a2) == z3.Concat(b1, comma, b2)]
        return hyps, z3.And(a1 == b1, a2 == b2)
    return build


def lemma_no_lt_inside_marker():
    """No word of COMPONENT_COMMENT_REGEX contains '<' after its first character: an emitted marker cannot be overlapped
    by an earlier match, so it is always one of the removed matches."""
    w = z3.String("w")
    return [z3.InRe(w, _re(_const_regex("COMPONENT_COMMENT_REGEX")))], z3.Not(z3.Contains(z3.SubString(w, 1, z3.Length(w)), z3.StringVal("<")))


REG.lemma("lemma#marker_is_recognised_in_full", P, lemma_marker_recognised, note="emit format (source) vs COMPONENT_COMMENT_REGEX (source)")
REG.lemma("lemma#data_matches_SCRIPT_NAME_REGEX", P, lemma_data_decomposes)
REG.lemma("lemma#fields_lie_in_their_groups", P, lemma_fields_in_group_languages)
for _k in range(3):
    REG.lemma(f"lemma#unique_comma_split#{_k}", P, lemma_unique_split(_k))
REG.lemma("lemma#no_lt_inside_a_marker", P, lemma_no_lt_inside_marker)

# ================================================================================================ hash_comp_cls
REG.stub("django_components.util.misc:get_import_path", lambda run, args, kwargs, node: Val(TStr, ops.uf("import_path", CLS.sort(), S)(args[0].t)))


HEXD = z3.Union(z3.Range("0", "9"), z3.Range("a", "f"))
REG.stub("hashlib.md5", lambda run, args, kwargs, node: Conc(("obj_kind", "md5", args[0])))


def _hexdigest(run, obj, args, kwargs, node):
    """hashlib.md5(b).hexdigest(): 32 lowercase hex digits (A-PY)."""
    r = ops.uf("md5_hex", S, S)(obj.obj[2].t)
    run.assume(z3.Length(r) == 32)
    run.assume(z3.InRe(r, z3.Loop(HEXD, 32, 32)))
    run.assume(z3.InRe(z3.SubString(r, 0, 6), z3.Loop(HEXD, 6, 6)))     # consequence, stated for the solver
    return Val(TStr, r)


REG.stub(("method", "conc:obj_kind:md5", "hexdigest"), _hexdigest)


def _name_axiom(run, fr):
    # nothing is assumed about the class name: `type(name, ...)` accepts any string
    pass


REG.contract(
    f"{MISC}:hash_comp_cls", prop=P, types={"comp_cls": CLS}, result=Str, entry=_name_axiom,
    modifies=[], raises={},
    ensures={
        # from the property: "whatever the class is named" the marker must be harvested and removed -> the hash must lie
        # in the alphabet both regexes accept
        "hash_is_in_the_marker_alphabet": lambda c: z3.InRe(c["result"].t, HASH_EMIT),
        "ends_with_md5_prefix": lambda c: z3.SuffixOf(z3.Concat(z3.StringVal("_"), z3.SubString(ops.uf("md5_hex", S, S)(ops.uf("str_encode", S, S)(ops.uf("import_path", CLS.sort(), S)(c["comp_cls"].t))), 0, 6)), c["result"].t),
    },
)


# ================================================================================================ insert_component_dependencies_comment
def _or_empty(os_):
    return z3.If(z3.Or(OS.is_none(os_), z3.Length(OS.get(os_)) == 0), z3.StringVal(""), OS.get(os_))


REG.contract(
    f"{DEP}:insert_component_dependencies_comment", prop=P,
    types={"content": Str, "component_cls": CLS, "component_id": Str, "js_input_hash": OS, "css_input_hash": OS}, result=Str,
    modifies=[], raises={},
    ensures={"exactly_one_marker_prepended": lambda c: c["result"].t == z3.Concat(
        marker_of(class_hash(c["component_cls"].t), c["component_id"].t, _or_empty(c["js_input_hash"].t), _or_empty(c["css_input_hash"].t)), c["content"].t)},
)


# ================================================================================================ _postprocess_media_tags
def url_of(kind_is_js, tag):
    """the URL the function extracts from a tag (group 1 of src="..." / href="..." on the stripped tag), None if absent"""
    return ops.uf("tag_url", z3.BoolSort(), S, OS.sort())(kind_is_js, tag)


URLM = Tup(TBool, OS, tag="UrlMatch", fields=["found", "url"])


def _regex_search(run, obj, args, kwargs, node):
    """Pattern.search for the two URL-extraction constants: group(1) is `tag_url(kind, text)` (A-RE); other constants: not modelled."""
    from pyvc.interp import EngineError
    pat = obj.obj[1]
    if pat not in ('src="([^"]+)"', 'href="([^"]+)"'):
        raise EngineError(f"regex.search on {pat!r} is not modelled")
    s = run.coerce(args[0], TStr).t
    u = url_of(z3.BoolVal(pat.startswith("src")), s)
    return Val(URLM, URLM.mk(z3.Not(OS.is_none(u)), u))


REG.stub(("method", "conc:regex", "search"), _regex_search)
REG.stub(("method", "UrlMatch", "group"), lambda run, obj, args, kwargs, node: Val(TStr, OS.get(URLM.proj(obj.t, 1))))
REG.stub(("truth", "UrlMatch"), lambda run, v: URLM.proj(v.t, 0))


def _pm_urls():
    """urls_upto(i): distinct URLs of tags[0..i) in first-appearance order"""
    return z3.Function("c04_urls_upto", I, z3.SeqSort(S))


def _pm_seen():
    """seen_upto(i, u): u is the URL of one of tags[0..i)"""
    return z3.Function("c04_seen_upto", I, S, z3.BoolSort())


def _pm_entry(run, fr):
    tags = fr.vars["tags"].t
    js = fr.vars["script_type"].t == z3.StringVal("js")
    urls, seen = _pm_urls(), _pm_seen()
    i = z3.FreshConst(I, "i")
    k = z3.FreshConst(S, "k")
    u = OS.get(url_of(js, ops.str_strip(tags[i])))
    for ax in (
        urls(0) == z3.Empty(z3.SeqSort(S)),
        z3.ForAll([k], z3.Not(seen(0, k))),
        z3.ForAll([i, k], z3.Implies(z3.And(0 <= i, i < z3.Length(tags)), seen(i + 1, k) == z3.Or(seen(i, k), k == u))),
        z3.ForAll([i], z3.Implies(z3.And(0 <= i, i < z3.Length(tags)),
                                  urls(i + 1) == z3.If(seen(i, u), urls(i), z3.Concat(urls(i), z3.Unit(u))))),
    ):
        run.pc.append(ax)


def _pm_inv(c):
    urls = _pm_urls()
    i = c["_i0"].t
    tb = c["tags_by_url"].t
    TB = Dict(Str, Str)
    k = z3.Const("bv_k", S)
    return z3.And(c["urls"].t == urls(i),
                  z3.ForAll([k], z3.Select(TB.has(tb), k) == _pm_seen()(i, k)))


REG.contract(
    f"{DEP}:_postprocess_media_tags", prop=P, types={"script_type": Str, "tags": Seq(Str)}, result=Tup(Seq(Str), Seq(Str), tag="TagsUrls", fields=["tags", "urls"]),
    entry=_pm_entry,
    locals={"urls": Seq(Str), "tags_by_url": Dict(Str, Str), "maybe_url": OS},
    modifies=[], raises={"RuntimeError": None},
    loops={0: Loop(inv=[_pm_inv], variant="len(tags) - _i0")},
    ensures={"urls_distinct_in_first_appearance_order": lambda c: URL_RES.proj(c["result"].t, 1) == _pm_urls()(z3.Length(c["tags"].t))},
)
URL_RES = Tup(Seq(Str), Seq(Str), tag="TagsUrls", fields=["tags", "urls"])

ASSUMES = ["A-PY", "A-INST", "A-RE", "A-DJ", "A-UTF8"]
NOT_COVERED = [
    "the harvest loop of _process_dep_declarations, render_dependencies' marker removal and component_post_render's placeholder removal are not yet under contract",
    "Media merging (django.forms.Media) is a dependency; inherited Media is C16",
    "composition to whole pages (which components render, how often, in which order) is covered only by the BOUNDED stand-in bounded#page_has_exactly_the_js_css_of_the_rendered_components_once_in_order (1060 pages, never counted as proved)",
]


@REG.replay(f"{MISC}:hash_comp_cls")
def _replay_hash(model, ob):
    from django_components.dependencies import COMPONENT_COMMENT_REGEX, COMPONENT_DEPS_COMMENT, SCRIPT_NAME_REGEX
    from django_components.util.misc import hash_comp_cls
    for name in ("Caf\u00e9", "a.b", "x y", "Plain"):
        cls = type(name, (), {})
        h = hash_comp_cls(cls)
        marker = COMPONENT_DEPS_COMMENT.format(data=f"{h},abc123,,").encode()
        m = COMPONENT_COMMENT_REGEX.fullmatch(marker)
        ok = m is not None and SCRIPT_NAME_REGEX.match(m.group("data")) is not None and SCRIPT_NAME_REGEX.match(m.group("data")).group("comp_cls_hash").decode() == h
        if not ok:
            return {"confirmed": True, "function": "hash_comp_cls + marker regexes", "inputs": {"class_name": name}, "expected": "marker recognised and decomposed", "observed": f"hash {h!r}: marker {marker!r} not recognised"}
    return {"confirmed": False}


def _bounded_deps(tier, repo):
    from harness.bounded_deps import run
    return run(repo, 3)


REG.bounded_check("bounded#page_has_exactly_the_js_css_of_the_rendered_components_once_in_order", P, _bounded_deps,
                  note="the harvest loop of _process_dep_declarations and the render pipeline are not under contract: every page with <= 3 component uses over 3 classes (repeats, nesting through a slot) x 4 placeholder layouts is rendered for real and its scripts / styles / Media files compared with the rendered classes in order of first appearance")

import contracts.c04b  # noqa: E402,F401  (_gen_exec_script: the fragment-mode declaration)
