"""C11 - a tag accepts its arguments exactly when the equivalent Python call would.

_validate_params_with_code is proved against a CLOSED-FORM acceptance predicate Acc (bounded quantifiers over parameter
indices) that is CPython's argument-binding rule for signatures WITHOUT positional-only parameters:
    returns (a, k)  =>  Acc(sig, P)  and  a, k are exactly the given arguments plus the defaults of the omitted parameters
    raises TypeError =>  not Acc(sig, P)
Positional-only parameters are outside Acc: the two recorded known findings (F-C11a, F-C11c) live exactly there.
"""
import z3

from pyvc import ops
from pyvc.contracts import REG, Any_, Bool, Dict, Int, Loop, Obj, Opt, Ref, Seq, Set, Str, Tup
from pyvc.interp import EngineError
from pyvc.types import NONE, Conc, TAny, TBool, TInt, TOpt, TSeq, TSet, TStr, Val, VTuple, mk_int

P = "C11"
MOD = "django_components.util.template_tag"
S, I, B = z3.StringSort(), z3.IntSort(), z3.BoolSort()
OS = TOpt(TStr)
PV = TAny.sort()
FN = Obj("Function")
PARAM = Tup(OS, TAny, tag="TagParam", fields=["key", "value"])
PARAMS = Seq(PARAM)
NAMES = Seq(Str)
VALS = Seq(Any_)
KW = Dict(Str, Any_)
USED = Set(Str)
RES = Tup(VALS, KW, tag="ArgsKwargs", fields=["args", "kwargs"])
REG.record("TagParam", PARAM)

# ---- the function object's introspection data (A-PY: __code__ / __defaults__ / __kwdefaults__)
f_varnames = lambda f: ops.uf("co_varnames", FN.sort(), NAMES.sort())(f)
f_argcount = lambda f: ops.uf("co_argcount", FN.sort(), I)(f)
f_kwonly = lambda f: ops.uf("co_kwonlyargcount", FN.sort(), I)(f)
f_flags = lambda f: ops.uf("co_flags", FN.sort(), I)(f)
f_defaults = lambda f: ops.uf("fn_defaults", FN.sort(), TOpt(VALS).sort())(f)
f_kwdefaults = lambda f: ops.uf("fn_kwdefaults", FN.sort(), TOpt(KW).sort())(f)
bitand = lambda a, b: ops.uf("int_bitand", I, I, I)(a, b)

REG.stub(("getattr", "Function", "__code__"), lambda run, obj, node: Conc(("obj_kind", "code", obj)))
REG.stub(("getattr", "Function", "__defaults__"), lambda run, obj, node: Val(TOpt(VALS), f_defaults(obj.t)))
REG.stub(("getattr", "Function", "__kwdefaults__"), lambda run, obj, node: Val(TOpt(KW), f_kwdefaults(obj.t)))
REG.stub(("getattr", "conc:obj_kind:code", "co_varnames"), lambda run, obj, node: Val(NAMES, f_varnames(obj.obj[2].t)))
REG.stub(("getattr", "conc:obj_kind:code", "co_argcount"), lambda run, obj, node: Val(TInt, f_argcount(obj.obj[2].t)))
REG.stub(("getattr", "conc:obj_kind:code", "co_kwonlyargcount"), lambda run, obj, node: Val(TInt, f_kwonly(obj.obj[2].t)))
REG.stub(("getattr", "conc:obj_kind:code", "co_flags"), lambda run, obj, node: Val(TInt, f_flags(obj.obj[2].t)))


def _first_key(run, args, kwargs, node):
    """next(iter(d)): some key of the (non-empty) dict"""
    it = args[0]
    d = it.obj[1]
    k = z3.FreshConst(S, "first_key")
    run.assume(z3.Select(KW.has(d.t), k))
    return Val(TStr, k)


REG.stub(("builtin", "iter"), lambda run, args, kwargs, node: Conc(("iterof", ops.unopt(run, args[0], node))))
REG.stub(("builtin", "next"), _first_key)


# ------------------------------------------------------------------------------------------------ the signature view
def sig(c_or_f):
    f = c_or_f
    names = z3.Extract(z3.Extract(f_varnames(f), 0, f_argcount(f) + f_kwonly(f)), 2, z3.Length(z3.Extract(f_varnames(f), 0, f_argcount(f) + f_kwonly(f))) - 2)
    pc = z3.If(f_argcount(f) - 2 >= 0, f_argcount(f) - 2, 0)
    kc = f_kwonly(f)
    va = bitand(f_flags(f), 4) != 0
    vk = bitand(f_flags(f), 8) != 0
    return names, pc, kc, va, vk


def key_of(Pm, j):
    return PARAM.proj(Pm[j], 0)


def val_of(Pm, j):
    return PARAM.proj(Pm[j], 1)


def is_pos(Pm, j):
    return OS.is_none(key_of(Pm, j))


def _wf_sig(c):
    """what CPython guarantees about a function object: render(self, context, ...) has >= 2 positional parameters, parameter
    names are distinct, defaults fit, kwdefaults only name keyword-only parameters"""
    f = c["fn"].t
    vn = f_varnames(f)
    ac, kc = f_argcount(f), f_kwonly(f)
    a, b = z3.Const("bv_a", I), z3.Const("bv_b", I)
    d = f_defaults(f)
    nd = z3.If(TOpt(VALS).is_none(d), 0, z3.Length(TOpt(VALS).get(d)))
    return z3.And(ac >= 2, kc >= 0, z3.Length(vn) >= ac + kc, nd <= ac - 2,
                  z3.ForAll([a, b], z3.Implies(z3.And(0 <= a, a < b, b < ac + kc), vn[a] != vn[b])))


def _kpos():
    return z3.Function("c11_first_kw_position", S, I)


def _npos():
    return z3.Function("c11_name_position", S, I)


def _entry(run, fr):
    """definitional witness functions: first position of a keyword key in P; position of a parameter name"""
    Pm = fr.vars["params"].t
    f = fr.vars["fn"].t
    names, pc, kc, va, vk = sig(f)
    kpos, npos = _kpos(), _npos()
    j = z3.FreshConst(I, "j")
    kj = OS.get(key_of(Pm, j))
    for ax in (
        z3.ForAll([j], z3.Implies(z3.And(0 <= j, j < z3.Length(Pm), z3.Not(is_pos(Pm, j))),
                                  z3.And(0 <= kpos(kj), kpos(kj) <= j, key_of(Pm, kpos(kj)) == key_of(Pm, j)))),
        # parameter names are distinct (wf_sig), so their position is a function
        z3.ForAll([j], z3.Implies(z3.And(0 <= j, j < z3.Length(names)), npos(names[j]) == j)),
    ):
        run.pc.append(ax)


# ------------------------------------------------------------------------------------------------ loop 1
def _L1(c):
    Pm = c["params"].t
    i = c["_i0"].t
    npi = c["next_positional_index"].t
    names, pc, kc, va, vk = sig(c["fn"].t)
    used, vkw, vargs = c["used_param_names"].t, c["validated_kwargs"].t, c["validated_args"].t
    j, j2 = z3.Const("bv_j", I), z3.Const("bv_j2", I)
    s = z3.Const("bv_s", S)
    filled = z3.If(npi < pc, npi, pc)        # parameters filled positionally
    kpos, npos = _kpos(), _npos()
    return z3.And(
        0 <= npi, npi <= i, c["positional_count"].t == pc, c["param_names"].t == names, c["kwonly_count"].t == kc,
        c["has_var_positional"].t == va, c["has_var_keyword"].t == vk, z3.Length(names) == pc + kc,
        c["seen_kwargs"].t == (npi < i),
        # P[0..i) is npi positionals followed by keywords
        z3.ForAll([j], z3.Implies(z3.And(0 <= j, j < i), is_pos(Pm, j) == (j < npi))),
        z3.Or(va, npi <= pc),
        z3.Length(vargs) == npi, z3.ForAll([j], z3.Implies(z3.And(0 <= j, j < npi), vargs[j] == val_of(Pm, j))),
        # used = names filled positionally + keyword keys seen
        z3.ForAll([j], z3.Implies(z3.And(0 <= j, j < filled), z3.Select(USED.has(used), names[j]))),
        z3.ForAll([j], z3.Implies(z3.And(npi <= j, j < i), z3.And(z3.Select(USED.has(used), OS.get(key_of(Pm, j))), kpos(OS.get(key_of(Pm, j))) == j))),
        z3.ForAll([s], z3.Implies(z3.Select(USED.has(used), s), z3.Or(
            z3.And(0 <= npos(s), npos(s) < filled, names[npos(s)] == s),
            z3.And(npi <= kpos(s), kpos(s) < i, key_of(Pm, kpos(s)) == OS.some(s))))),
        # validated_kwargs = exactly the keyword arguments seen
        z3.ForAll([j], z3.Implies(z3.And(npi <= j, j < i), z3.And(z3.Select(KW.has(vkw), OS.get(key_of(Pm, j))), z3.Select(KW.val(vkw), OS.get(key_of(Pm, j))) == val_of(Pm, j)))),
        z3.ForAll([s], z3.Implies(z3.Select(KW.has(vkw), s), z3.And(npi <= kpos(s), kpos(s) < i, key_of(Pm, kpos(s)) == OS.some(s)))),
        # each keyword names a parameter that is not already filled, or goes to **kwargs
        z3.ForAll([j], z3.Implies(z3.And(npi <= j, j < i), z3.Or(z3.Contains(names, z3.Unit(OS.get(key_of(Pm, j)))), vk))),
        z3.ForAll([j, j2], z3.Implies(z3.And(npi <= j, j < i, 0 <= j2, j2 < filled), names[j2] != OS.get(key_of(Pm, j)))),
    )


# ------------------------------------------------------------------------------------------------ acceptance
def Acc_prefix(c, Pm, n, m):
    """the part of Acc that loop 1 decides, for the first n params with m leading positionals"""
    names, pc, kc, va, vk = sig(c["fn"].t)
    j, j2 = z3.Const("bv_j", I), z3.Const("bv_j2", I)
    filled = z3.If(m < pc, m, pc)
    return z3.And(
        z3.ForAll([j], z3.Implies(z3.And(0 <= j, j < n), is_pos(Pm, j) == (j < m))),
        z3.Or(va, m <= pc),
        z3.ForAll([j, j2], z3.Implies(z3.And(m <= j, j < j2, j2 < n), key_of(Pm, j) != key_of(Pm, j2))),
        z3.ForAll([j, j2], z3.Implies(z3.And(m <= j, j < n, 0 <= j2, j2 < filled), names[j2] != OS.get(key_of(Pm, j)))),
        z3.ForAll([j], z3.Implies(z3.And(m <= j, j < n), z3.Or(z3.Contains(names, z3.Unit(OS.get(key_of(Pm, j)))), vk))))


def _post_args(c):
    """a == the positional values in order; k holds every keyword argument with its value"""
    Pm = c["params"].t
    res = c["result"].t
    a, k = RES.proj(res, 0), RES.proj(res, 1)
    j = z3.Const("bv_j", I)
    m = z3.Length(a)
    n = z3.Length(Pm)
    return z3.And(
        m <= n,
        z3.ForAll([j], z3.Implies(z3.And(0 <= j, j < n), is_pos(Pm, j) == (j < m))),
        z3.ForAll([j], z3.Implies(z3.And(0 <= j, j < m), a[j] == val_of(Pm, j))),
        z3.ForAll([j], z3.Implies(z3.And(m <= j, j < n), z3.Or(
            z3.And(z3.Select(KW.has(k), OS.get(key_of(Pm, j))), z3.Select(KW.val(k), OS.get(key_of(Pm, j))) == val_of(Pm, j)),
            # (an internal extra kwarg of the same name overrides - extras are supplied by the node itself)
            z3.And(z3.Not(TOpt(KW).is_none(c["extra_kwargs"].t)), z3.Select(KW.has(TOpt(KW).get(c["extra_kwargs"].t)), OS.get(key_of(Pm, j))))))))


def _post_accepts(c):
    Pm = c["params"].t
    res = c["result"].t
    return Acc_prefix(c, Pm, z3.Length(Pm), z3.Length(RES.proj(res, 0)))


REG.contract(
    f"{MOD}:_validate_params_with_code", prop=P, types={"fn": FN, "params": PARAMS, "extra_kwargs": Opt(KW)}, result=RES, entry=_entry,
    locals={"used_param_names": USED, "validated_args": VALS, "validated_kwargs": KW, "kwdefaults": KW, "param_names": NAMES},
    requires=[_wf_sig],
    modifies=[], raises={"TypeError": None},
    loops={0: Loop(inv=[_L1], variant="len(params) - _i0"),
           1: Loop(inv=[lambda c: _L2(c)], variant="len(_seq1) - _i1")},
    ensures={
        "given_arguments_are_passed_unchanged": _post_args,
        "returns_only_for_well_formed_accepted_prefix": _post_accepts,
    },
)


def _L2(c):
    """second loop: what loop 1 established still holds for the arguments; kwargs only gains defaults of omitted params"""
    Pm = c["params"].t
    vargs, vkw = c["validated_args"].t, c["validated_kwargs"].t
    npi = c["next_positional_index"].t
    names, pc, kc, va, vk = sig(c["fn"].t)
    j = z3.Const("bv_j", I)
    n = z3.Length(Pm)
    return z3.And(
        c["positional_count"].t == pc, c["param_names"].t == names, z3.Length(names) == pc + kc, c["kwonly_count"].t == kc,
        z3.Length(vargs) == npi, npi <= n,
        z3.ForAll([j], z3.Implies(z3.And(0 <= j, j < n), is_pos(Pm, j) == (j < npi))),
        z3.ForAll([j], z3.Implies(z3.And(0 <= j, j < npi), vargs[j] == val_of(Pm, j))),
        z3.ForAll([j], z3.Implies(z3.And(npi <= j, j < n), z3.Or(
            z3.And(z3.Select(KW.has(vkw), OS.get(key_of(Pm, j))), z3.Select(KW.val(vkw), OS.get(key_of(Pm, j))) == val_of(Pm, j)),
            z3.And(z3.Not(TOpt(KW).is_none(c["extra_kwargs"].t)), z3.Select(KW.has(TOpt(KW).get(c["extra_kwargs"].t)), OS.get(key_of(Pm, j))))))),
        Acc_prefix(c, Pm, n, npi),
    )


ASSUMES = ["A-PY", "A-INST"]
NOT_COVERED = [
    "positional-only parameters: Acc is CPython's binding rule for signatures without them; see known findings F-C11a / F-C11c",
    "_validate_params_with_signature (fallback path), validate_params' dispatch and NodeMeta.wrapper_render's non-identifier split are not yet under contract; agreement of the two paths is therefore not decided",
    "that Acc equals CPython's acceptance is the definition used here (closed form of the documented binding algorithm), cross-checked by the thorough-tier differential only",
]
