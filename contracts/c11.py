"""C11 - a tag accepts its arguments exactly when the equivalent Python call would.

_validate_params_with_code is proved against a CLOSED-FORM acceptance predicate Acc (bounded quantifiers over parameter
indices) that is CPython's argument-binding rule for signatures WITHOUT positional-only parameters:
    returns (a, k)  =>  Acc(sig, P)  and  a, k are exactly the given arguments plus the defaults of the omitted parameters
    raises TypeError =>  not Acc(sig, P)
Positional-only parameters are outside Acc: the two recorded known findings (F-C11a, F-C11c) live exactly there.
"""
import z3

from pyvc import ops
from pyvc.contracts import REG, Any_, Bool, Dict, Int, Loop, Obj, Opt, Ref, Seq, Set, Str, Tup
from pyvc.interp import EngineError
from pyvc.types import NONE, Conc, TAny, TBool, TInt, TOpt, TSeq, TSet, TStr, Val, VTuple, mk_int

P = "C11"
MOD = "django_components.util.template_tag"
S, I, B = z3.StringSort(), z3.IntSort(), z3.BoolSort()
OS = TOpt(TStr)
PV = TAny.sort()
FN = Obj("Function")
PARAM = Tup(OS, TAny, tag="TagParam", fields=["key", "value"])
PARAMS = Seq(PARAM)
NAMES = Seq(Str)
VALS = Seq(Any_)
KW = Dict(Str, Any_)
USED = Set(Str)
RES = Tup(VALS, KW, tag="ArgsKwargs", fields=["args", "kwargs"])
REG.record("TagParam", PARAM)

# ---- the function object's introspection data (A-PY: __code__ / __defaults__ / __kwdefaults__)
f_varnames = lambda f: ops.uf("co_varnames", FN.sort(), NAMES.sort())(f)
f_argcount = lambda f: ops.uf("co_argcount", FN.sort(), I)(f)
f_kwonly = lambda f: ops.uf("co_kwonlyargcount", FN.sort(), I)(f)
f_flags = lambda f: ops.uf("co_flags", FN.sort(), I)(f)
f_defaults = lambda f: ops.uf("fn_defaults", FN.sort(), TOpt(VALS).sort())(f)
f_kwdefaults = lambda f: ops.uf("fn_kwdefaults", FN.sort(), TOpt(KW).sort())(f)
f_posonly = lambda f: ops.uf("co_posonlyargcount", FN.sort(), I)(f)
bitand = lambda a, b: ops.uf("int_bitand", I, I, I)(a, b)

REG.stub(("getattr", "Function", "__code__"), lambda run, obj, node: Conc(("obj_kind", "code", obj)))
REG.stub(("getattr", "Function", "__defaults__"), lambda run, obj, node: Val(TOpt(VALS), f_defaults(obj.t)))
def _kwdefaults(run, obj, node):
    v = Val(TOpt(KW), f_kwdefaults(obj.t))
    run.wf(v)          # a dict: size >= 0, a member implies size >= 1
    return v


REG.stub(("getattr", "Function", "__kwdefaults__"), _kwdefaults)
REG.stub(("getattr", "conc:obj_kind:code", "co_varnames"), lambda run, obj, node: Val(NAMES, f_varnames(obj.obj[2].t)))
REG.stub(("getattr", "conc:obj_kind:code", "co_argcount"), lambda run, obj, node: Val(TInt, f_argcount(obj.obj[2].t)))
REG.stub(("getattr", "conc:obj_kind:code", "co_kwonlyargcount"), lambda run, obj, node: Val(TInt, f_kwonly(obj.obj[2].t)))
REG.stub(("getattr", "conc:obj_kind:code", "co_posonlyargcount"), lambda run, obj, node: Val(TInt, f_posonly(obj.obj[2].t)))
REG.stub(("getattr", "conc:obj_kind:code", "co_flags"), lambda run, obj, node: Val(TInt, f_flags(obj.obj[2].t)))


def _first_key(run, args, kwargs, node):
    """next(iter(d)): some key of the (non-empty) dict"""
    it = args[0]
    d = it.obj[1]
    k = z3.FreshConst(S, "first_key")
    run.assume(z3.Select(KW.has(d.t), k))
    return Val(TStr, k)


REG.stub(("builtin", "iter"), lambda run, args, kwargs, node: Conc(("iterof", ops.unopt(run, args[0], node))))
REG.stub(("builtin", "next"), _first_key)


# ------------------------------------------------------------------------------------------------ the signature view
def sig_names(f):
    """parameter names after (self, context): co_varnames[:argcount+kwonly][2:] (linked to the code's slices once, in _entry)"""
    return ops.uf("sig_param_names", FN.sort(), NAMES.sort())(f)


def _names_def(f):
    inner = z3.Extract(f_varnames(f), 0, f_argcount(f) + f_kwonly(f))
    return z3.Extract(inner, 2, z3.Length(inner) - 2)


def sig(c_or_f):
    f = c_or_f
    names = _names_def(f)
    pc = z3.If(f_argcount(f) - 2 >= 0, f_argcount(f) - 2, 0)
    kc = f_kwonly(f)
    va = bitand(f_flags(f), 4) != 0
    vk = bitand(f_flags(f), 8) != 0
    return names, pc, kc, va, vk


def key_of(Pm, j):
    return PARAM.proj(Pm[j], 0)


def val_of(Pm, j):
    return PARAM.proj(Pm[j], 1)


def is_pos(Pm, j):
    return OS.is_none(key_of(Pm, j))


def _wf_sig(c):
    """what CPython guarantees about a function object: render(self, context, ...) has >= 2 positional parameters, parameter
    names are distinct, defaults fit, kwdefaults only name keyword-only parameters"""
    f = c["fn"].t
    vn = f_varnames(f)
    ac, kc = f_argcount(f), f_kwonly(f)
    a, b = z3.Const("bv_a", I), z3.Const("bv_b", I)
    d = f_defaults(f)
    nd = z3.If(TOpt(VALS).is_none(d), 0, z3.Length(TOpt(VALS).get(d)))
    return z3.And(ac >= 2, kc >= 0, z3.Length(vn) >= ac + kc, nd <= ac - 2,
                  z3.ForAll([a, b], z3.Implies(z3.And(0 <= a, a < b, b < ac + kc), vn[a] != vn[b])))


def _M():
    return z3.Int("c11_leading_positionals")


def npo_of(f):
    """positional-only parameters after (self, context)"""
    return z3.If(f_posonly(f) - 2 >= 0, f_posonly(f) - 2, 0)


def Acc_full(c, old=True):
    return z3.And(*Acc_conjuncts(c, old))


# which conjunct of Acc a given TypeError message claims to violate (a HINT for the prover: obliging the negation of
# one conjunct is stronger than obliging not-Acc)
_SITE_HINT = [("positional argument follows keyword", 0), ("takes ", 1), ("got multiple values", (2, 3)), ("got an unexpected keyword", (4, 5)), ("missing a required", (6, 7))]


def _not_acc(c):
    conj = Acc_conjuncts(c)
    exc = c["raised"].obj
    msg = exc.args[0].t if exc.args else None
    if msg is not None:
        parts = z3.simplify(msg)
        txt = None
        if z3.is_string_value(parts):
            txt = parts.as_string()
        elif z3.is_app(parts) and parts.decl().kind() == z3.Z3_OP_SEQ_CONCAT and z3.is_string_value(parts.arg(0)):
            txt = parts.arg(0).as_string()
        if txt is not None:
            for prefix, k in _SITE_HINT:
                if txt.startswith(prefix):
                    ks = k if isinstance(k, tuple) else (k,)
                    if prefix.startswith("missing") and "loc_i" in c.fr.vars and "loc_param_name" in c.fr.vars:
                        # explicit witness j2 = i for the violated conjunct (6: positional parameter, 7: keyword-only parameter)
                        return _missing_witness(c, c["loc_i"].t, c["loc_param_name"].t)
                    return z3.Or(*[z3.Not(conj[q]) for q in ks])
    return z3.Not(z3.And(*conj))


def _missing_witness(c, i, s_):
    f, Pm, ex = c.old("fn").t, c.old("params").t, c.old("extra_kwargs").t
    names, pc, kc, va, vk = sig(f)
    npo = npo_of(f)
    n, M, kpos = z3.Length(Pm), _M(), _kpos()
    d = f_defaults(f)
    nd = z3.If(TOpt(VALS).is_none(d), 0, z3.Length(TOpt(VALS).get(d)))
    kd = f_kwdefaults(f)
    in_kd = z3.And(z3.Not(TOpt(KW).is_none(kd)), z3.Select(KW.has(TOpt(KW).get(kd)), s_))
    in_extra = z3.And(z3.Not(TOpt(KW).is_none(ex)), z3.Select(KW.has(TOpt(KW).get(ex)), s_))
    given = z3.And(M <= kpos(s_), kpos(s_) < n, key_of(Pm, kpos(s_)) == OS.some(s_))
    w_pos = [0 <= i, i < pc - nd, i >= M, z3.Not(z3.And(i >= npo, given)), z3.Not(z3.And(i >= npo, in_extra)), names[i] == s_]
    w_kwo = [i < pc + kc, z3.Not(in_kd), z3.Not(given), z3.Not(in_extra), names[i] == s_]
    # one small goal per conjunct (the path condition decides which case applies)
    return z3.And(*([z3.Implies(i < pc, w) for w in w_pos] + [z3.Implies(i >= pc, w) for w in w_kwo]))


def Acc_conjuncts(c, old=True):
    """CPython's binding rule in closed form (positional-only parameters included)"""
    f = (c.old("fn") if old else c["fn"]).t
    Pm = (c.old("params") if old else c["params"]).t
    ex = (c.old("extra_kwargs") if old else c["extra_kwargs"]).t
    names, pc, kc, va, vk = sig(f)
    npo = npo_of(f)
    n = z3.Length(Pm)
    M = _M()
    kpos = _kpos()
    j, j2 = z3.Const("bv_j", I), z3.Const("bv_j2", I)
    filled = z3.If(M < pc, M, pc)
    d = f_defaults(f)
    nd = z3.If(TOpt(VALS).is_none(d), 0, z3.Length(TOpt(VALS).get(d)))
    kd = f_kwdefaults(f)
    in_kd = lambda s_: z3.And(z3.Not(TOpt(KW).is_none(kd)), z3.Select(KW.has(TOpt(KW).get(kd)), s_))
    in_extra = lambda s_: z3.And(z3.Not(TOpt(KW).is_none(ex)), z3.Select(KW.has(TOpt(KW).get(ex)), s_))
    extra_nonempty = z3.And(z3.Not(TOpt(KW).is_none(ex)), KW.size(TOpt(KW).get(ex)) > 0)
    given_kw = lambda s_: z3.And(M <= kpos(s_), kpos(s_) < n, key_of(Pm, kpos(s_)) == OS.some(s_))
    return [
        z3.ForAll([j], z3.Implies(z3.And(M <= j, j < n), z3.Not(is_pos(Pm, j)))),                                  # no positional after a keyword
        z3.Or(va, M <= pc),
        # keyword names distinct  <=>  every keyword position is the FIRST occurrence of its key (kpos is definitional)
        z3.ForAll([j], z3.Implies(z3.And(M <= j, j < n), kpos(OS.get(key_of(Pm, j))) == j)),
        # a keyword does not name a parameter that is already filled positionally (npos is definitional) - unless that
        # parameter is positional-only and there is **kwargs
        z3.ForAll([j], z3.Implies(z3.And(M <= j, j < n, 0 <= _npos()(OS.get(key_of(Pm, j))), _npos()(OS.get(key_of(Pm, j))) < filled,
                                         names[_npos()(OS.get(key_of(Pm, j)))] == OS.get(key_of(Pm, j))),
                                  z3.And(_npos()(OS.get(key_of(Pm, j))) < npo, vk))),
        z3.ForAll([j], z3.Implies(z3.And(M <= j, j < n), z3.Or(vk, z3.And(npo <= _npos()(OS.get(key_of(Pm, j))), _npos()(OS.get(key_of(Pm, j))) < pc + kc,
                                                                          names[_npos()(OS.get(key_of(Pm, j)))] == OS.get(key_of(Pm, j)))))),
        z3.Implies(extra_nonempty, vk),
        z3.ForAll([j2], z3.Implies(z3.And(0 <= j2, j2 < pc), z3.Or(j2 >= pc - nd, j2 < M, z3.And(j2 >= npo, z3.Or(given_kw(names[j2]), in_extra(names[j2])))))),
        z3.ForAll([j2], z3.Implies(z3.And(pc <= j2, j2 < pc + kc), z3.Or(in_kd(names[j2]), given_kw(names[j2]), in_extra(names[j2])))),
    ]


def _kpos():
    return z3.Function("c11_first_kw_position", S, I)


def _npos():
    return z3.Function("c11_name_position", S, I)


def _entry(run, fr):
    """definitional witness functions: first position of a keyword key in P; position of a parameter name"""
    Pm = fr.vars["params"].t
    f = fr.vars["fn"].t
    names, pc, kc, va, vk = sig(f)
    kpos, npos = _kpos(), _npos()
    j = z3.FreshConst(I, "j")
    kj = OS.get(key_of(Pm, j))
    M = _M()
    for ax in (
        # M = number of leading positional arguments (definitional: it exists and is unique)
        z3.And(0 <= M, M <= z3.Length(Pm), z3.ForAll([j], z3.Implies(z3.And(0 <= j, j < M), is_pos(Pm, j))), z3.Or(M == z3.Length(Pm), z3.Not(is_pos(Pm, M)))),
        z3.ForAll([j], z3.Implies(z3.And(0 <= j, j < z3.Length(Pm), z3.Not(is_pos(Pm, j))),
                                  z3.And(0 <= kpos(kj), kpos(kj) <= j, key_of(Pm, kpos(kj)) == key_of(Pm, j)))),
        # parameter names are distinct (wf_sig), so their position is a function
        z3.ForAll([j], z3.Implies(z3.And(0 <= j, j < z3.Length(names)), npos(names[j]) == j)),
        # membership in the name list, through the position function
        z3.ForAll([z3.Const("bv_sx", S)], z3.Contains(names, z3.Unit(z3.Const("bv_sx", S))) ==
                  z3.And(0 <= npos(z3.Const("bv_sx", S)), npos(z3.Const("bv_sx", S)) < z3.Length(names), names[npos(z3.Const("bv_sx", S))] == z3.Const("bv_sx", S)),
                  patterns=[npos(z3.Const("bv_sx", S))]),
    ):
        run.pc.append(ax)


# ------------------------------------------------------------------------------------------------ loop 1
def _L1(c):
    Pm = c["params"].t
    i = c["_i0"].t
    npi = c["next_positional_index"].t
    names, pc, kc, va, vk = sig(c["fn"].t)
    used, vkw, vargs = c["used_param_names"].t, c["validated_kwargs"].t, c["validated_args"].t
    j, j2 = z3.Const("bv_j", I), z3.Const("bv_j2", I)
    s = z3.Const("bv_s", S)
    filled = z3.If(npi < pc, npi, pc)        # parameters filled positionally
    kpos, npos = _kpos(), _npos()
    return z3.And(
        0 <= npi, npi <= i, c["positional_count"].t == pc, c["param_names"].t == names, c["kwonly_count"].t == kc,
        c["has_var_positional"].t == va, c["has_var_keyword"].t == vk, z3.Length(names) == pc + kc,
        c["seen_kwargs"].t == (npi < i), z3.If(npi < i, _M() == npi, _M() >= i),
        # P[0..i) is npi positionals followed by keywords
        z3.ForAll([j], z3.Implies(z3.And(0 <= j, j < i), is_pos(Pm, j) == (j < npi))),
        z3.Or(va, npi <= pc),
        z3.Length(vargs) == npi, z3.ForAll([j], z3.Implies(z3.And(0 <= j, j < npi), vargs[j] == val_of(Pm, j))),
        # used = names filled positionally + keyword keys seen
        z3.ForAll([j], z3.Implies(z3.And(0 <= j, j < filled), z3.Select(USED.has(used), names[j]))),
        z3.ForAll([j], z3.Implies(z3.And(npi <= j, j < i), z3.And(z3.Select(USED.has(used), OS.get(key_of(Pm, j))), kpos(OS.get(key_of(Pm, j))) == j))),
        z3.ForAll([s], z3.Implies(z3.Select(USED.has(used), s), z3.Or(
            z3.And(0 <= npos(s), npos(s) < filled, names[npos(s)] == s),
            z3.And(npi <= kpos(s), kpos(s) < i, key_of(Pm, kpos(s)) == OS.some(s))))),
        # validated_kwargs = exactly the keyword arguments seen
        z3.ForAll([j], z3.Implies(z3.And(npi <= j, j < i), z3.And(z3.Select(KW.has(vkw), OS.get(key_of(Pm, j))), z3.Select(KW.val(vkw), OS.get(key_of(Pm, j))) == val_of(Pm, j)))),
        z3.ForAll([s], z3.Implies(z3.Select(KW.has(vkw), s), z3.And(npi <= kpos(s), kpos(s) < i, key_of(Pm, kpos(s)) == OS.some(s)))),
        # each keyword names a parameter that is not already filled, or goes to **kwargs
        z3.ForAll([j], z3.Implies(z3.And(npi <= j, j < i), z3.Or(z3.Contains(names, z3.Unit(OS.get(key_of(Pm, j)))), vk))),
        z3.ForAll([j], z3.Implies(z3.And(npi <= j, j < i), z3.Not(z3.And(0 <= npos(OS.get(key_of(Pm, j))), npos(OS.get(key_of(Pm, j))) < filled,
                                                                          names[npos(OS.get(key_of(Pm, j)))] == OS.get(key_of(Pm, j)))))),
    )


# ------------------------------------------------------------------------------------------------ acceptance
def Acc_prefix(c, Pm, n, m):
    """the part of Acc that loop 1 decides, for the first n params with m leading positionals"""
    names, pc, kc, va, vk = sig(c["fn"].t)
    j, j2 = z3.Const("bv_j", I), z3.Const("bv_j2", I)
    filled = z3.If(m < pc, m, pc)
    return z3.And(
        z3.ForAll([j], z3.Implies(z3.And(0 <= j, j < n), is_pos(Pm, j) == (j < m))),
        z3.Or(va, m <= pc),
        z3.ForAll([j], z3.Implies(z3.And(m <= j, j < n), _kpos()(OS.get(key_of(Pm, j))) == j)),
        z3.ForAll([j], z3.Implies(z3.And(m <= j, j < n), z3.Not(z3.And(0 <= _npos()(OS.get(key_of(Pm, j))), _npos()(OS.get(key_of(Pm, j))) < filled,
                                                                         names[_npos()(OS.get(key_of(Pm, j)))] == OS.get(key_of(Pm, j)))))),
        z3.ForAll([j], z3.Implies(z3.And(m <= j, j < n), z3.Or(z3.Contains(names, z3.Unit(OS.get(key_of(Pm, j)))), vk))))


def _post_args(c):
    """a == the positional values in order; k holds every keyword argument with its value"""
    Pm = c["params"].t
    res = c["result"].t
    a, k = RES.proj(res, 0), RES.proj(res, 1)
    j = z3.Const("bv_j", I)
    m = z3.Length(a)
    n = z3.Length(Pm)
    return z3.And(
        m <= n,
        z3.ForAll([j], z3.Implies(z3.And(0 <= j, j < n), is_pos(Pm, j) == (j < m))),
        z3.ForAll([j], z3.Implies(z3.And(0 <= j, j < m), a[j] == val_of(Pm, j))),
        z3.ForAll([j], z3.Implies(z3.And(m <= j, j < n), z3.Or(
            z3.And(z3.Select(KW.has(k), OS.get(key_of(Pm, j))), z3.Select(KW.val(k), OS.get(key_of(Pm, j))) == val_of(Pm, j)),
            # (an internal extra kwarg of the same name overrides - extras are supplied by the node itself)
            z3.And(z3.Not(TOpt(KW).is_none(c["extra_kwargs"].t)), z3.Select(KW.has(TOpt(KW).get(c["extra_kwargs"].t)), OS.get(key_of(Pm, j))))))))


def _post_accepts(c):
    Pm = c["params"].t
    res = c["result"].t
    return Acc_prefix(c, Pm, z3.Length(Pm), z3.Length(RES.proj(res, 0)))


REG.contract(
    f"{MOD}:_validate_params_with_code", prop=P, types={"fn": FN, "params": PARAMS, "extra_kwargs": Opt(KW)}, result=RES, entry=_entry, parallel=True,
    locals={"used_param_names": USED, "validated_args": VALS, "validated_kwargs": KW, "kwdefaults": KW, "param_names": NAMES},
    requires=[_wf_sig],
    modifies=[], raises={"TypeError": None},
    findings={"xpost#TypeError#raised_only_when_the_python_call_would_fail": lambda c: npo_of(c.old("fn").t) > 0,
              "post#defaults_are_never_passed_for_positional_only_parameters": lambda c: npo_of(c.old("fn").t) > 0},
    xensures={"TypeError": {"raised_only_when_the_python_call_would_fail": _not_acc}},
    loops={0: Loop(inv=[_L1], variant="len(params) - _i0"),
           1: Loop(inv=[lambda c: _L2(c)], variant="len(_seq1) - _i1")},
    ensures={
        "given_arguments_are_passed_unchanged": _post_args,
        "returns_only_for_well_formed_accepted_prefix": _post_accepts,
        "defaults_are_never_passed_for_positional_only_parameters": lambda c: _post_defaults_not_posonly(c),
    },
)


def _L2(c):
    """second loop: what loop 1 established still holds for the arguments; kwargs only gains defaults of omitted params"""
    Pm = c["params"].t
    vargs, vkw = c["validated_args"].t, c["validated_kwargs"].t
    npi = c["next_positional_index"].t
    names, pc, kc, va, vk = sig(c["fn"].t)
    j = z3.Const("bv_j", I)
    n = z3.Length(Pm)
    return z3.And(
        c["positional_count"].t == pc, c["param_names"].t == names, z3.Length(names) == pc + kc, c["kwonly_count"].t == kc,
        z3.Length(vargs) == npi, npi <= n,
        z3.ForAll([j], z3.Implies(z3.And(0 <= j, j < n), is_pos(Pm, j) == (j < npi))),
        z3.ForAll([j], z3.Implies(z3.And(0 <= j, j < npi), vargs[j] == val_of(Pm, j))),
        z3.ForAll([j], z3.Implies(z3.And(npi <= j, j < n), z3.Or(
            z3.And(z3.Select(KW.has(vkw), OS.get(key_of(Pm, j))), z3.Select(KW.val(vkw), OS.get(key_of(Pm, j))) == val_of(Pm, j)),
            z3.And(z3.Not(TOpt(KW).is_none(c["extra_kwargs"].t)), z3.Select(KW.has(TOpt(KW).get(c["extra_kwargs"].t)), OS.get(key_of(Pm, j))))))),
        Acc_prefix(c, Pm, n, npi), _M() == npi,
        # what "used" / validated_kwargs mean for the missing-argument checks
        z3.ForAll([j], z3.Implies(z3.And(0 <= j, j < z3.If(npi < pc, npi, pc)), z3.Select(USED.has(c["used_param_names"].t), names[j]))),
        z3.ForAll([j], z3.Implies(z3.And(npi <= j, j < n), z3.Select(USED.has(c["used_param_names"].t), OS.get(key_of(Pm, j))))),
        z3.Implies(z3.Not(TOpt(KW).is_none(c["extra_kwargs"].t)), z3.ForAll([z3.Const("bv_s", S)], z3.Implies(
            z3.Select(KW.has(TOpt(KW).get(c["extra_kwargs"].t)), z3.Const("bv_s", S)), z3.Select(KW.has(vkw), z3.Const("bv_s", S))))),
        c["required_positional"].t == pc - z3.If(TOpt(VALS).is_none(f_defaults(c["fn"].t)), 0, z3.Length(TOpt(VALS).get(f_defaults(c["fn"].t)))),
        _kwargs_origin(c, vkw, c["_i1"].t),
    )


def _kwargs_origin(c, vkw, upto):
    """every entry of the kwargs handed to render() is a given keyword, an extra kwarg, or the default of an omitted
    parameter among the first `upto` parameters"""
    f, Pm, ex = c["fn"].t, c["params"].t, c["extra_kwargs"].t
    names, pc, kc, va, vk = sig(f)
    s_ = z3.Const("bv_s", S)
    npos, kpos, M = _npos(), _kpos(), _M()
    given = z3.And(M <= kpos(s_), kpos(s_) < z3.Length(Pm), key_of(Pm, kpos(s_)) == OS.some(s_))
    in_extra = z3.And(z3.Not(TOpt(KW).is_none(ex)), z3.Select(KW.has(TOpt(KW).get(ex)), s_))
    return z3.ForAll([s_], z3.Implies(z3.Select(KW.has(vkw), s_), z3.Or(given, in_extra, z3.And(0 <= npos(s_), npos(s_) < upto, names[npos(s_)] == s_))))


def _post_defaults_not_posonly(c):
    """from the property ('binds the same values to the same parameters, defaults included'): a default that the validator
    passes explicitly by keyword must belong to a parameter that CAN be passed by keyword"""
    f, Pm, ex = c["fn"].t, c["params"].t, c["extra_kwargs"].t
    k = RES.proj(c["result"].t, 1)
    s_ = z3.Const("bv_s", S)
    npos, kpos, M = _npos(), _kpos(), _M()
    given = z3.And(M <= kpos(s_), kpos(s_) < z3.Length(Pm), key_of(Pm, kpos(s_)) == OS.some(s_))
    in_extra = z3.And(z3.Not(TOpt(KW).is_none(ex)), z3.Select(KW.has(TOpt(KW).get(ex)), s_))
    return z3.ForAll([s_], z3.Implies(z3.And(z3.Select(KW.has(k), s_), z3.Not(given), z3.Not(in_extra)), npos(s_) >= npo_of(f)))


ASSUMES = ["A-PY", "A-INST"]
NOT_COVERED = [
    "positional-only parameters: Acc is CPython's binding rule for signatures without them; see known findings F-C11a / F-C11c",
    "_validate_params_with_signature (fallback path), and validate_params' dispatch are not under contract (NodeMeta.wrapper_render is: contracts/c11b.py); the fallback validator and its agreement with the proved one are covered only by the BOUNDED stand-in bounded#both_validators_agree_with_the_python_call (stated grammar, never counted as proved)",
    "that Acc equals CPython's acceptance is the definition used here (closed form of the documented binding algorithm), cross-checked by the thorough-tier differential only",
]


def _tag_call(sig_src, tag_args):
    """define a node with the given render signature and render `{% probe <tag_args> %}`; returns ('ok', bound) or ('TypeError', msg)"""
    from django.conf import settings
    if not settings.configured:
        from tests.django_test_setup import setup_test_config
        setup_test_config({"autodiscover": False})
    from django.template import Context, Library, Template
    from django_components.node import BaseNode
    ns = {}
    exec(f"def render(self, context, {sig_src}):\n    return repr(sorted(locals().items(), key=lambda kv: kv[0])[:-2] if False else {{k: v for k, v in locals().items() if k not in ('self', 'context')}})", ns)
    lib = Library()

    class Probe(BaseNode):
        tag = "c11probe"
        end_tag = None
        allowed_flags = []
        render = ns["render"]
    Probe.register(lib)
    from django.template import engines
    eng = engines["django"].engine if "django" in engines else None
    from django.template.base import Parser
    try:
        t = Template("{% load component_tags %}{% c11probe " + tag_args + " %}", engine=None)
    except Exception:
        pass
    import django.template.base as b
    from django.template import Engine
    e = Engine.get_default()
    e.template_libraries = dict(e.template_libraries, c11lib=lib)
    try:
        return "ok", e.from_string("{% load c11lib %}{% c11probe " + tag_args + " %}").render(Context({}))
    except TypeError as ex:
        return "TypeError", str(ex)


def _f11c(w):
    r = _tag_call("a, /, **kw", "1 a=2")
    return r[0] == "TypeError"


def _f11a(w):
    r = _tag_call("a=5, /, b=6", "")
    return r[0] == "TypeError"


FINDING_REPLAYS = {"F-C11c": _f11c, "F-C11a": _f11a}


def _bounded_validators(tier, repo):
    from harness.bounded_validators import run
    return run(repo, 4 if tier == "thorough" else 3)


REG.bounded_check("bounded#both_validators_agree_with_the_python_call", P, _bounded_validators,
                  note="BOTH validators (the proved _validate_params_with_code and the fallback _validate_params_with_signature, which is not under contract) against CPython's own binding of the call, exhaustively over a stated grammar of signatures and tag argument lists")

import contracts.c11b  # noqa: E402,F401  (NodeMeta.wrapper_render)
