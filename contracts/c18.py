"""C18 - template caching is transparent and behaves as a bounded LRU.

Ghost state of one LRUCache `self`:  O[0..n) = head sentinel, nodes MRU -> LRU, tail sentinel (array of refs),
idx = inverse of O.  LInv = ListInv (links, sentinels, inverse) + DictInv (dict <-> interior nodes) + Bound.
"""
import z3

from pyvc.contracts import REG, Dict, Int, Loop, Obj, Opt, Ref, Str
from pyvc.types import TInt, TOpt, Val

P = "C18"
MOD = "django_components.util.cache"
KEY, VALT = Obj("Key"), Obj("T")
NODE, LRU = "CacheNode", "LRUCache"
DICT = Dict(KEY, Ref(NODE))
OI = TOpt(TInt)

REG.heap_class(NODE, {"key": KEY, "value": VALT, "prev": Ref(NODE), "next": Ref(NODE)}, module=MOD)
REG.heap_class(LRU, {"maxsize": Opt(Int), "cache": DICT, "head": Ref(NODE), "tail": Ref(NODE)}, module=MOD)
REG.inline(f"{MOD}:CacheNode.__init__")

I = z3.IntSort()


def F(ctx, cls, name, old=False):
    return ctx.field(cls, name, old)


def fresh_ghost(tag="g"):
    return (z3.FreshConst(z3.ArraySort(I, I), f"O_{tag}"), z3.FreshConst(I, f"n_{tag}"), z3.FreshConst(z3.ArraySort(I, I), f"idx_{tag}"))


def list_inv(ctx, s, g, nr, old=False):
    O, n, idx = g
    nxt, prv = F(ctx, NODE, "next", old), F(ctx, NODE, "prev", old)
    head, tail = z3.Select(F(ctx, LRU, "head", old), s), z3.Select(F(ctx, LRU, "tail", old), s)
    i = z3.FreshConst(I, "i")
    return z3.And(
        n >= 2, z3.Select(O, 0) == head, z3.Select(O, n - 1) == tail,
        z3.ForAll([i], z3.Implies(z3.And(0 <= i, i < n), z3.And(z3.Select(O, i) > 0, z3.Select(O, i) < nr, z3.Select(idx, z3.Select(O, i)) == i))),
        z3.ForAll([i], z3.Implies(z3.And(0 <= i, i < n - 1), z3.And(z3.Select(nxt, z3.Select(O, i)) == z3.Select(O, i + 1),
                                                                     z3.Select(prv, z3.Select(O, i + 1)) == z3.Select(O, i)))),
    )


def dict_inv(ctx, s, g, old=False):
    O, n, idx = g
    d = z3.Select(F(ctx, LRU, "cache", old), s)
    has, val, size = DICT.has(d), DICT.val(d), DICT.size(d)
    keyf = F(ctx, NODE, "key", old)
    k = z3.FreshConst(KEY.sort(), "k")
    i = z3.FreshConst(I, "i")
    r = z3.Select(val, k)
    return z3.And(
        size == n - 2,
        z3.ForAll([k], z3.Implies(z3.Select(has, k), z3.And(0 < z3.Select(idx, r), z3.Select(idx, r) < n - 1, z3.Select(O, z3.Select(idx, r)) == r, z3.Select(keyf, r) == k))),
        z3.ForAll([i], z3.Implies(z3.And(0 < i, i < n - 1), z3.And(z3.Select(has, z3.Select(keyf, z3.Select(O, i))), z3.Select(val, z3.Select(keyf, z3.Select(O, i))) == z3.Select(O, i)))),
    )


def bound_inv(ctx, s, g, old=False):
    O, n, idx = g
    ms = z3.Select(F(ctx, LRU, "maxsize", old), s)
    return z3.Implies(z3.Not(OI.is_none(ms)), n - 2 <= z3.If(OI.get(ms) > 0, OI.get(ms), 0))


def linv(ctx, s, g, nr, old=False):
    return z3.And(list_inv(ctx, s, g, nr, old), dict_inv(ctx, s, g, old), bound_inv(ctx, s, g, old))


def _self(ctx):
    return ctx["self"].t


def _entry_ghost(run, fr):
    run.ghost["lru"] = fresh_ghost("in")


# ---- ghost transitions (definitional)
def remove_at(ctx, g, p):
    O, n, idx = g
    O2 = ctx.define_array(I, I, lambda i: z3.If(i < p, z3.Select(O, i), z3.Select(O, i + 1)), "O_rm")
    node = z3.Select(O, p)
    idx2 = ctx.define_array(I, I, lambda r: z3.If(r == node, -1, z3.If(z3.Select(idx, r) > p, z3.Select(idx, r) - 1, z3.Select(idx, r))), "idx_rm")
    return (O2, n - 1, idx2)


def insert_front(ctx, g, node):
    O, n, idx = g
    O2 = ctx.define_array(I, I, lambda i: z3.If(i <= 0, z3.Select(O, i), z3.If(i == 1, node, z3.Select(O, i - 1))), "O_ins")
    idx2 = ctx.define_array(I, I, lambda r: z3.If(r == node, 1, z3.If(z3.Select(idx, r) >= 1, z3.Select(idx, r) + 1, z3.Select(idx, r))), "idx_ins")
    return (O2, n + 1, idx2)


# =============================================================================================== _remove
def _remove_update(ctx):
    g = ctx.old_ghost["lru"]
    node = ctx.old("node").t
    ctx.ghost["lru"] = remove_at(ctx, g, z3.Select(g[2], node))


REG.contract(
    f"{MOD}:LRUCache._remove", prop=P, types={"node": Ref(NODE)}, entry=_entry_ghost,
    requires=[lambda c: list_inv(c, _self(c), c.ghost["lru"], c.run.next_ref),
              lambda c: z3.And(0 < z3.Select(c.ghost["lru"][2], c["node"].t), z3.Select(c.ghost["lru"][2], c["node"].t) < c.ghost["lru"][1] - 1,
                               z3.Select(c.ghost["lru"][0], z3.Select(c.ghost["lru"][2], c["node"].t)) == c["node"].t)],
    modifies=[f"{NODE}.next", f"{NODE}.prev"], raises={}, ghost_update=_remove_update,
    ensures={
        "list_inv": lambda c: list_inv(c, _self(c), c.ghost["lru"], c.run.next_ref),
        # frame inside the modified fields: only the two neighbours were relinked
        "frame_next": lambda c: _only_changed(c, "next", z3.Select(c.old_ghost["lru"][0], z3.Select(c.old_ghost["lru"][2], c.old("node").t) - 1)),
        "frame_prev": lambda c: _only_changed(c, "prev", z3.Select(c.old_ghost["lru"][0], z3.Select(c.old_ghost["lru"][2], c.old("node").t) + 1)),
    },
)


def _only_changed(c, fld, who):
    r = z3.FreshConst(I, "r")
    return z3.ForAll([r], z3.Implies(r != who, z3.Select(F(c, NODE, fld), r) == z3.Select(F(c, NODE, fld, old=True), r)))


# =============================================================================================== _add_to_front
def _add_update(ctx):
    g = ctx.old_ghost["lru"]
    ctx.ghost["lru"] = insert_front(ctx, g, ctx.old("node").t)


def _not_in_list(c, g, node):
    O, n, idx = g
    i = z3.FreshConst(I, "i")
    return z3.ForAll([i], z3.Implies(z3.And(0 <= i, i < n), z3.Select(O, i) != node))


REG.contract(
    f"{MOD}:LRUCache._add_to_front", prop=P, types={"node": Ref(NODE)}, entry=_entry_ghost,
    requires=[lambda c: list_inv(c, _self(c), c.ghost["lru"], c.run.next_ref),
              lambda c: z3.And(c["node"].t > 0, c["node"].t < c.run.next_ref),
              lambda c: _not_in_list(c, c.ghost["lru"], c["node"].t)],
    modifies=[f"{NODE}.next", f"{NODE}.prev"], raises={}, ghost_update=_add_update,
    ensures={
        "list_inv": lambda c: list_inv(c, _self(c), c.ghost["lru"], c.run.next_ref),
    },
)


# =============================================================================================== __init__
def _init_update(ctx):
    s = _self(ctx)
    head, tail = z3.Select(F(ctx, LRU, "head"), s), z3.Select(F(ctx, LRU, "tail"), s)
    O = ctx.define_array(I, I, lambda i: z3.If(i <= 0, head, tail), "O_init")
    idx = ctx.define_array(I, I, lambda r: z3.If(r == head, 0, z3.If(r == tail, 1, -1)), "idx_init")
    ctx.ghost["lru"] = (O, z3.IntVal(2), idx)


REG.contract(
    f"{MOD}:LRUCache.__init__", prop=P, types={"maxsize": Opt(Int)},
    modifies=[f"{LRU}.maxsize", f"{LRU}.cache", f"{LRU}.head", f"{LRU}.tail", f"{NODE}.next", f"{NODE}.prev", f"{NODE}.key", f"{NODE}.value"],
    raises={}, ghost_update=_init_update,
    ensures={
        "establishes_linv_empty": lambda c: z3.And(list_inv(c, _self(c), c.ghost["lru"], c.run.next_ref), dict_inv(c, _self(c), c.ghost["lru"])),
        "maxsize_stored": lambda c: z3.Select(F(c, LRU, "maxsize"), _self(c)) == c.old("maxsize").t,
    },
)


# =============================================================================================== has
def _cache_has(c, key, old=False):
    d = z3.Select(F(c, LRU, "cache", old), _self(c))
    return z3.Select(DICT.has(d), key)


def _cache_val(c, key, old=False):
    d = z3.Select(F(c, LRU, "cache", old), _self(c))
    return z3.Select(DICT.val(d), key)


REG.contract(
    f"{MOD}:LRUCache.has", prop=P, types={"key": KEY}, entry=_entry_ghost,
    requires=[lambda c: linv(c, _self(c), c.ghost["lru"], c.run.next_ref)],
    modifies=[], raises={},
    ensures={"result_is_membership": lambda c: c["result"].t == _cache_has(c, c.old("key").t)},
)


# =============================================================================================== get
def _order_preserved(c, g0, g1, except_node=None, old_limit=None):
    """Every pair of interior nodes of the old order (other than except_node / positions >= old_limit) keeps its relative order."""
    O0, n0, idx0 = g0
    O1, n1, idx1 = g1
    i, j = z3.FreshConst(I, "i"), z3.FreshConst(I, "j")
    hi = old_limit if old_limit is not None else n0 - 1
    cond = z3.And(0 < i, i < j, j < hi)
    if except_node is not None:
        cond = z3.And(cond, z3.Select(O0, i) != except_node, z3.Select(O0, j) != except_node)
    a, b = z3.Select(idx1, z3.Select(O0, i)), z3.Select(idx1, z3.Select(O0, j))
    return z3.ForAll([i, j], z3.Implies(cond, z3.And(0 < a, a < b, b < n1 - 1, z3.Select(O1, a) == z3.Select(O0, i), z3.Select(O1, b) == z3.Select(O0, j))))


def _get_havoc(ctx):
    ctx.ghost["lru"] = fresh_ghost("get")


REG.contract(
    f"{MOD}:LRUCache.get", prop=P, types={"key": KEY}, result=Opt(VALT), entry=_entry_ghost,
    requires=[lambda c: linv(c, _self(c), c.ghost["lru"], c.run.next_ref)],
    modifies=[f"{NODE}.next", f"{NODE}.prev"], raises={}, ghost_havoc=_get_havoc,
    ensures={
        "linv": lambda c: linv(c, _self(c), c.ghost["lru"], c.run.next_ref),
        "miss_none_and_unchanged": lambda c: z3.Implies(z3.Not(_cache_has(c, c.old("key").t, old=True)), z3.And(
            TOpt(VALT).is_none(c["result"].t),
            c.ghost["lru"][1] == c.old_ghost["lru"][1],
            _same_order(c.old_ghost["lru"], c.ghost["lru"]))),
        "hit_value": lambda c: z3.Implies(_cache_has(c, c.old("key").t, old=True), c["result"].t == TOpt(VALT).some(
            z3.Select(F(c, NODE, "value"), _cache_val(c, c.old("key").t, old=True)))),
        "hit_moves_to_front": lambda c: z3.Implies(_cache_has(c, c.old("key").t, old=True), z3.And(
            z3.Select(c.ghost["lru"][0], 1) == _cache_val(c, c.old("key").t, old=True),
            c.ghost["lru"][1] == c.old_ghost["lru"][1])),
        "hit_others_keep_order": lambda c: z3.Implies(_cache_has(c, c.old("key").t, old=True),
                                                      _order_preserved(c, c.old_ghost["lru"], c.ghost["lru"], except_node=_cache_val(c, c.old("key").t, old=True))),
    },
)


def _same_order(g0, g1):
    i = z3.FreshConst(I, "i")
    return z3.ForAll([i], z3.Implies(z3.And(0 <= i, i < g0[1]), z3.Select(g1[0], i) == z3.Select(g0[0], i)))


# =============================================================================================== set
def _set_havoc(ctx):
    ctx.ghost["lru"] = fresh_ghost("set")


def _ms(c, old=True):
    return z3.Select(F(c, LRU, "maxsize", old), _self(c))


def _noop(c):
    ms = _ms(c)
    return z3.And(z3.Not(OI.is_none(ms)), OI.get(ms) <= 0)


def _full(c):
    ms = _ms(c)
    return z3.And(z3.Not(OI.is_none(ms)), c.old_ghost["lru"][1] - 2 >= OI.get(ms))


def _present(c):
    return _cache_has(c, c.old("key").t, old=True)


REG.contract(
    f"{MOD}:LRUCache.set", prop=P, types={"key": KEY, "value": VALT}, entry=_entry_ghost,
    requires=[lambda c: linv(c, _self(c), c.ghost["lru"], c.run.next_ref)],
    modifies=[f"{NODE}.next", f"{NODE}.prev", f"{NODE}.key", f"{NODE}.value", f"{LRU}.cache"], raises={}, ghost_havoc=_set_havoc,
    ensures={
        "linv": lambda c: linv(c, _self(c), c.ghost["lru"], c.run.next_ref),
        "maxsize_le_0_is_noop": lambda c: z3.Implies(_noop(c), z3.And(c.ghost["lru"][1] == c.old_ghost["lru"][1], _same_order(c.old_ghost["lru"], c.ghost["lru"]),
                                                                       z3.Select(F(c, LRU, "cache"), _self(c)) == z3.Select(F(c, LRU, "cache", True), _self(c)))),
        "stored_in_front": lambda c: z3.Implies(z3.Not(_noop(c)), z3.And(
            _cache_has(c, c.old("key").t),
            z3.Select(c.ghost["lru"][0], 1) == _cache_val(c, c.old("key").t),
            z3.Select(F(c, NODE, "value"), _cache_val(c, c.old("key").t)) == c.old("value").t)),
        "present_keeps_node_and_size": lambda c: z3.Implies(z3.And(z3.Not(_noop(c)), _present(c)), z3.And(
            _cache_val(c, c.old("key").t) == _cache_val(c, c.old("key").t, old=True),
            c.ghost["lru"][1] == c.old_ghost["lru"][1],
            _order_preserved(c, c.old_ghost["lru"], c.ghost["lru"], except_node=_cache_val(c, c.old("key").t, old=True)))),
        "absent_not_full_grows": lambda c: z3.Implies(z3.And(z3.Not(_noop(c)), z3.Not(_present(c)), z3.Not(_full(c))), z3.And(
            c.ghost["lru"][1] == c.old_ghost["lru"][1] + 1,
            _order_preserved(c, c.old_ghost["lru"], c.ghost["lru"]))),
        # "evicts the least-recently-used entry first": exactly the LAST interior node goes, all others keep their order
        "absent_full_evicts_lru": lambda c: z3.Implies(z3.And(z3.Not(_noop(c)), z3.Not(_present(c)), _full(c)), z3.And(
            c.ghost["lru"][1] == c.old_ghost["lru"][1],
            z3.Not(_cache_has(c, z3.Select(F(c, NODE, "key", True), z3.Select(c.old_ghost["lru"][0], c.old_ghost["lru"][1] - 2)))) if True else True,
            _order_preserved(c, c.old_ghost["lru"], c.ghost["lru"], old_limit=c.old_ghost["lru"][1] - 2))),
        "other_keys_untouched": lambda c: _other_keys(c),
    },
)


def _other_keys(c):
    """Keys other than `key` and the evicted one keep membership and node (values of other nodes are untouched)."""
    k = z3.FreshConst(KEY.sort(), "k")
    evicted_key = z3.Select(F(c, NODE, "key", True), z3.Select(c.old_ghost["lru"][0], c.old_ghost["lru"][1] - 2))
    is_evicting = z3.And(z3.Not(_noop(c)), z3.Not(_present(c)), _full(c))
    return z3.ForAll([k], z3.Implies(z3.And(k != c.old("key").t, z3.Not(z3.And(is_evicting, k == evicted_key))), z3.And(
        _cache_has(c, k) == _cache_has(c, k, old=True),
        z3.Implies(_cache_has(c, k, old=True), z3.And(_cache_val(c, k) == _cache_val(c, k, old=True),
                                                      z3.Select(F(c, NODE, "value"), _cache_val(c, k)) == z3.Select(F(c, NODE, "value", True), _cache_val(c, k)))))))


# =============================================================================================== clear
def _clear_update(ctx):
    _init_update(ctx)


REG.contract(
    f"{MOD}:LRUCache.clear", prop=P, entry=_entry_ghost,
    requires=[lambda c: linv(c, _self(c), c.ghost["lru"], c.run.next_ref)],
    modifies=[f"{NODE}.next", f"{NODE}.prev", f"{LRU}.cache"], raises={}, ghost_update=_clear_update,
    ensures={
        "linv_empty": lambda c: linv(c, _self(c), c.ghost["lru"], c.run.next_ref),
        "empty": lambda c: c.ghost["lru"][1] == 2,
    },
)

ASSUMES = ["A-PY", "A-INST"]
NOT_COVERED = [
    "cached_template / get_template_cache (key function, transparency lemma) are not yet under contract",
    "ownership scan of LRUCache.cache/head/tail writers outside util/cache.py not yet run",
]
