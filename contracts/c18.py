"""C18 - template caching is transparent and behaves as a bounded LRU.

Ghost state of one LRUCache `self`:  O[0..n) = head sentinel, nodes MRU -> LRU, tail sentinel (array of refs),
idx = inverse of O.  LInv = ListInv (links, sentinels, inverse) + DictInv (dict <-> interior nodes) + Bound.
"""
import z3

from pyvc import ops
from pyvc.contracts import REG, Dict, Int, Loop, Obj, Opt, Ref, Str, Tup
from pyvc.interp import EngineError
from pyvc.types import Conc, TBool, TInt, TOpt, TRef, TStr, Val

P = "C18"
MOD = "django_components.util.cache"
KEY, VALT = Obj("Key"), Obj("T")
NODE, LRU = "CacheNode", "LRUCache"
DICT = Dict(KEY, Ref(NODE))
OI = TOpt(TInt)

REG.heap_class(NODE, {"key": KEY, "value": VALT, "prev": Ref(NODE), "next": Ref(NODE)}, module=MOD)
REG.heap_class(LRU, {"maxsize": Opt(Int), "cache": DICT, "head": Ref(NODE), "tail": Ref(NODE)}, module=MOD)
REG.inline(f"{MOD}:CacheNode.__init__")

I = z3.IntSort()


def F(ctx, cls, name, old=False):
    return ctx.field(cls, name, old)


def fresh_ghost(tag="g"):
    return (z3.FreshConst(z3.ArraySort(I, I), f"O_{tag}"), z3.FreshConst(I, f"n_{tag}"), z3.FreshConst(z3.ArraySort(I, I), f"idx_{tag}"))


def list_inv_f(O, n, idx, nxt, prv, head_a, tail_a, s, nr):
    head, tail = z3.Select(head_a, s), z3.Select(tail_a, s)
    i = z3.FreshConst(I, "i")
    return z3.And(
        n >= 2, z3.Select(O, 0) == head, z3.Select(O, n - 1) == tail,
        z3.ForAll([i], z3.Implies(z3.And(0 <= i, i < n), z3.And(z3.Select(O, i) > 0, z3.Select(O, i) < nr, z3.Select(idx, z3.Select(O, i)) == i))),
        z3.ForAll([i], z3.Implies(z3.And(0 <= i, i < n - 1), z3.And(z3.Select(nxt, z3.Select(O, i)) == z3.Select(O, i + 1),
                                                                     z3.Select(prv, z3.Select(O, i + 1)) == z3.Select(O, i)))),
    )


def list_inv(ctx, s, g, nr, old=False):
    return list_inv_f(g[0], g[1], g[2], F(ctx, NODE, "next", old), F(ctx, NODE, "prev", old), F(ctx, LRU, "head", old), F(ctx, LRU, "tail", old), s, nr)


def dict_inv_f(O, n, idx, keyf, cache_a, s):
    d = z3.Select(cache_a, s)
    has, val, size = DICT.has(d), DICT.val(d), DICT.size(d)
    k = z3.FreshConst(KEY.sort(), "k")
    i = z3.FreshConst(I, "i")
    r = z3.Select(val, k)
    return z3.And(
        size == n - 2,
        z3.ForAll([k], z3.Implies(z3.Select(has, k), z3.And(0 < z3.Select(idx, r), z3.Select(idx, r) < n - 1, z3.Select(O, z3.Select(idx, r)) == r, z3.Select(keyf, r) == k))),
        z3.ForAll([i], z3.Implies(z3.And(0 < i, i < n - 1), z3.And(z3.Select(has, z3.Select(keyf, z3.Select(O, i))), z3.Select(val, z3.Select(keyf, z3.Select(O, i))) == z3.Select(O, i)))),
    )


def dict_inv(ctx, s, g, old=False):
    return dict_inv_f(g[0], g[1], g[2], F(ctx, NODE, "key", old), F(ctx, LRU, "cache", old), s)


def bound_inv_f(n, ms_a, s):
    ms = z3.Select(ms_a, s)
    return z3.Implies(z3.Not(OI.is_none(ms)), n - 2 <= z3.If(OI.get(ms) > 0, OI.get(ms), 0))


def bound_inv(ctx, s, g, old=False):
    return bound_inv_f(g[1], F(ctx, LRU, "maxsize", old), s)


def _linv_f(O, n, idx, nxt, prv, keyf, head_a, tail_a, cache_a, ms_a, s, nr):
    return z3.And(list_inv_f(O, n, idx, nxt, prv, head_a, tail_a, s, nr), dict_inv_f(O, n, idx, keyf, cache_a, s), bound_inv_f(n, ms_a, s))


def linv(ctx, s, g, nr, old=False):
    """LInv as an OPAQUE predicate of (ghost, the seven field arrays, the cache object, the allocation bound): the LRUCache
    methods reveal its definition for their own proofs; code that only USES a cache carries it as an atom from one
    method's postcondition to the next method's precondition."""
    args = [g[0], g[1], g[2], F(ctx, NODE, "next", old), F(ctx, NODE, "prev", old), F(ctx, NODE, "key", old), F(ctx, LRU, "head", old),
            F(ctx, LRU, "tail", old), F(ctx, LRU, "cache", old), F(ctx, LRU, "maxsize", old), s, nr]
    p = ctx.opaque("LInv", args, _linv_f)
    return _linv_f(*args) if (not ctx.run.modular and "LInv" in ctx.run.x.c.reveal) else p


def _self(ctx):
    return ctx["self"].t


def _entry_ghost(run, fr):
    run.ghost["lru"] = fresh_ghost("in")


# ---- ghost transitions (definitional)
def remove_at(ctx, g, p):
    O, n, idx = g
    O2 = ctx.define_array(I, I, lambda i: z3.If(i < p, z3.Select(O, i), z3.Select(O, i + 1)), "O_rm")
    node = z3.Select(O, p)
    idx2 = ctx.define_array(I, I, lambda r: z3.If(r == node, -1, z3.If(z3.Select(idx, r) > p, z3.Select(idx, r) - 1, z3.Select(idx, r))), "idx_rm")
    return (O2, n - 1, idx2)


def insert_front(ctx, g, node):
    O, n, idx = g
    O2 = ctx.define_array(I, I, lambda i: z3.If(i <= 0, z3.Select(O, i), z3.If(i == 1, node, z3.Select(O, i - 1))), "O_ins")
    idx2 = ctx.define_array(I, I, lambda r: z3.If(r == node, 1, z3.If(z3.Select(idx, r) >= 1, z3.Select(idx, r) + 1, z3.Select(idx, r))), "idx_ins")
    return (O2, n + 1, idx2)


# =============================================================================================== _remove
def _remove_update(ctx):
    g = ctx.old_ghost["lru"]
    node = ctx.old("node").t
    ctx.ghost["lru"] = remove_at(ctx, g, z3.Select(g[2], node))


REG.contract(
    f"{MOD}:LRUCache._remove", prop=P, types={"node": Ref(NODE)}, entry=_entry_ghost,
    requires=[lambda c: list_inv(c, _self(c), c.ghost["lru"], c.run.next_ref),
              lambda c: z3.And(0 < z3.Select(c.ghost["lru"][2], c["node"].t), z3.Select(c.ghost["lru"][2], c["node"].t) < c.ghost["lru"][1] - 1,
                               z3.Select(c.ghost["lru"][0], z3.Select(c.ghost["lru"][2], c["node"].t)) == c["node"].t)],
    modifies=[f"{NODE}.next", f"{NODE}.prev"], raises={}, ghost_update=_remove_update,
    ensures={
        "list_inv": lambda c: list_inv(c, _self(c), c.ghost["lru"], c.run.next_ref),
        # frame inside the modified fields: only the two neighbours were relinked
        "frame_next": lambda c: _only_changed(c, "next", z3.Select(c.old_ghost["lru"][0], z3.Select(c.old_ghost["lru"][2], c.old("node").t) - 1)),
        "frame_prev": lambda c: _only_changed(c, "prev", z3.Select(c.old_ghost["lru"][0], z3.Select(c.old_ghost["lru"][2], c.old("node").t) + 1)),
    },
)


def _only_changed(c, fld, who):
    r = z3.FreshConst(I, "r")
    return z3.ForAll([r], z3.Implies(r != who, z3.Select(F(c, NODE, fld), r) == z3.Select(F(c, NODE, fld, old=True), r)))


# =============================================================================================== _add_to_front
def _add_update(ctx):
    g = ctx.old_ghost["lru"]
    ctx.ghost["lru"] = insert_front(ctx, g, ctx.old("node").t)


def _not_in_list(c, g, node):
    O, n, idx = g
    i = z3.FreshConst(I, "i")
    return z3.ForAll([i], z3.Implies(z3.And(0 <= i, i < n), z3.Select(O, i) != node))


REG.contract(
    f"{MOD}:LRUCache._add_to_front", prop=P, types={"node": Ref(NODE)}, entry=_entry_ghost,
    requires=[lambda c: list_inv(c, _self(c), c.ghost["lru"], c.run.next_ref),
              lambda c: z3.And(c["node"].t > 0, c["node"].t < c.run.next_ref),
              lambda c: _not_in_list(c, c.ghost["lru"], c["node"].t)],
    modifies=[f"{NODE}.next", f"{NODE}.prev"], raises={}, ghost_update=_add_update,
    ensures={
        "list_inv": lambda c: list_inv(c, _self(c), c.ghost["lru"], c.run.next_ref),
    },
)


# =============================================================================================== __init__
def _init_update(ctx):
    s = _self(ctx)
    head, tail = z3.Select(F(ctx, LRU, "head"), s), z3.Select(F(ctx, LRU, "tail"), s)
    O = ctx.define_array(I, I, lambda i: z3.If(i <= 0, head, tail), "O_init")
    idx = ctx.define_array(I, I, lambda r: z3.If(r == head, 0, z3.If(r == tail, 1, -1)), "idx_init")
    ctx.ghost["lru"] = (O, z3.IntVal(2), idx)


REG.contract(
    f"{MOD}:LRUCache.__init__", prop=P, types={"maxsize": Opt(Int)},
    modifies=[f"{LRU}.maxsize", f"{LRU}.cache", f"{LRU}.head", f"{LRU}.tail", f"{NODE}.next", f"{NODE}.prev", f"{NODE}.key", f"{NODE}.value"],
    raises={}, ghost_update=_init_update,
    ensures={
        "establishes_linv_empty": lambda c: z3.And(list_inv(c, _self(c), c.ghost["lru"], c.run.next_ref), dict_inv(c, _self(c), c.ghost["lru"])),
        "maxsize_stored": lambda c: z3.Select(F(c, LRU, "maxsize"), _self(c)) == c.old("maxsize").t,
        "only_self_and_new_nodes_written": lambda c: _init_frame(c),
        "cache_empty": lambda c: _is_empty(z3.Select(F(c, LRU, "cache"), _self(c))),
    },
)


def _is_empty(d):
    return z3.And(DICT.size(d) == 0, DICT.has(d) == z3.K(KEY.sort(), z3.BoolVal(False)))


def _init_frame(c):
    r = z3.FreshConst(I, "r")
    return z3.ForAll([r], z3.Implies(z3.And(r > 0, r < c.old_next_ref), z3.And(
        *[z3.Implies(r != _self(c), z3.Select(F(c, LRU, f), r) == z3.Select(F(c, LRU, f, True), r)) for f in ("maxsize", "cache", "head", "tail")],
        *[z3.Select(F(c, NODE, f), r) == z3.Select(F(c, NODE, f, True), r) for f in ("next", "prev", "key", "value")])))


# =============================================================================================== has
def _cache_has(c, key, old=False):
    d = z3.Select(F(c, LRU, "cache", old), _self(c))
    return z3.Select(DICT.has(d), key)


def _cache_val(c, key, old=False):
    d = z3.Select(F(c, LRU, "cache", old), _self(c))
    return z3.Select(DICT.val(d), key)


REG.contract(
    f"{MOD}:LRUCache.has", prop=P, reveal={"LInv"}, types={"key": KEY}, entry=_entry_ghost,
    requires=[lambda c: linv(c, _self(c), c.ghost["lru"], c.run.next_ref)],
    modifies=[], raises={},
    ensures={"result_is_membership": lambda c: c["result"].t == _cache_has(c, c.old("key").t)},
)


# =============================================================================================== get
def _order_preserved(c, g0, g1, except_node=None, old_limit=None):
    """Every pair of interior nodes of the old order (other than except_node / positions >= old_limit) keeps its relative order."""
    O0, n0, idx0 = g0
    O1, n1, idx1 = g1
    i, j = z3.FreshConst(I, "i"), z3.FreshConst(I, "j")
    hi = old_limit if old_limit is not None else n0 - 1
    cond = z3.And(0 < i, i < j, j < hi)
    if except_node is not None:
        cond = z3.And(cond, z3.Select(O0, i) != except_node, z3.Select(O0, j) != except_node)
    a, b = z3.Select(idx1, z3.Select(O0, i)), z3.Select(idx1, z3.Select(O0, j))
    return z3.ForAll([i, j], z3.Implies(cond, z3.And(0 < a, a < b, b < n1 - 1, z3.Select(O1, a) == z3.Select(O0, i), z3.Select(O1, b) == z3.Select(O0, j))))


def _get_havoc(ctx):
    ctx.ghost["lru"] = fresh_ghost("get")


REG.contract(
    f"{MOD}:LRUCache.get", prop=P, reveal={"LInv"}, types={"key": KEY}, result=Opt(VALT), entry=_entry_ghost,
    requires=[lambda c: linv(c, _self(c), c.ghost["lru"], c.run.next_ref)],
    modifies=[f"{NODE}.next", f"{NODE}.prev"], raises={}, ghost_havoc=_get_havoc,
    ensures={
        "linv": lambda c: linv(c, _self(c), c.ghost["lru"], c.run.next_ref),
        "miss_none_and_unchanged": lambda c: z3.Implies(z3.Not(_cache_has(c, c.old("key").t, old=True)), z3.And(
            TOpt(VALT).is_none(c["result"].t),
            c.ghost["lru"][1] == c.old_ghost["lru"][1],
            _same_order(c.old_ghost["lru"], c.ghost["lru"]))),
        "hit_value": lambda c: z3.Implies(_cache_has(c, c.old("key").t, old=True), c["result"].t == TOpt(VALT).some(
            z3.Select(F(c, NODE, "value"), _cache_val(c, c.old("key").t, old=True)))),
        "hit_moves_to_front": lambda c: z3.Implies(_cache_has(c, c.old("key").t, old=True), z3.And(
            z3.Select(c.ghost["lru"][0], 1) == _cache_val(c, c.old("key").t, old=True),
            c.ghost["lru"][1] == c.old_ghost["lru"][1])),
        "hit_others_keep_order": lambda c: z3.Implies(_cache_has(c, c.old("key").t, old=True),
                                                      _order_preserved(c, c.old_ghost["lru"], c.ghost["lru"], except_node=_cache_val(c, c.old("key").t, old=True))),
    },
)


def _same_order(g0, g1):
    i = z3.FreshConst(I, "i")
    return z3.ForAll([i], z3.Implies(z3.And(0 <= i, i < g0[1]), z3.Select(g1[0], i) == z3.Select(g0[0], i)))


# =============================================================================================== set
def _set_havoc(ctx):
    ctx.ghost["lru"] = fresh_ghost("set")


def _ms(c, old=True):
    return z3.Select(F(c, LRU, "maxsize", old), _self(c))


def _noop(c):
    ms = _ms(c)
    return z3.And(z3.Not(OI.is_none(ms)), OI.get(ms) <= 0)


def _full(c):
    ms = _ms(c)
    return z3.And(z3.Not(OI.is_none(ms)), c.old_ghost["lru"][1] - 2 >= OI.get(ms))


def _present(c):
    return _cache_has(c, c.old("key").t, old=True)


REG.contract(
    f"{MOD}:LRUCache.set", prop=P, reveal={"LInv"}, types={"key": KEY, "value": VALT}, entry=_entry_ghost,
    requires=[lambda c: linv(c, _self(c), c.ghost["lru"], c.run.next_ref)],
    modifies=[f"{NODE}.next", f"{NODE}.prev", f"{NODE}.key", f"{NODE}.value", f"{LRU}.cache"], raises={}, ghost_havoc=_set_havoc,
    ensures={
        "linv": lambda c: linv(c, _self(c), c.ghost["lru"], c.run.next_ref),
        "maxsize_le_0_is_noop": lambda c: z3.Implies(_noop(c), z3.And(c.ghost["lru"][1] == c.old_ghost["lru"][1], _same_order(c.old_ghost["lru"], c.ghost["lru"]),
                                                                       z3.Select(F(c, LRU, "cache"), _self(c)) == z3.Select(F(c, LRU, "cache", True), _self(c)))),
        "stored_in_front": lambda c: z3.Implies(z3.Not(_noop(c)), z3.And(
            _cache_has(c, c.old("key").t),
            z3.Select(c.ghost["lru"][0], 1) == _cache_val(c, c.old("key").t),
            z3.Select(F(c, NODE, "value"), _cache_val(c, c.old("key").t)) == c.old("value").t)),
        "present_keeps_node_and_size": lambda c: z3.Implies(z3.And(z3.Not(_noop(c)), _present(c)), z3.And(
            _cache_val(c, c.old("key").t) == _cache_val(c, c.old("key").t, old=True),
            c.ghost["lru"][1] == c.old_ghost["lru"][1],
            _order_preserved(c, c.old_ghost["lru"], c.ghost["lru"], except_node=_cache_val(c, c.old("key").t, old=True)))),
        "absent_not_full_grows": lambda c: z3.Implies(z3.And(z3.Not(_noop(c)), z3.Not(_present(c)), z3.Not(_full(c))), z3.And(
            c.ghost["lru"][1] == c.old_ghost["lru"][1] + 1,
            _order_preserved(c, c.old_ghost["lru"], c.ghost["lru"]))),
        # "evicts the least-recently-used entry first": exactly the LAST interior node goes, all others keep their order
        "absent_full_evicts_lru": lambda c: z3.Implies(z3.And(z3.Not(_noop(c)), z3.Not(_present(c)), _full(c)), z3.And(
            c.ghost["lru"][1] == c.old_ghost["lru"][1],
            z3.Not(_cache_has(c, z3.Select(F(c, NODE, "key", True), z3.Select(c.old_ghost["lru"][0], c.old_ghost["lru"][1] - 2)))) if True else True,
            _order_preserved(c, c.old_ghost["lru"], c.ghost["lru"], old_limit=c.old_ghost["lru"][1] - 2))),
        "other_keys_untouched": lambda c: _other_keys(c),
    },
)


def _other_keys(c):
    """Keys other than `key` and the evicted one keep membership and node (values of other nodes are untouched)."""
    k = z3.FreshConst(KEY.sort(), "k")
    evicted_key = z3.Select(F(c, NODE, "key", True), z3.Select(c.old_ghost["lru"][0], c.old_ghost["lru"][1] - 2))
    is_evicting = z3.And(z3.Not(_noop(c)), z3.Not(_present(c)), _full(c))
    return z3.ForAll([k], z3.Implies(z3.And(k != c.old("key").t, z3.Not(z3.And(is_evicting, k == evicted_key))), z3.And(
        _cache_has(c, k) == _cache_has(c, k, old=True),
        z3.Implies(_cache_has(c, k, old=True), z3.And(_cache_val(c, k) == _cache_val(c, k, old=True),
                                                      z3.Select(F(c, NODE, "value"), _cache_val(c, k)) == z3.Select(F(c, NODE, "value", True), _cache_val(c, k)))))))


# =============================================================================================== clear
def _clear_update(ctx):
    _init_update(ctx)


REG.contract(
    f"{MOD}:LRUCache.clear", prop=P, reveal={"LInv"}, entry=_entry_ghost,
    requires=[lambda c: linv(c, _self(c), c.ghost["lru"], c.run.next_ref)],
    modifies=[f"{NODE}.next", f"{NODE}.prev", f"{LRU}.cache"], raises={}, ghost_update=_clear_update,
    ensures={
        "linv_empty": lambda c: linv(c, _self(c), c.ghost["lru"], c.run.next_ref),
        "empty": lambda c: c.ghost["lru"][1] == 2,
    },
)


# =============================================================================================== the configured size
SETTINGS = "django_components.app_settings"
CONF = z3.Const("setting!template_cache_size", OI.sort())          # COMPONENTS.template_cache_size as configured (None = not set)
DEFAULT = z3.Int("default!template_cache_size")                      # defaults.template_cache_size
SIZE = z3.If(OI.is_none(CONF), DEFAULT, OI.get(CONF))                # what "the configured cache size" means (0 stays 0)

REG.stub(("new", "InternalSettings"), lambda run, args, kwargs, node: Conc(("obj_kind", "app_settings")))
REG.stub(("new", "Dynamic"), lambda run, args, kwargs, node: Conc(("obj_kind", "dynamic_default")))
REG.stub(("new", "ComponentsSettings"), lambda run, args, kwargs, node: Conc(("obj_kind", "settings_defaults")))
REG.stub(("getattr", "conc:obj_kind:settings_defaults", "template_cache_size"), lambda run, obj, node: Val(TInt, DEFAULT))
REG.stub(("getattr", "conc:obj_kind:user_settings", "template_cache_size"), lambda run, obj, node: Val(OI, CONF))
REG.stub(("getattr", "InternalSettings", "_settings"), lambda run, obj, node: Conc(("obj_kind", "user_settings")))
REG.inline("django_components.util.misc:default")

REG.contract(
    f"{SETTINGS}:InternalSettings.TEMPLATE_CACHE_SIZE", prop=P, result=Int, self_type=Obj("InternalSettings"),
    modifies=[], raises={},
    ensures={"is_the_configured_size_else_the_default": lambda c: c["result"].t == SIZE},
)
# callers read the property through the attribute: same spec function as the contract above
REG.stub(("getattr", "conc:obj_kind:app_settings", "TEMPLATE_CACHE_SIZE"), lambda run, obj, node: Val(TInt, SIZE))

# =============================================================================================== get_template_cache
CMOD = "django_components.cache"
OLRU = TOpt(TRef(LRU))
TC_GLOBALS = {"template_cache": Opt(Ref(LRU))}


def _tc(c, old=False):
    return (c.old("template_cache") if old else c.run.globals["template_cache"]).t


def _ghost_same(c):
    g0, g1 = c.old_ghost["lru"], c.ghost["lru"]
    return z3.And(g0[0] == g1[0], g0[1] == g1[1], g0[2] == g1[2])


def _existing_cache_wf(c):
    """the template cache, once created, satisfies the LRU representation invariant (every LRUCache method keeps it)"""
    return z3.Implies(z3.Not(OLRU.is_none(_tc(c))), linv(c, OLRU.get(_tc(c)), c.ghost["lru"], c.run.next_ref))


REG.contract(
    f"{CMOD}:get_template_cache", prop=P, reveal={"LInv"}, result=Ref(LRU), globals=TC_GLOBALS, entry=_entry_ghost,
    requires=[_existing_cache_wf],
    modifies=["template_cache", f"{LRU}.maxsize", f"{LRU}.cache", f"{LRU}.head", f"{LRU}.tail", f"{NODE}.next", f"{NODE}.prev", f"{NODE}.key", f"{NODE}.value"],
    raises={}, ghost_havoc=lambda ctx: ctx.ghost.__setitem__("lru", fresh_ghost("gtc")),
    ensures={
        "is_the_module_cache": lambda c: z3.And(z3.Not(OLRU.is_none(_tc(c))), OLRU.get(_tc(c)) == c["result"].t),
        "one_cache_per_process": lambda c: z3.Implies(z3.Not(OLRU.is_none(_tc(c, True))), z3.And(_tc(c) == _tc(c, True), _ghost_same(c))),
        "created_empty_with_the_configured_size": lambda c: z3.Implies(OLRU.is_none(_tc(c, True)), z3.And(
            z3.Select(F(c, LRU, "maxsize"), c["result"].t) == OI.some(SIZE), c.ghost["lru"][1] == 2, c["result"].t >= c.old_next_ref)),
        "linv": lambda c: linv(c, c["result"].t, c.ghost["lru"], c.run.next_ref),
        "existing_objects_untouched": lambda c: _old_objects_untouched(c),
        "created_cache_has_no_entries": lambda c: z3.Implies(OLRU.is_none(_tc(c, True)), _is_empty(z3.Select(F(c, LRU, "cache"), c["result"].t))),
        "nothing_written_once_created": lambda c: z3.Implies(z3.Not(OLRU.is_none(_tc(c, True))), z3.And(*[F(c, k, f) == F(c, k, f, True) for k, f in _FLDS])),
    },
)


_FLDS = [(LRU, f) for f in ("maxsize", "cache", "head", "tail")] + [(NODE, f) for f in ("next", "prev", "key", "value")]


def _old_objects_untouched(c):
    r = z3.FreshConst(I, "r")
    flds = _FLDS
    return z3.ForAll([r], z3.Implies(z3.And(r > 0, r < c.old_next_ref), z3.And(*[z3.Select(F(c, k, f), r) == z3.Select(F(c, k, f, True), r) for k, f in flds])))


# =============================================================================================== cached_template
TMOD = "django_components.template"
TCLS, ENGINE, ECLS, ANYOBJ = Obj("TemplateCls"), Obj("Engine"), Obj("EngineCls"), Obj("Opaque")
KT = Tup(Str, Str, Opt(Str))
OSTR = TOpt(TStr)
OENG = TOpt(ENGINE)
S_ = z3.StringSort()


def import_path_t(cls_t):
    return ops.uf("import_path_TemplateCls", TCLS.sort(), S_)(cls_t)


def import_path_e(cls_t):
    return ops.uf("import_path_EngineCls", ECLS.sort(), S_)(cls_t)


def engine_class(e):
    return ops.uf("class_of_engine", ENGINE.sort(), ECLS.sort())(e)


def _get_import_path(run, args, kwargs, node):
    v = args[0]
    if v.ty == TOpt(TCLS):
        v = run.coerce(v, TCLS)
    if v.ty == TCLS:
        return Val(TStr, import_path_t(v.t))
    if v.ty == ECLS:
        return Val(TStr, import_path_e(v.t))
    raise EngineError(f"get_import_path of {v.ty}")


REG.stub("django_components.util.misc:get_import_path", _get_import_path)
# classes and django Engine objects are truthy (no __bool__ / __len__): `template_cls or Template`, `if engine`
REG.stub(("truth", "TemplateCls"), lambda run, v: z3.BoolVal(True))
REG.stub(("truth", "Engine"), lambda run, v: z3.BoolVal(True))
REG.stub(("getattr", "Engine", "__class__"), lambda run, obj, node: Val(ECLS, engine_class(obj.t)))


def key_term(cls_t, src, eng):
    """the cache key of a compilation request, as a value of the LRU's opaque key sort (tuple equality = component-wise)"""
    ep = z3.If(OENG.is_none(eng), OSTR.none(), OSTR.some(import_path_e(engine_class(OENG.get(eng)))))
    return ops.uf(f"inj_{KT.name}_{KEY.name}", KT.sort(), KEY.sort())(KT.mk(import_path_t(cls_t), src, ep))


# what a Template object was compiled from (ASSUMED contract of django.template.Template.__init__: it records its inputs)
def tpl_key(t):
    return ops.uf("template_compiled_from_key", VALT.sort(), KEY.sort())(t)


def tpl_engine(t):
    return ops.uf("template_engine", VALT.sort(), OENG.sort())(t)


def _new_template(run, args, kwargs, node):
    """template_cls(template_string, origin=..., name=..., engine=...): a NEW Template object (distinct from every cached one)"""
    cls = run.call_frame.lookup("template_cls")
    src = run.coerce(args[0], TStr).t
    eng = run.coerce(kwargs["engine"], OENG).t
    t = z3.FreshConst(VALT.sort(), "new_template")
    run.assume(z3.And(tpl_key(t) == key_term(run.coerce(cls, TCLS).t, src, eng), tpl_engine(t) == eng))
    run.ghost["compiled"] = Val(TBool, z3.BoolVal(True))
    run.ghost["new_template"] = Val(VALT, t)
    return Val(VALT, t)


def _cache_obj(c, old=False):
    return OLRU.get(_tc(c, old))


def _tpl_of(c, k, old=False):
    """the Template stored under key k"""
    s = _cache_obj(c, old)
    d = z3.Select(F(c, LRU, "cache", old), s)
    return z3.Select(F(c, NODE, "value", old), z3.Select(DICT.val(d), k))


def _has_key(c, k, old=False):
    s = _cache_obj(c, old)
    return z3.Select(DICT.has(z3.Select(F(c, LRU, "cache", old), s)), k)


def _entries_compiled_from_their_key(c, old=False):
    """cache invariant: every cached Template was compiled from the (class path, source, engine class path) it is filed under"""
    k = z3.FreshConst(KEY.sort(), "k")
    return z3.Implies(z3.Not(OLRU.is_none(_tc(c, old))), z3.ForAll([k], z3.Implies(_has_key(c, k, old), tpl_key(_tpl_of(c, k, old)) == k)))


def _req_key(c):
    cls = c.old("template_cls").t
    cls_t = z3.If(TOpt(TCLS).is_none(cls), c.run.globals["Template"].t, TOpt(TCLS).get(cls))
    return key_term(cls_t, c.old("template_string").t, c.old("engine").t)


def _was_cached(c):
    return z3.And(z3.Not(OLRU.is_none(_tc(c, True))), _has_key(c, _req_key(c), True))


REG.contract(
    f"{TMOD}:cached_template", prop=P, result=VALT, entry=_entry_ghost,
    types={"template_string": Str, "template_cls": Opt(TCLS), "origin": Opt(ANYOBJ), "name": Opt(Str), "engine": Opt(ENGINE)},
    globals=dict(TC_GLOBALS, Template=TCLS), locals={"cache_key": KT}, calls={"template_cls": _new_template},
    requires=[_existing_cache_wf, _entries_compiled_from_their_key],
    modifies=["template_cache", f"{LRU}.maxsize", f"{LRU}.cache", f"{LRU}.head", f"{LRU}.tail", f"{NODE}.next", f"{NODE}.prev", f"{NODE}.key", f"{NODE}.value"],
    raises={},
    ensures={
        # transparency: what comes back was compiled from exactly the requested (class, source, engine class) ...
        "result_compiled_from_the_requested_key": lambda c: tpl_key(c["result"].t) == _req_key(c),
        # ... and is the IDENTICAL object for a repeated key as long as it is cached
        "identical_object_while_cached": lambda c: z3.Implies(_was_cached(c), c["result"].t == _tpl_of(c, _req_key(c), True)),
        "cache_entries_compiled_from_their_key": lambda c: _entries_compiled_from_their_key(c),
        "cache_stays_well_formed_and_bounded": lambda c: z3.And(z3.Not(OLRU.is_none(_tc(c))), linv(c, _cache_obj(c), c.ghost["lru"], c.run.next_ref)),
        # the engine INSTANCE is not part of the key (only its class path): see finding F-C18a
        "result_bound_to_the_requested_engine": lambda c: tpl_engine(c["result"].t) == c.old("engine").t,
    },
    findings={"post#result_bound_to_the_requested_engine": lambda c: z3.And(_was_cached(c), tpl_engine(_tpl_of(c, _req_key(c), True)) != c.old("engine").t)},
)


# =============================================================================================== ownership scan
def own_template_cache():
    """The cache invariant (entries compiled from their key) needs: the template cache is reached only through
    get_template_cache(), and only cached_template stores into it; the LRU's own fields are written only in util/cache.py."""
    import ast
    from pyvc.repo import all_repo_modules, load_module
    users, writers, raw = [], [], []
    for modname in all_repo_modules():
        m = load_module(modname)
        for fq, fi in m.funcs.items():
            names = {n.id for n in ast.walk(fi.node) if isinstance(n, ast.Name)}
            if "get_template_cache" in names and not (modname == CMOD and fq == "get_template_cache"):
                users.append(f"{modname}:{fq}")
            if "template_cache" in names and modname != TMOD and not (modname == CMOD and fq == "get_template_cache"):
                raw.append(f"{modname}:{fq}")
            for n in ast.walk(fi.node):
                if isinstance(n, (ast.Assign, ast.AugAssign, ast.AnnAssign)):
                    for t in (n.targets if isinstance(n, ast.Assign) else [n.target]):
                        if isinstance(t, ast.Attribute) and t.attr in ("head", "tail", "maxsize", "cache") and modname != MOD and ast.unparse(t.value) != "self":
                            writers.append(f"{modname}:{fq}:{n.lineno}")
    ok = users == [f"{TMOD}:cached_template"] and not raw and not writers
    return ok, f"users of get_template_cache: {users}; other references to the module global: {raw}; foreign writers of LRU fields: {writers}"


REG.syntactic_check("own#template_cache_used_only_by_cached_template", P, own_template_cache)

ASSUMES = ["A-PY", "A-INST", "A-DJ"]
NOT_COVERED = [
    "django.template.Template.__init__ is ASSUMED to record what it was compiled from (source, class, engine) and rendering is ASSUMED to depend on nothing else given the same Context - this is what turns `compiled from the requested key` into `output equals compiling afresh`",
    "Component._get_template is under contract; its user hooks (get_template_name / get_template / get_template_string) and Django's template loader are stubs (arbitrary results)",
    "a template cache object replaced or mutated by user code through django_components.cache.template_cache is outside the contract (precondition: the cache is well-formed and holds only entries filed by cached_template)",
]


# ------------------------------------------------------------------------------------------- replay on the real code
@REG.replay(f"{CMOD}:get_template_cache")
def _replay_gtc(model, ob):
    """drive the real wiring with the configured sizes the property names (0, 1, n, not set)"""
    from django.conf import settings
    if not settings.configured:
        from tests.django_test_setup import setup_test_config
        setup_test_config({"autodiscover": False})
    import django_components.cache as cache_mod
    from django_components.app_settings import defaults
    saved, saved_cache = getattr(settings, "COMPONENTS", {}), cache_mod.template_cache
    try:
        for v in (0, 1, 3, None):
            settings.COMPONENTS = {"autodiscover": False} if v is None else {"autodiscover": False, "template_cache_size": v}
            cache_mod.template_cache = None
            got = cache_mod.get_template_cache()
            want = defaults.template_cache_size if v is None else v
            if got.maxsize != want:
                return {"confirmed": True, "function": "get_template_cache", "inputs": {"COMPONENTS.template_cache_size": v},
                        "expected": f"LRUCache(maxsize={want})", "observed": f"LRUCache(maxsize={got.maxsize})"}
            for k in range(5):
                got.set(("k", k), object())
            if want is not None and len(got.cache) > max(want, 0):
                return {"confirmed": True, "function": "get_template_cache", "inputs": {"COMPONENTS.template_cache_size": v},
                        "expected": f"at most {want} entries", "observed": f"{len(got.cache)} entries"}
    finally:
        settings.COMPONENTS = saved
        cache_mod.template_cache = saved_cache
    return {"confirmed": False}


def _f18a(w):
    from django.conf import settings
    if not settings.configured:
        from tests.django_test_setup import setup_test_config
        setup_test_config({"autodiscover": False})
    from django.template import Context, Engine, Template
    from django_components import cached_template
    e1, e2 = Engine(string_if_invalid="A"), Engine(string_if_invalid="B")
    src = "{{ missing_f18a }}"
    cached_template(src, engine=e1)
    return cached_template(src, engine=e2).render(Context()) != Template(src, engine=e2).render(Context())


FINDING_REPLAYS = {"F-C18a": _f18a}


@REG.replay(f"{TMOD}:cached_template")
def _replay_ct(model, ob):
    """native scenario over the clauses of the contract: repeated key -> identical object, result compiled from the request"""
    from django.conf import settings
    if not settings.configured:
        from tests.django_test_setup import setup_test_config
        setup_test_config({"autodiscover": False})
    import django_components.cache as cache_mod
    from django.template import Context, Template
    from django_components import cached_template
    saved = cache_mod.template_cache
    cache_mod.template_cache = None
    try:
        srcs = ["A{{ x }}", "B{{ x }}", "A{{ x }}" + "y" * 200, "A{{ x }}" + "y" * 199 + "z"]

        class T2(Template):
            pass
        for src in srcs:
            for cls in (None, T2):
                t1 = cached_template(src, template_cls=cls)
                t2 = cached_template(src, template_cls=cls)
                if t1 is not t2:
                    return {"confirmed": True, "function": "cached_template", "inputs": {"template_string": src, "template_cls": str(cls)},
                            "expected": "identical Template object for the repeated key", "observed": "two different objects"}
                if t1.source != src or type(t1) is not (cls or Template):
                    return {"confirmed": True, "function": "cached_template", "inputs": {"template_string": src, "template_cls": str(cls)},
                            "expected": f"a {(cls or Template).__name__} compiled from the requested source", "observed": f"{type(t1).__name__} compiled from {t1.source[:40]!r}..."}
                if t1.render(Context({"x": 1})) != Template(src).render(Context({"x": 1})):
                    return {"confirmed": True, "function": "cached_template", "inputs": {"template_string": src}, "expected": "output of compiling afresh", "observed": t1.render(Context({"x": 1}))[:60]}
    finally:
        cache_mod.template_cache = saved
    return {"confirmed": False}


def _lru_battery(model, ob):
    """every get / set / has / clear sequence up to length 5 over 3 keys, sizes None, 0, 1, 2, 3, on the real LRUCache, against a
    reference LRU (list, most recent first): results, membership, order of the linked list, dict <-> list agreement, bound"""
    import itertools
    from django_components.util.cache import LRUCache
    ops_ = [("get", k) for k in "abc"] + [("set", k) for k in "abc"] + [("has", "a"), ("clear", None)]
    for size in (None, 0, 1, 2, 3):
        for n in range(1, 6):
            for seq in itertools.product(ops_, repeat=n):
                if n == 5 and seq[0][0] != "set":
                    continue
                c = LRUCache(maxsize=size)
                ref = []           # [(key, value)], most recently used first
                for step, (op, k) in enumerate(seq):
                    if op == "get":
                        got = c.get(k)
                        hit = next((v for kk, v in ref if kk == k), None)
                        if hit is not None:
                            ref = [(k, hit)] + [e for e in ref if e[0] != k]
                        ok = got == hit
                    elif op == "set":
                        v = (k, step)
                        c.set(k, v)
                        if size is None or size > 0:
                            ref = [(k, v)] + [e for e in ref if e[0] != k]
                            if size is not None and len(ref) > size:
                                ref = ref[:size]
                        ok = True
                    elif op == "has":
                        ok = c.has(k) == any(kk == k for kk, _v in ref)
                    else:
                        c.clear()
                        ref = []
                        ok = True
                    order, node = [], c.head.next
                    while node is not c.tail and len(order) < 10:
                        order.append((node.key, node.value))
                        node = node.next
                    back, node = [], c.tail.prev
                    while node is not c.head and len(back) < 10:
                        back.append((node.key, node.value))
                        node = node.prev
                    if not ok or order != ref or back != ref[::-1] or set(c.cache) != {kk for kk, _v in ref} or any(c.cache[kk].key != kk for kk in c.cache):
                        return {"confirmed": True, "function": "LRUCache", "inputs": {"maxsize": size, "operations": [f"{o}({a})" if a else o for o, a in seq[:step + 1]]},
                                "expected": f"order (MRU first) {ref}", "observed": f"forward {order}, backward {back}, dict keys {sorted(c.cache)}, last result ok={ok}"}
    return {"confirmed": False}


for _m in ("__init__", "get", "set", "has", "clear", "_remove", "_add_to_front"):
    REG.replays[f"{MOD}:LRUCache.{_m}"] = _lru_battery


# =============================================================================================== Component._get_template
# The template of a component comes from exactly ONE source: get_template_name() (loaded by Django), get_template() /
# get_template_string() (a string -> cached_template of exactly that string; a Template object -> itself), or the class's
# `template` string (-> cached_template of exactly that string).  Two sources at once, or none, is ImproperlyConfigured.
COMPMOD = "django_components.component"
COMPOBJ = Obj("ComponentInstance")
from pyvc.contracts import Any_  # noqa: E402
from pyvc.types import TAny  # noqa: E402

PVS = TAny.sort()


def cls_template(s):
    """self.template (the class's template string, None when the class has none)"""
    return ops.uf("component_template_string", COMPOBJ.sort(), OSTR.sort())(s)


def hook_template_name(s):
    return ops.uf("component_get_template_name_result", COMPOBJ.sort(), OSTR.sort())(s)


def hook_template_body(s):
    """result of get_template_string / get_template: None, a str, or a Template object"""
    return ops.uf("component_get_template_result", COMPOBJ.sort(), PVS)(s)


def loaded_template(name):
    return ops.uf("django_get_template_template", S_, VALT.sort())(name)


def obj_template(v):
    """the Template object a non-str hook result is"""
    return ops.uf("template_object_of_value", PVS, VALT.sort())(v)


REG.stub(("getattr", "ComponentInstance", "template"), lambda run, obj, node: Val(OSTR, cls_template(obj.t)))
REG.stub(("getattr", "ComponentInstance", "template_file"), lambda run, obj, node: Val(OSTR, ops.uf("component_template_file", COMPOBJ.sort(), OSTR.sort())(obj.t)))
REG.stub(("getattr", "ComponentInstance", "name"), lambda run, obj, node: Val(TStr, ops.uf("component_name", COMPOBJ.sort(), S_)(obj.t)))
REG.stub(("getattr", "ComponentInstance", "__class__"), lambda run, obj, node: Val(TCLS, ops.uf("component_class_as_importable", COMPOBJ.sort(), TCLS.sort())(obj.t)))
REG.stub(("method", "ComponentInstance", "get_template_name"), lambda run, obj, args, kwargs, node: Val(OSTR, hook_template_name(obj.t)))
REG.stub("django.template.Origin", lambda run, args, kwargs, node: Val(TOpt(ANYOBJ), TOpt(ANYOBJ).some(z3.FreshConst(ANYOBJ.sort(), "origin"))))
REG.stub("django.template.base.Origin", lambda run, args, kwargs, node: Val(TOpt(ANYOBJ), TOpt(ANYOBJ).some(z3.FreshConst(ANYOBJ.sort(), "origin"))))
REG.stub(("coerce", "PyVal", "T"), lambda run, v, ty: Val(VALT, obj_template(v.t)))


def _template_getter(run, args, kwargs, node):
    s = run.call_frame.lookup("self")
    return Val(TAny, hook_template_body(s.t))


def _dyn_getattr_hook(run, args, kwargs, node):
    """getattr(self, "get_template_string", self.get_template): one of the two user hooks (which one does not matter here)"""
    return Conc(("obj_kind", "template_getter"))


def _django_get_template(run, args, kwargs, node):
    nm = run.coerce(args[0], TStr).t
    return Conc(("obj_kind", "backend_template", Val(VALT, loaded_template(nm))))


REG.stub("django.template.loader.get_template", _django_get_template)
REG.stub(("getattr", "conc:obj_kind:backend_template", "template"), lambda run, obj, node: obj.obj[2])


def _sources(c):
    s = c.old("self").t
    a = z3.Not(OSTR.is_none(cls_template(s)))
    b = z3.Not(OSTR.is_none(hook_template_name(s)))
    d = z3.Not(PVS.is_NoneV(hook_template_body(s)))
    return a, b, d


def _gt_conflict(c):
    a, b, d = _sources(c)
    return z3.Or(z3.And(a, b), z3.And(a, d), z3.And(b, d), z3.And(z3.Not(a), z3.Not(b), z3.Not(d)))


def _gt_post(c):
    s = c.old("self").t
    a, b, d = _sources(c)
    body = hook_template_body(s)
    res = c["result"].t
    tpl_global = c.run.globals["Template"].t
    from_string = lambda txt: tpl_key(res) == key_term(tpl_global, txt, OENG.none())
    return z3.And(
        z3.Implies(b, res == loaded_template(OSTR.get(hook_template_name(s)))),
        z3.Implies(z3.And(d, z3.Or(PVS.is_StrV(body), PVS.is_SafeV(body))), from_string(z3.If(PVS.is_StrV(body), PVS.s(body), PVS.ss(body)))),
        z3.Implies(z3.And(d, z3.Not(z3.Or(PVS.is_StrV(body), PVS.is_SafeV(body)))), res == obj_template(body)),
        z3.Implies(a, from_string(OSTR.get(cls_template(s)))))


REG.contract(
    f"{COMPMOD}:Component._get_template", prop=P, types={"context": ANYOBJ, "component_id": Str}, result=VALT, self_type=COMPOBJ, entry=_entry_ghost,
    globals=dict(TC_GLOBALS, Template=TCLS), calls={"getattr": _dyn_getattr_hook, "template_getter": _template_getter},
    locals={"template_body": Any_},
    requires=[_existing_cache_wf, _entries_compiled_from_their_key],
    modifies=["template_cache", f"{LRU}.maxsize", f"{LRU}.cache", f"{LRU}.head", f"{LRU}.tail", f"{NODE}.next", f"{NODE}.prev", f"{NODE}.key", f"{NODE}.value"],
    raises={"ImproperlyConfigured": _gt_conflict},
    ensures={"template_comes_from_exactly_one_source_unchanged": _gt_post,
             "accepted_only_with_exactly_one_source": lambda c: z3.Not(_gt_conflict(c)),
             "cache_stays_well_formed": lambda c: z3.And(_existing_cache_wf(c), _entries_compiled_from_their_key(c))},
)
