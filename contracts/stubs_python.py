"""ASSUMED contracts on the Python standard library (A-PY / A-RE).  Everything registered here is trusted,
tested by the differential (pyvc.selfcheck) and listed in each evidence file that used it."""
import re

import z3

from pyvc import ops
from pyvc.contracts import REG, Tup
from pyvc.interp import EngineError
from pyvc.regex2smt import Unsupported, translate
from pyvc.types import NONE, Conc, TBool, TInt, TOpt, TSeq, TStr, TTup, Val, VTuple, mk_bool, mk_int, mk_str

MATCH = Tup(TInt, TInt, TStr, tag="ReMatch", fields=["start", "end", "text"])

_FLAGS = {"DOTALL": re.DOTALL, "IGNORECASE": re.IGNORECASE, "ASCII": re.ASCII, "MULTILINE": re.MULTILINE, "VERBOSE": re.VERBOSE, "S": re.S, "I": re.I, "M": re.M, "X": re.X, "A": re.A}


def _flag_value(v):
    if isinstance(v, Conc) and isinstance(v.obj, tuple) and v.obj[0] == "ext" and v.obj[1].startswith("re."):
        return int(_FLAGS[v.obj[1][3:]])
    if isinstance(v, Conc) and isinstance(v.obj, tuple) and v.obj[0] == "flags":
        return v.obj[1]
    raise EngineError(f"regex flag {v}")


def re_compile(run, args, kwargs, node):
    pat = args[0]
    flags = 0
    if len(args) > 1:
        flags = _flag_value(args[1])
    if "flags" in kwargs:
        flags = _flag_value(kwargs["flags"])
    if isinstance(pat, Val) and pat.ty is TStr:
        s = z3.simplify(pat.t)
        if z3.is_string_value(s):
            txt = s.as_string()
            # z3 escapes non-printable chars as \u{..}
            txt = re.sub(r"\\u\{([0-9a-fA-F]+)\}", lambda m: chr(int(m.group(1), 16)), txt)
            return Conc(("regex", txt, flags, getattr(pat, "pykind", None) == "bytes"))
        return Conc(("regex_sym", pat, flags))
    raise EngineError("re.compile of a non-string")


REG.stub("re.compile", re_compile)


def regex_lang(rx):
    """z3 Re for the language of a regex constant; Unsupported propagates as EngineError('UNDECIDED...')."""
    _k, pat, flags, is_bytes = rx
    try:
        return translate(pat.encode("latin-1") if is_bytes else pat, flags)
    except Unsupported as e:
        raise EngineError(f"UNDECIDED: regex {pat!r} outside the translatable subset: {e}")


def regex_matches(run, rx, s, facts=None):
    """A-RE: `matches_<pattern>(s)` = the sequence re.finditer visits: increasing, non-overlapping, each a word of the
    pattern's language located where it says.  A function of (pattern, s): two scans of one string agree.
    (Completeness/leftmost-ness is NOT asserted; specs are stated relative to this recogniser.)"""
    import hashlib
    key = hashlib.md5(repr(rx).encode()).hexdigest()[:8]
    sty = TSeq(MATCH)
    f = ops.uf(f"re_matches_{key}", z3.StringSort(), sty.sort())
    M = f(s.t)
    done = run.__dict__.setdefault("_re_axioms", set())
    tag = (key, s.t.get_id())
    if tag not in done:
        done.add(tag)
        lang = regex_lang(rx)
        i = z3.FreshConst(z3.IntSort(), "mi")
        n = z3.Length(M)
        st = lambda k: MATCH.proj(M[k], 0)
        en = lambda k: MATCH.proj(M[k], 1)
        tx = lambda k: MATCH.proj(M[k], 2)
        nonempty = not _matches_empty(rx)
        rng = z3.And(0 <= i, i < n)
        ax1 = z3.ForAll([i], z3.Implies(rng, z3.And(
            0 <= st(i), (st(i) < en(i)) if nonempty else (st(i) <= en(i)), en(i) <= z3.Length(s.t),
            tx(i) == z3.SubString(s.t, st(i), en(i) - st(i)),
            # language membership, or (when the contract supplies them) language facts proved as separate lemmas
            z3.And(*[f(tx(i)) for f in facts]) if facts else z3.InRe(tx(i), lang))))
        ax2 = z3.ForAll([i], z3.Implies(z3.And(0 <= i, i + 1 < n), en(i) <= st(i + 1)))
        for ax in (ax1, ax2):
            run.pc.append(ax)
            run.solver_add(ax)
    return Val(sty, M)


def finditer(run, obj, args, kwargs, node):
    return regex_matches(run, obj.obj, run.coerce(args[0], TStr))


def _matches_empty(rx):
    _k, pat, flags, is_bytes = rx
    return re.compile(pat, flags).fullmatch("") is not None


REG.stub(("method", "conc:regex", "finditer"), finditer)


def match_getitem(run, base, key, node):
    k = z3.simplify(run.coerce(key, TInt).t)
    if z3.is_int_value(k) and k.as_long() == 0:
        return Val(TStr, MATCH.proj(base.t, 2))
    raise EngineError("match[n] for n != 0 is not modelled")


REG.stub(("getitem", "ReMatch"), match_getitem)
REG.stub(("method", "ReMatch", "start"), lambda run, obj, args, kwargs, node: Val(TInt, MATCH.proj(obj.t, 0)))
REG.stub(("method", "ReMatch", "end"), lambda run, obj, args, kwargs, node: Val(TInt, MATCH.proj(obj.t, 1)))
REG.stub(("method", "ReMatch", "group"), lambda run, obj, args, kwargs, node: match_getitem(run, obj, args[0] if args else mk_int(0), node))


# ---------------------------------------------------------------------------------------------------------------
# Compiled patterns whose source is SYMBOLIC (built at run time from a setting).  A pattern value is either
#   literal-suffix:  compiled from  re.escape(lit) + "$"  (end_nl=True: `$` also matches before a final "\n")
#                                or re.escape(lit) + r"\Z" (end_nl=False)
#   opaque:          a user-supplied compiled pattern; only `rx_search(id, s)` is known about it
# re.compile on any OTHER symbolic source is outside what the stub can give a meaning to: the call site then
# carries the obligation  pre@re.compile#pattern_is_escaped_literal  (refuted unless unreachable).
PATTERN = Tup(TBool, TStr, TBool, TInt, tag="Pattern", fields=["is_lit", "lit", "end_nl", "id"])
_S = z3.StringSort()


def re_escape_uf(s):
    return ops.uf("re_escape", _S, _S)(s)


REG.stub("re.escape", lambda run, args, kwargs, node: Val(TStr, re_escape_uf(run.coerce(args[0], TStr).t)))


def rx_search(pid, s):
    return ops.uf("rx_search", z3.IntSort(), _S, z3.BoolSort())(pid, s)


def pattern_found(p, s):
    lit, nl = PATTERN.proj(p, 1), PATTERN.proj(p, 2)
    return z3.If(PATTERN.proj(p, 0),
                 z3.Or(z3.SuffixOf(lit, s), z3.And(nl, z3.SuffixOf(z3.Concat(lit, z3.StringVal("\n")), s))),
                 rx_search(PATTERN.proj(p, 3), s))


def _concat_parts(t):
    if z3.is_app(t) and t.decl().kind() == z3.Z3_OP_SEQ_CONCAT:
        out = []
        for c in t.children():
            out.extend(_concat_parts(c))
        return out
    return [t]


def compile_symbolic(run, pat, flags, node):
    parts = _concat_parts(z3.simplify(pat.t))
    if len(parts) == 2 and z3.is_app(parts[0]) and parts[0].decl().name() == "re_escape" and z3.is_string_value(parts[1]) and flags == 0:
        tail = parts[1].as_string()
        if tail in ("$", "\\Z"):
            return Val(PATTERN, PATTERN.mk(z3.BoolVal(True), parts[0].arg(0), z3.BoolVal(tail == "$"), z3.IntVal(0)))
    run.oblige("pre@re.compile#pattern_is_escaped_literal", z3.BoolVal(False), kind="pre",
               note=f"re.compile({pat.t}) at line {getattr(node, 'lineno', '?')}: the stub only knows the meaning of re.escape(lit)+'$' / re.escape(lit)+r'\\Z'; "
                    "any other run-time pattern may contain unescaped metacharacters")
    return Val(PATTERN, PATTERN.fresh("pattern"))


_old_re_compile = re_compile


def re_compile2(run, args, kwargs, node):
    r = _old_re_compile(run, args, kwargs, node)
    if isinstance(r, Conc) and r.obj[0] == "regex_sym":
        return compile_symbolic(run, r.obj[1], r.obj[2], node)
    return r


REG.stub("re.compile", re_compile2)


def _pattern_search(run, obj, args, kwargs, node):
    """Pattern.search(s): a match object (truthy, not None) or None."""
    from pyvc.types import TRef
    s = run.coerce(args[0], TStr)
    return Val(TRef("ReMatchObj"), z3.If(pattern_found(obj.t, s.t), 1, 0))


REG.stub(("method", "Pattern", "search"), _pattern_search)


def _re_sub(run, args, kwargs, node):
    """re.sub(pattern, repl, s) for a CONSTANT pattern that is one negated character class and a literal replacement:
    every character outside the class is replaced, so the result consists of class characters and the replacement."""
    from pyvc.regex2smt import class_intervals, _intervals_to_re, sre_parse, sre_c
    pat, repl = z3.simplify(run.coerce(args[0], TStr).t), z3.simplify(run.coerce(args[1], TStr).t)
    s = run.coerce(args[2], TStr).t
    if not (z3.is_string_value(pat) and z3.is_string_value(repl)) or len(args) > 3 or kwargs:
        raise EngineError("re.sub with a non-constant pattern / replacement / flags is not modelled")
    parsed = list(sre_parse.parse(pat.as_string()))
    if len(parsed) != 1 or parsed[0][0] is not sre_c.IN or parsed[0][1][0][0] is not sre_c.NEGATE:
        raise EngineError(f"re.sub pattern {pat.as_string()!r} is not a single negated character class")
    keep = class_intervals(parsed[0][1][1:], 0, False)       # the characters that are NOT replaced
    import hashlib
    r = ops.uf("re_sub_" + hashlib.md5((pat.as_string() + "|" + repl.as_string()).encode()).hexdigest()[:8], _S, _S)(s)
    run.assume(z3.InRe(r, z3.Star(z3.Union(_intervals_to_re(keep), z3.Re(repl)))))
    run.assume(z3.Length(r) >= 0)
    return Val(TStr, r)


REG.stub("re.sub", _re_sub)


# ---------------------------------------------------------------------------------------------------------------
# CONSTANT pattern .search(s): A-RE - a match object is returned exactly when some substring of s is a word of the
# pattern's language (translated from the source; anchors / look-around are outside the translatable subset -> UNDECIDED)
OMATCH = TOpt(MATCH)


def const_search(run, obj, args, kwargs, node):
    s = run.coerce(args[0], TStr).t
    lang = regex_lang(obj.obj)
    m = z3.FreshConst(OMATCH.sort(), "re_search")
    found = z3.InRe(s, z3.Concat(z3.Full(z3.ReSort(z3.StringSort())), lang, z3.Full(z3.ReSort(z3.StringSort()))))
    g = OMATCH.get(m)
    st, en, tx = MATCH.proj(g, 0), MATCH.proj(g, 1), MATCH.proj(g, 2)
    run.assume(z3.And(OMATCH.is_none(m) == z3.Not(found),
                      z3.Implies(z3.Not(OMATCH.is_none(m)), z3.And(0 <= st, st <= en, en <= z3.Length(s), tx == z3.SubString(s, st, en - st), z3.InRe(tx, lang)))))
    return Val(OMATCH, m)


REG.stub(("method", "conc:regex", "search"), const_search)


# contextlib.nullcontext(): a context manager that does nothing
REG.stub("contextlib.nullcontext", lambda run, args, kwargs, node: Conc(("cm", (lambda: (args[0] if args else NONE)), (lambda exc: False))))

REG.stub(("method", "ReMatch", "span"), lambda run, obj, args, kwargs, node: VTuple([Val(TInt, MATCH.proj(obj.t, 0)), Val(TInt, MATCH.proj(obj.t, 1))]))


# type(x).__name__ (only ever used to build messages): an opaque class object with an arbitrary name
REG.stub(("builtin", "type"), lambda run, args, kwargs, node: Conc(("obj_kind", "typeof")))
REG.stub(("getattr", "conc:obj_kind:typeof", "__name__"), lambda run, obj, node: Val(TStr, z3.FreshConst(z3.StringSort(), "type_name")))
