"""C02 - flags of a tag: _extract_flags separates the reserved flag words from the other attributes.

From the property ("flags"; "exactly the positional and keyword values its arguments denote"): every attribute WITHOUT a key
whose text is a reserved flag word is removed from the attribute list and turns that flag on; all other attributes - in
particular a keyword argument whose value happens to be spelled like a flag (`mode=only` denotes the keyword `mode` with the
value of the variable `only`) - stay, in order; every allowed flag has a value (False unless given); a flag given twice or spread
is a TemplateSyntaxError.
(An earlier version of this contract defined "is a flag" by the text with the key omitted - the code's own choice, not the
property's - and thereby encoded a defect: known_findings, fixed C02.)
"""
import z3

from pyvc import ops
from pyvc.contracts import REG, Bool, Dict, Int, Loop, Obj, Seq, Set, Str, Tup
from pyvc.types import TBool, TStr, Val

P = "C02"
TT = "django_components.util.template_tag"
S, I, B = z3.StringSort(), z3.IntSort(), z3.BoolSort()
ATTR = Obj("TagAttr")
ATTRS = Seq(ATTR)
FLAGS = Seq(Str)
FDICT = Dict(Str, Bool)


def text(a):
    """attr.serialize(omit_key=True)"""
    return ops.uf("tag_attr_value_text", ATTR.sort(), S)(a)


def spread(a):
    return ops.uf("tag_attr_value_spread", ATTR.sort(), B)(a)


def has_key(a):
    return ops.uf("tag_attr_has_key", ATTR.sort(), B)(a)


def key_text(a):
    return ops.uf("tag_attr_key_text", ATTR.sort(), S)(a)


from pyvc.contracts import Opt as _Opt          # noqa: E402
_OS = _Opt(Str)
REG.stub(("getattr", "TagAttr", "key"), lambda run, obj, node: Val(_OS, z3.If(has_key(obj.t), _OS.some(key_text(obj.t)), _OS.none())))


REG.stub(("method", "TagAttr", "serialize"), lambda run, obj, args, kwargs, node: Val(TStr, text(obj.t)))
REG.stub(("getattr", "TagAttr", "value"), lambda run, obj, node: __import__("pyvc.types", fromlist=["Conc"]).Conc(("obj_kind", "tagvalue_of", obj)))
REG.stub(("getattr", "conc:obj_kind:tagvalue_of", "spread"), lambda run, obj, node: Val(TBool, spread(obj.obj[2].t)))


def _is_flag(c, a):
    return z3.And(z3.Not(has_key(a)), z3.Contains(c.old("allowed_flags").t, z3.Unit(text(a))))


def _kept():
    return z3.Function("ef_kept_upto", I, ATTRS.sort())


def _entry(run, fr):
    attrs, allowed = fr.vars["attrs"].t, fr.vars["allowed_flags"].t
    kept = _kept()
    i = z3.FreshConst(I, "i")
    isf = z3.And(z3.Not(has_key(attrs[i])), z3.Contains(allowed, z3.Unit(text(attrs[i]))))
    for ax in (kept(0) == z3.Empty(ATTRS.sort()),
               z3.ForAll([i], z3.Implies(z3.And(0 <= i, i < z3.Length(attrs)), kept(i + 1) == z3.If(isf, kept(i), z3.Concat(kept(i), z3.Unit(attrs[i])))))):
        run.pc.append(ax)


def _inv(c):
    attrs = c.old("attrs").t
    i = c["_i0"].t
    j = z3.Const("bv_j", I)
    f = z3.Const("bv_f", S)
    found = c["found_flags"].t
    SS = Set(Str)
    return z3.And(
        c["remaining_attrs"].t == _kept()(i),
        # found = the flag words met so far, none of them spread, none twice
        z3.ForAll([f], z3.Select(SS.has(found), f) == z3.Exists([j], z3.And(0 <= j, j < i, text(attrs[j]) == f, _is_flag(c, attrs[j])))),
        z3.ForAll([j], z3.Implies(z3.And(0 <= j, j < i, _is_flag(c, attrs[j])), z3.Not(spread(attrs[j])))),
        z3.ForAll([j, z3.Const("bv_k", I)], z3.Implies(z3.And(0 <= z3.Const("bv_k", I), z3.Const("bv_k", I) < j, j < i, _is_flag(c, attrs[j])),
                                                      z3.Or(has_key(attrs[z3.Const("bv_k", I)]), text(attrs[z3.Const("bv_k", I)]) != text(attrs[j])))),
    )


def _post(c):
    attrs, allowed = c.old("attrs").t, c.old("allowed_flags").t
    rem, fd = c["result"].t, None
    f = z3.Const("bv_f", S)
    j = z3.Const("bv_j", I)
    R = c["result"]
    RT = R.ty
    rem, fd = RT.proj(R.t, 0), RT.proj(R.t, 1)
    given = z3.Exists([j], z3.And(0 <= j, j < z3.Length(attrs), z3.Not(has_key(attrs[j])), text(attrs[j]) == f))
    return z3.And(
        rem == _kept()(z3.Length(attrs)),
        z3.ForAll([f], z3.Select(FDICT.has(fd), f) == z3.Contains(allowed, z3.Unit(f))),
        z3.ForAll([f], z3.Implies(z3.Contains(allowed, z3.Unit(f)), z3.Select(FDICT.val(fd), f) == given)))


def _bad(c):
    """some flag word is spread, or occurs twice"""
    attrs = c.old("attrs").t
    j, k = z3.Const("bv_j", I), z3.Const("bv_k", I)
    n = z3.Length(attrs)
    return z3.Exists([j], z3.And(0 <= j, j < n, _is_flag(c, attrs[j]),
                                 z3.Or(spread(attrs[j]), z3.Exists([k], z3.And(0 <= k, k < j, z3.Not(has_key(attrs[k])), text(attrs[k]) == text(attrs[j]))))))


REG.contract(
    f"{TT}:_extract_flags", prop=P, types={"tag_name": Str, "attrs": ATTRS, "allowed_flags": FLAGS}, result=Tup(ATTRS, FDICT), entry=_entry,
    locals={"found_flags": Set(Str), "remaining_attrs": ATTRS, "flags_dict": FDICT},
    modifies=[], raises={"TemplateSyntaxError": _bad},
    loops={0: Loop(inv=[_inv], variant="len(attrs) - _i0")},
    ensures={"flags_on_exactly_when_given_and_other_attributes_kept_in_order": _post,
             "accepted_only_without_spread_or_repeated_flags": lambda c: z3.Not(_bad(c))},
)


@REG.replay(f"{TT}:_extract_flags")
def _replay_extract_flags(model, ob):
    """every tag of up to 3 attributes over {a, k=1, only, deep, ...only (spread), k=only, m=deep} parsed by the real parse_tag and split by the
    real _extract_flags with allowed flags [only, deep], against the specification computed directly"""
    import itertools
    from django.conf import settings
    if not settings.configured:
        from tests.django_test_setup import setup_test_config
        setup_test_config({"autodiscover": False})
    from django.template import Engine
    from django.template.base import Parser
    from django.template.exceptions import TemplateSyntaxError
    from django_components.util.tag_parser import parse_tag
    from django_components.util.template_tag import _extract_flags
    eng = Engine.get_default()
    words = ["a", "k=1", "only", "deep", "...only", "k=only", "m=deep"]
    allowed = ["only", "deep"]
    for n in range(0, 4):
        for combo in itertools.product(words, repeat=n):
            parser = Parser([], eng.template_libraries, eng.template_builtins)
            _tag, attrs = parse_tag("t " + " ".join(combo), parser)
            attrs = attrs[1:] if attrs and attrs[0].serialize(omit_key=True) == "t" else attrs
            texts = [a.serialize(omit_key=True) for a in attrs]
            full = [a.serialize() for a in attrs]
            flags_seen = [(t, a.value.spread) for t, a in zip(texts, attrs) if t in allowed and a.key is None]
            bad = any(sp for _t, sp in flags_seen) or len({t for t, _sp in flags_seen}) != len(flags_seen)
            want = None if bad else ([t for t in full if t not in allowed], {f: (f in full) for f in allowed})
            try:
                rem, fd = _extract_flags("t", attrs, allowed)
                got = ([a.serialize() for a in rem], dict(fd))
            except TemplateSyntaxError:
                got = None
            if got != want:
                return {"confirmed": True, "function": "_extract_flags", "inputs": {"tag": "t " + " ".join(combo), "allowed_flags": allowed},
                        "expected": "TemplateSyntaxError" if want is None else repr(want), "observed": "TemplateSyntaxError" if got is None else repr(got)}
    return {"confirmed": False}
