"""C02 - aggregation of prefixed keyword arguments (`attrs:class="x"`): process_aggregate_kwargs.

From the property ("aggregation"): positional params and plain keyword params stay where they are, in order, as the caller's
own objects; every group of `outer:inner=value` params becomes ONE new param `outer` (appended after all others, groups in order
of first appearance) whose value is the dict {inner: value} with the LAST value winning for a repeated inner key; a key that is
used both plainly and as a group prefix is a TemplateSyntaxError; the caller's params are not modified.
"""
import z3

import contracts.c13b as c13b
from pyvc import ops
from pyvc.contracts import REG, Any_, Dict, Int, Loop, Opt, Ref, Seq, Set, Str
from pyvc.types import TAny, TDict, TInt, TOpt, TRef, TStr, Val, VTuple

P = "C02"
EXP = "django_components.expression"
S, I, B = z3.StringSort(), z3.IntSort(), z3.BoolSort()
PV = TAny.sort()
OS = TOpt(TStr)
TP = c13b.TP
PARAMS = c13b.PARAMS
INNER = Dict(Str, Any_)
NESTED = TDict(TStr, INNER, ordered=True)
COLON = z3.StringVal(":")


def is_agg(k):
    return z3.And(z3.Contains(k, COLON), z3.Not(z3.PrefixOf(COLON, k)))


def outer_text(k):
    return z3.SubString(k, 0, z3.IndexOf(k, COLON, 0))


def inner_text(k):
    p = z3.IndexOf(k, COLON, 0)
    return z3.SubString(k, p + 1, z3.Length(k) - p - 1)


# outer_of(k) / inner_of(k): the text before the first ':' of k / the rest.  They are introduced as function symbols whose
# DEFINITION (outer_text / inner_text) is unfolded only for the key at hand (in the split stub): the bookkeeping invariants
# then contain no string operations at all.
def outer_of(k):
    return ops.uf("agg_outer_of_key", S, S)(k)


def inner_of(k):
    return ops.uf("agg_inner_of_key", S, S)(k)


def dict_obj(d):
    """the Python dict object holding the mapping d, as an opaque value (its identity does not matter to the property)"""
    return PV.ObjV(ops.uf("dict_object_of", INNER.sort(), I)(d))


REG.stub(("coerce", INNER.name, "PyVal"), lambda run, v, ty: Val(TAny, dict_obj(v.t)))


def _split_colon(run, args, kwargs, node):
    """param.key.split(":", 1) for a key that contains ':' (guarded by is_aggregate_key): [text before the first ':', the rest]"""
    key = run.call_frame.lookup("param")
    k = OS.get(run.load_field(key.t, TP, "key").t)
    run.oblige("pre@split#key_contains_a_colon", z3.Contains(k, COLON), kind="pre", note="split(':', 1) is unpacked into two names")
    run.assume(z3.And(outer_of(k) == outer_text(k), inner_of(k) == inner_text(k)))      # definitional unfolding at this key (A-PY: str.split)
    return VTuple([Val(TStr, outer_of(k)), Val(TStr, inner_of(k))])


def _key(c, r, old=False):
    return z3.Select(c.field(TP, "key", old), r)


def _val(c, r, old=False):
    return z3.Select(c.field(TP, "value", old), r)


# ---- _check_kwargs_for_agg_conflict: its two conditions can never hold (an aggregate key contains ':' not at the start, a
# regular key does not) - proved: it never raises and changes nothing
def _conflict_inv(c):
    k = z3.Const("bv_k", S)
    SS = Set(Str)
    return z3.And(z3.ForAll([k], z3.Implies(z3.Select(SS.has(c["seen_regular_kwargs"].t), k), z3.Not(is_agg(k)))),
                  z3.ForAll([k], z3.Implies(z3.Select(SS.has(c["seen_agg_kwargs"].t), k), is_agg(k))))


REG.contract(
    f"{EXP}:_check_kwargs_for_agg_conflict", prop=P, types={"params": PARAMS},
    locals={"seen_regular_kwargs": Set(Str), "seen_agg_kwargs": Set(Str)},
    requires=[c13b._wf_params], modifies=[], raises={},
    loops={0: Loop(inv=[_conflict_inv], variant="len(params) - _i0")},
    ensures={},
)


# ---- spec functions over the prefix params[0..i)
def _sf():
    return {"kept": z3.Function("agg_kept", I, PARAMS.sort()),
            "seen": z3.Function("agg_seen_regular", I, S, B),
            "oorder": z3.Function("agg_outer_order", I, z3.SeqSort(S)),
            "ohas": z3.Function("agg_outer_has", I, S, B),
            "opos": z3.Function("agg_outer_pos", I, S, I),
            "ihas": z3.Function("agg_inner_has", I, S, S, B),
            "ival": z3.Function("agg_inner_val", I, S, S, PV)}


def _entry(run, fr):
    params = fr.vars["params"].t
    f = _sf()
    i = z3.FreshConst(I, "i")
    k, o, ik = z3.FreshConst(S, "k"), z3.FreshConst(S, "o"), z3.FreshConst(S, "ik")
    key0 = lambda j: z3.Select(run.field_array(TP, "key"), params[j])
    val0 = lambda j: z3.Select(run.field_array(TP, "value"), params[j])
    rng = z3.And(0 <= i, i < z3.Length(params))
    is_kw = z3.Not(OS.is_none(key0(i)))
    kk = OS.get(key0(i))
    agg = z3.And(is_kw, is_agg(kk))
    reg = z3.And(is_kw, z3.Not(is_agg(kk)))
    for ax in (
        f["kept"](0) == z3.Empty(PARAMS.sort()), f["oorder"](0) == z3.Empty(z3.SeqSort(S)),
        z3.ForAll([k], z3.Not(f["seen"](0, k))), z3.ForAll([o, ik], z3.Not(f["ihas"](0, o, ik))), z3.ForAll([o], z3.Not(f["ohas"](0, o))),
        z3.ForAll([i, o], z3.Implies(rng, z3.And(
            f["ohas"](i + 1, o) == z3.Or(f["ohas"](i, o), z3.And(agg, outer_of(kk) == o)),
            f["opos"](i + 1, o) == z3.If(z3.And(agg, outer_of(kk) == o, z3.Not(f["ohas"](i, o))), z3.Length(f["oorder"](i)), f["opos"](i, o))))),
        z3.ForAll([i], z3.Implies(rng, z3.And(
            f["kept"](i + 1) == z3.If(agg, f["kept"](i), z3.Concat(f["kept"](i), z3.Unit(params[i]))),
            f["oorder"](i + 1) == z3.If(z3.And(agg, z3.Not(f["ohas"](i, outer_of(kk)))),
                                        z3.Concat(f["oorder"](i), z3.Unit(outer_of(kk))), f["oorder"](i))))),
        # element-wise consequences of the definition of oorder (so that positions need no concat reasoning)
        z3.ForAll([i], z3.Implies(rng, z3.And(
            z3.Length(f["oorder"](i + 1)) == z3.Length(f["oorder"](i)) + z3.If(z3.And(agg, z3.Not(f["ohas"](i, outer_of(kk)))), 1, 0),
            z3.Implies(z3.And(agg, z3.Not(f["ohas"](i, outer_of(kk)))), f["oorder"](i + 1)[z3.Length(f["oorder"](i))] == outer_of(kk))))),
        z3.ForAll([i, z3.Const("bv_q0", I)], z3.Implies(z3.And(rng, 0 <= z3.Const("bv_q0", I), z3.Const("bv_q0", I) < z3.Length(f["oorder"](i))),
                                                       f["oorder"](i + 1)[z3.Const("bv_q0", I)] == f["oorder"](i)[z3.Const("bv_q0", I)])),
        z3.ForAll([i, k], z3.Implies(rng, f["seen"](i + 1, k) == z3.Or(f["seen"](i, k), z3.And(reg, kk == k)))),
        z3.ForAll([i, o, ik], z3.Implies(rng, z3.And(
            f["ihas"](i + 1, o, ik) == z3.Or(f["ihas"](i, o, ik), z3.And(agg, outer_of(kk) == o, inner_of(kk) == ik)),
            f["ival"](i + 1, o, ik) == z3.If(z3.And(agg, outer_of(kk) == o, inner_of(kk) == ik), val0(i), f["ival"](i, o, ik))))),
    ):
        run.pc.append(ax)


def _order_wf(i):
    """oorder(i) enumerates exactly the outer keys seen so far, each at its own position (hence once)"""
    f = _sf()
    o, q = z3.Const("bv_o", S), z3.Const("bv_q", I)
    oo = f["oorder"](i)
    ik = z3.Const("bv_ik", S)
    return z3.And(z3.ForAll([o, ik], z3.Implies(f["ihas"](i, o, ik), f["ohas"](i, o))),
                  z3.ForAll([o], z3.Implies(f["ohas"](i, o), z3.And(0 <= f["opos"](i, o), f["opos"](i, o) < z3.Length(oo), oo[f["opos"](i, o)] == o))),
                  # (that every listed key is a key of the dict - ohas(i, oo[q]) - is a typing invariant of ordered dicts, see ops.wf_conds)
                  z3.ForAll([q], z3.Implies(z3.And(0 <= q, q < z3.Length(oo)), f["opos"](i, oo[q]) == q)))


def _unchanged(c):
    r = z3.Const("bv_r", I)
    return z3.ForAll([r], z3.Implies(z3.And(0 < r, r < z3.Int("next_ref0")), z3.And(_key(c, r) == _key(c, r, True), _val(c, r) == _val(c, r, True))))


def _nested_matches(c, i):
    f = _sf()
    nested = c["nested_kwargs"].t
    o, ik = z3.Const("bv_o", S), z3.Const("bv_ik", S)
    inner = z3.Select(NESTED.val(nested), o)
    return z3.And(
        NESTED.order(nested) == f["oorder"](i),
        z3.ForAll([o], z3.Select(NESTED.has(nested), o) == f["ohas"](i, o)),
        z3.ForAll([o, ik], z3.Implies(z3.Select(NESTED.has(nested), o), z3.And(
            z3.Select(INNER.has(inner), ik) == f["ihas"](i, o, ik),
            z3.Implies(f["ihas"](i, o, ik), z3.Select(INNER.val(inner), ik) == f["ival"](i, o, ik))))))


def _inv1(c):
    f = _sf()
    i = c["_i0"].t
    k = z3.Const("bv_k", S)
    return z3.And(c["processed_params"].t == f["kept"](i),
                  z3.ForAll([k], z3.Select(Set(Str).has(c["seen_keys"].t), k) == f["seen"](i, k)),
                  _nested_matches(c, i), _order_wf(i), _unchanged(c),
                  z3.Length(f["kept"](i)) <= i)


def _groups_appended(c, res, j):
    """res = kept(n) followed by one NEW param per group among the first j groups"""
    f = _sf()
    n = z3.Length(c.old("params").t)
    kept, oo = f["kept"](n), f["oorder"](n)
    base = z3.Length(kept)
    q, ik = z3.Const("bv_q", I), z3.Const("bv_ik", S)
    obj = res[base + q]
    o = oo[q]
    dct = ops.uf("dict_object_inverse", I, INNER.sort())(PV.o(_val(c, obj)))
    return z3.And(
        z3.Length(res) == base + j, z3.Extract(res, 0, base) == kept,
        z3.ForAll([q], z3.Implies(z3.And(0 <= q, q < j), z3.And(
            obj >= z3.Int("next_ref0"), obj < c.run.next_ref, _key(c, obj) == OS.some(o), z3.Not(f["seen"](n, o))))),
        z3.ForAll([q, ik], z3.Implies(z3.And(0 <= q, q < j), z3.And(
            PV.is_ObjV(_val(c, obj)),
            z3.Select(INNER.has(dct), ik) == f["ihas"](n, o, ik),
            z3.Implies(f["ihas"](n, o, ik), z3.Select(INNER.val(dct), ik) == f["ival"](n, o, ik))))))


def _inv2(c):
    f = _sf()
    n = z3.Length(c.old("params").t)
    k = z3.Const("bv_k", S)
    return z3.And(_groups_appended(c, c["processed_params"].t, c["_i1"].t),
                  z3.ForAll([k], z3.Select(Set(Str).has(c["seen_keys"].t), k) == f["seen"](n, k)),
                  _nested_matches(c, n), _order_wf(n), _unchanged(c))


def _conflict(c):
    f = _sf()
    n = z3.Length(c.old("params").t)
    q = z3.Const("bv_q", I)
    return z3.Exists([q], z3.And(0 <= q, q < z3.Length(f["oorder"](n)), f["seen"](n, f["oorder"](n)[q])))


def _dict_obj_axiom(run, fr):
    _entry(run, fr)
    d = z3.FreshConst(INNER.sort(), "d")
    # the dict object of a mapping holds that mapping (A-PY)
    run.pc.append(z3.ForAll([d], ops.uf("dict_object_inverse", I, INNER.sort())(ops.uf("dict_object_of", INNER.sort(), I)(d)) == d))


REG.contract(
    f"{EXP}:process_aggregate_kwargs", prop=P, types={"params": PARAMS}, result=PARAMS, entry=_dict_obj_axiom,
    calls={"param.key.split": _split_colon},
    locals={"processed_params": PARAMS, "seen_keys": Set(Str), "nested_kwargs": NESTED},
    requires=[c13b._wf_params], modifies=[f"{TP}.key", f"{TP}.value"],
    raises={"TemplateSyntaxError": _conflict},
    loops={0: Loop(inv=[_inv1], variant="len(params) - _i0"), 1: Loop(inv=[_inv2], variant="len(_seq1) - _i1")},
    ensures={"plain_params_kept_and_one_new_param_per_group_with_the_last_values": lambda c: _groups_appended(c, c["result"].t, z3.Length(_sf()["oorder"](z3.Length(c.old("params").t)))),
             "callers_params_not_modified": _unchanged,
             "accepted_only_without_a_key_used_both_ways": lambda c: z3.Not(_conflict(c))},
)


@REG.replay(f"{EXP}:process_aggregate_kwargs")
def _replay_agg(model, ob):
    """every parameter list up to length 4 over positional, plain keys a / b and prefixed keys a:x, a:y, b:x on the real function
    against the specification computed directly (values are distinct objects so that identity can be checked)"""
    import itertools
    from django.conf import settings
    if not settings.configured:
        from tests.django_test_setup import setup_test_config
        setup_test_config({"autodiscover": False})
    from django.template.exceptions import TemplateSyntaxError
    from django_components.expression import process_aggregate_kwargs
    from django_components.util.template_tag import TagParam
    keys = [None, "a", "b", "a:x", "a:y", "b:x", ":c"]
    for n in range(0, 5):
        for combo in itertools.product(keys, repeat=n):
            if n == 4 and combo[0] is None:
                continue
            objs = [TagParam(k, ("v", j)) for j, k in enumerate(combo)]
            snapshot = [(o.key, o.value) for o in objs]
            plain = {k for k in combo if k is not None and not (":" in k and not k.startswith(":"))}
            groups = {}
            for o in objs:
                if o.key is not None and ":" in o.key and not o.key.startswith(":"):
                    outer, inner = o.key.split(":", 1)
                    groups.setdefault(outer, {})[inner] = o.value
            want = None if any(g in plain for g in groups) else ([o for o in objs if o.key is None or o.key in plain], groups)
            try:
                res = process_aggregate_kwargs(objs)
                kept_n = len(res) - len(groups)
                got = (res[:kept_n], {p.key: p.value for p in res[kept_n:]}) if want is not None else ("returned",)
                same = want is not None and all(a is b for a, b in zip(got[0], want[0])) and len(got[0]) == len(want[0]) and got[1] == want[1] and [p.key for p in res[kept_n:]] == list(groups)
            except TemplateSyntaxError:
                got, same = None, want is None
            if not same or [(o.key, o.value) for o in objs] != snapshot:
                return {"confirmed": True, "function": "process_aggregate_kwargs", "inputs": {"param keys": list(combo)},
                        "expected": "TemplateSyntaxError" if want is None else f"kept {[o.key for o in want[0]]} then groups {want[1]}",
                        "observed": "TemplateSyntaxError" if got is None else repr(got)[:300]}
    return {"confirmed": False}
