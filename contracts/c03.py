"""C03 - variable scoping follows the configured context behaviour.

PROVED: what an isolated context copy can see (make_isolated_context_copy, _copy_forloop_context) and that the caller's
Context is left exactly as it was.  Context = list of dict layers, lookup from the top (stubs_django).
"""
import z3

from contracts.stubs_django import BUILTINS, CTX, LAYER, LAYERS, ctx_axioms, ctx_idx, dicts_of, layer_has, layer_val, lookup, visible
from pyvc import ops
from pyvc.contracts import REG, Any_, Bool, Dict, Int, Loop, Obj, Opt, Ref, Seq, Str, Tup
from pyvc.types import NONE, Conc, TAny, TBool, TInt, TOpt, TSeq, TStr, Val

P = ("C03", "C05")
MOD = "django_components.context"
S, I = z3.StringSort(), z3.IntSort()
COMPKEY = z3.StringVal("_DJC_COMPONENT_CTX")
INJECT = z3.StringVal("_DJC_INJECT__")
FORLOOP = z3.StringVal("forloop")
OI = TOpt(TInt)


def D(c, name, old=False):
    return z3.Select(c.field(CTX, "dicts", old), c[name].t if not old else c.old(name).t)


# ---- get_last_index(lst, key): ASSUMED contract of the 6-line generic helper (its `key` is a callable parameter)
def _get_last_index(run, args, kwargs, node):
    """index of the LAST layer for which `"forloop" in d` holds, or None (the only call site passes that lambda)"""
    lst = run.coerce(args[0], LAYERS).t
    n = z3.Length(lst)
    r = z3.FreshConst(OI.sort(), "last_index")
    j = z3.FreshConst(I, "j")
    has = lambda k: z3.Select(LAYER.has(lst[k]), FORLOOP)
    for ax in (z3.Implies(OI.is_none(r), z3.ForAll([j], z3.Implies(z3.And(0 <= j, j < n), z3.Not(has(j))))),
               z3.Implies(z3.Not(OI.is_none(r)), z3.And(0 <= OI.get(r), OI.get(r) < n, has(OI.get(r)),
                                                        z3.ForAll([j], z3.Implies(z3.And(OI.get(r) < j, j < n), z3.Not(has(j))))))):
        run.pc.append(ax)
        run.solver_add(ax)
    return Val(OI, r)


# ================================================================================================ _copy_forloop_context
def _pushes_at_most_the_forloop_layer(c):
    d_from = D(c, "from_context", True)
    d0, d1 = D(c, "to_context", True), D(c, "to_context")
    L = z3.Const("bv_L", LAYER.sort())
    return z3.Or(d1 == d0, z3.Exists([L], z3.And(d1 == z3.Concat(d0, z3.Unit(L)), z3.Contains(d_from, z3.Unit(L)))))


REG.contract(
    f"{MOD}:_copy_forloop_context", prop=P, types={"from_context": Ref(CTX), "to_context": Ref(CTX)},
    calls={"get_last_index": _get_last_index},
    requires=[lambda c: c["from_context"].t > 0, lambda c: c["to_context"].t > 0, lambda c: c["from_context"].t != c["to_context"].t,
              lambda c: z3.Length(D(c, "from_context")) >= 1],
    modifies=[f"{CTX}.dicts"], raises={},
    ensures={
        "source_context_unchanged": lambda c: D(c, "from_context") == D(c, "from_context", True),
        "pushes_nothing_or_one_layer_of_the_source": _pushes_at_most_the_forloop_layer,
        "nothing_pushed_without_a_visible_forloop": lambda c: z3.Implies(ctx_idx(D(c, "from_context", True), FORLOOP) < 0, D(c, "to_context") == D(c, "to_context", True)),
        "other_contexts_unchanged": lambda c: _others_unchanged(c, c.old("to_context").t),
    },
)


def _others_unchanged(c, but):
    r = z3.Const("bv_r", I)
    return z3.ForAll([r], z3.Implies(z3.And(r != but, r >= 0, r < z3.Int("next_ref0")), z3.Select(c.field(CTX, "dicts"), r) == z3.Select(c.field(CTX, "dicts", True), r)))


# ================================================================================================ make_isolated_context_copy
def _res_dicts(c):
    return z3.Select(c.field(CTX, "dicts"), c["result"].t)


def _sees_only(c):
    """From the property: the isolated copy sees only the built-ins, the component key and the inject keys (and, known
    finding F-C03a, the copied forloop layer)."""
    Dr = _res_dicts(c)
    Dc = D(c, "context", True)
    k = z3.Const("bv_k", S)
    ctx_axioms(c.run, Dr)
    ctx_axioms(c.run, Dc)
    return z3.ForAll([k], z3.Implies(ctx_idx(Dr, k) >= 0, z3.Or(
        z3.Select(LAYER.has(BUILTINS), k), k == COMPKEY, z3.PrefixOf(INJECT, k))))


def _internal_keys_passed_through(c):
    """(C05) every inject key and the component key visible in the original are visible in the copy with the same value"""
    Dr = _res_dicts(c)
    Dc = D(c, "context", True)
    k = z3.Const("bv_k", S)
    ctx_axioms(c.run, Dr)
    ctx_axioms(c.run, Dc)
    return z3.ForAll([k], z3.Implies(z3.And(ctx_idx(Dc, k) >= 0, z3.Or(k == COMPKEY, z3.PrefixOf(INJECT, k))),
                                     z3.And(ctx_idx(Dr, k) >= 0, layer_val(Dr, ctx_idx(Dr, k), k) == layer_val(Dc, ctx_idx(Dc, k), k))))


def _loop_inv(c):
    """keys visited so far that are inject keys are set in the copy's top layer to the original's value; the layers below
    the top of the copy are as after the forloop step; only the top layer grows"""
    Dc = D(c, "context")
    Dcopy = z3.Select(c.field(CTX, "dicts"), c["context_copy"].t)
    K, i = c["_seq0"].t, c["_i0"].t
    j = z3.Const("bv_j", I)
    n = z3.Length(Dcopy)
    top = Dcopy[n - 1]
    ctx_axioms(c.run, Dc)
    k = z3.Const("bv_k", S)
    return z3.And(
        Dc == D(c, "context", True), c["context_copy"].t >= z3.Int("next_ref0"), n >= 1,
        # without a visible forloop nothing but the builtins layer exists, and it only gains internal keys
        z3.Implies(ctx_idx(Dc, FORLOOP) < 0, z3.And(n == 1, z3.ForAll([k], z3.Implies(z3.Select(LAYER.has(top), k), z3.Or(
            z3.Select(LAYER.has(BUILTINS), k), k == COMPKEY, z3.PrefixOf(INJECT, k)))))),
        z3.ForAll([j], z3.Implies(z3.And(0 <= j, j < i, z3.PrefixOf(INJECT, K[j])),
                                  z3.And(z3.Select(LAYER.has(top), K[j]), z3.Select(LAYER.val(top), K[j]) == layer_val(Dc, ctx_idx(Dc, K[j]), K[j])))))


REG.contract(
    f"{MOD}:make_isolated_context_copy", prop=P, types={"context": Ref(CTX)}, result=Ref(CTX),
    requires=[lambda c: c["context"].t > 0, lambda c: z3.Length(D(c, "context")) >= 1],
    modifies=[f"{CTX}.dicts", f"{CTX}.render_context"], raises={},
    loops={0: Loop(inv=[_loop_inv], variant="len(_seq0) - _i0")},
    findings={"post#sees_only_builtins_and_internal_keys": lambda c: ctx_idx(D(c, "context", True), FORLOOP) >= 0},
    ensures={
        "fresh_context": lambda c: c["result"].t >= z3.Int("next_ref0"),
        "callers_context_unchanged": lambda c: z3.And(D(c, "context") == D(c, "context", True), _others_unchanged(c, c["result"].t)),
        "sees_only_builtins_and_internal_keys": _sees_only,
        "internal_keys_passed_through": _internal_keys_passed_through,
    },
)

ASSUMES = ["A-PY", "A-INST", "A-DJ"]
NOT_COVERED = [
    "SlotNode.render as a whole, snapshot_context and Component._render_impl (Context restored after the whole render) are not under contract; the whole-render statement is covered only by the bounded scoping stand-in",
    "get_last_index's contract is assumed (generic helper with a callable parameter)",
    "Django's own tag semantics; the 2-run non-interference statement over whole programs",
]


def _f03a(w):
    from django.conf import settings
    if not settings.configured:
        from tests.django_test_setup import setup_test_config
        setup_test_config({"autodiscover": False})
    from django.template import Context
    from django_components.context import make_isolated_context_copy
    ctx = Context({"outer": 1})
    ctx.update({"forloop": {"counter": 1}, "item": "LEAK"})
    iso = make_isolated_context_copy(ctx)
    return "item" in iso


FINDING_REPLAYS = {"F-C03a": _f03a}

import contracts.c06b  # noqa: E402,F401  (_prepare_template: the component's data layer, shared with C06)


# ------------------------------------------------------------------------------------------- replay on the real code
@REG.replay(f"{MOD}:make_isolated_context_copy")
def _replay_isolated_copy(model, ob):
    """Contexts assembled from layer kinds (plain data, a forloop layer, inject keys at different depths incl. INSIDE a
    forloop layer and shadowed ones, the component key): the copy must show every inject key / the component key with the
    value the ORIGINAL shows (nearest wins), nothing else but built-ins (and - known finding F-C03a - the forloop layer),
    and the original must be untouched"""
    import itertools
    from django.conf import settings
    if not settings.configured:
        from tests.django_test_setup import setup_test_config
        setup_test_config({"autodiscover": False})
    from django.template import Context
    from django_components.context import make_isolated_context_copy
    INJ = "_DJC_INJECT__"
    kinds = {
        "data": lambda n: {"x": n},
        "inj_a": lambda n: {INJ + "a": f"A{n}"},
        "inj_ab": lambda n: {INJ + "a": f"A{n}", INJ + "b": f"B{n}"},
        "comp": lambda n: {"_DJC_COMPONENT_CTX": f"C{n}", "y": n},
        "forloop": lambda n: {"forloop": {"counter": n}, "item": n},
        "forloop_inj": lambda n: {"forloop": {"counter": n}, "item": n, INJ + "a": f"FA{n}"},
    }
    for n in range(1, 4):
        for combo in itertools.product(kinds, repeat=n):
            ctx = Context()
            for j, k in enumerate(combo):
                ctx.update(kinds[k](j))
            before = [dict(d) for d in ctx.dicts]
            cp = make_isolated_context_copy(ctx)
            flat0, flat1 = ctx.flatten(), cp.flatten()
            what = None
            for key, val in flat0.items():
                if (key.startswith(INJ) or key == "_DJC_COMPONENT_CTX") and (key not in flat1 or flat1[key] != val):
                    what = f"{key}: original shows {val!r}, copy shows {flat1.get(key, '<missing>')!r}"
            fl = next((d for d in reversed(before) if "forloop" in d), {})
            for key in flat1:
                if key in ("True", "False", "None") or key.startswith(INJ) or key == "_DJC_COMPONENT_CTX" or key in fl:
                    continue
                what = what or f"copy shows foreign key {key!r}"
            if [dict(d) for d in ctx.dicts] != before:
                what = what or "the original Context was modified"
            if what:
                return {"confirmed": True, "function": "make_isolated_context_copy", "inputs": {"layers (bottom to top)": [kinds[k](j) for j, k in enumerate(combo)]},
                        "expected": "internal keys passed through with the original's values; nothing else leaks", "observed": what}
    return {"confirmed": False}


# ================================================================================================ fill content: the render function
# _nodelist_to_slot_render_func.render_func(ctx, slot_data, slot_ref): the closure that renders the body of a {% fill %}.
# From the property: fill content is "extended only by its enclosing loops and the slot-data / slot-default aliases": while the
# fill's nodelist renders, the aliases are the INNERMOST bindings (no variable of the component or of the page can shadow them),
# exactly one extra layer (the captured loop variables) has been inserted, and afterwards the number of layers is as before.
SLOTS = "django_components.slots"
TPL = Obj("Template")
OSTR = TOpt(TStr)
OLAYER = TOpt(LAYER)
RF_GLOBALS = {"data_var": Opt(Str), "default_var": Opt(Str), "extra_context": Opt(LAYER), "template": TPL, "component_name": Str, "slot_name": Opt(Str)}


def _last_index_with_component_key(run, args, kwargs, node):
    """get_last_index(ctx.dicts, lambda d: _COMPONENT_CONTEXT_KEY in d): ASSUMED contract of the generic helper"""
    lst = run.coerce(args[0], LAYERS).t
    n = z3.Length(lst)
    r = z3.FreshConst(OI.sort(), "last_component_layer")
    j = z3.FreshConst(I, "j")
    has = lambda k: z3.Select(LAYER.has(lst[k]), COMPKEY)
    for ax in (z3.Implies(OI.is_none(r), z3.ForAll([j], z3.Implies(z3.And(0 <= j, j < n), z3.Not(has(j))))),
               z3.Implies(z3.Not(OI.is_none(r)), z3.And(0 <= OI.get(r), OI.get(r) < n, has(OI.get(r)),
                                                        z3.ForAll([j], z3.Implies(z3.And(OI.get(r) < j, j < n), z3.Not(has(j))))))):
        run.pc.append(ax)
        run.solver_add(ax)
    run.ghost["last_component_layer"] = Val(OI, r)
    return Val(OI, r)


def _template_render(run, obj, args, kwargs, node):
    """template.render(ctx): the fill's nodelist renders (user / template code).  Ghost: the layers it sees.  RELY: Django's
    Template.render leaves the Context's layers as it found them; it may raise anything."""
    from contracts.stubs_django import dicts_of
    ctx = args[0]
    run.ghost["layers_at_render"] = Val(LAYERS, dicts_of(run, ctx))
    from pyvc.interp import ExcVal, PyRaise
    if run.choose(2, None) == 1:
        raise PyRaise(ExcVal("Any", [], site="fill content (template code)"))
    return Val(TStr, z3.FreshConst(S, "rendered_fill"))


REG.stub(("method", "Template", "render"), _template_render)


def _Dr(c):
    return c.ghost["layers_at_render"].t if "layers_at_render" in c.ghost else z3.FreshConst(LAYERS.sort(), "never_rendered")


def _alias_innermost(c, var, value_name, unless=None):
    v = c.run.globals[var].t
    Dr = _Dr(c)
    ctx_axioms(c.run, Dr)
    k = OSTR.get(v)
    given = z3.And(z3.Not(OSTR.is_none(v)), z3.Length(k) > 0)
    if unless is not None:
        u = c.run.globals[unless].t
        given = z3.And(given, z3.Or(OSTR.is_none(u), z3.Length(OSTR.get(u)) == 0, OSTR.get(u) != k))
    return z3.Implies(given, z3.And(ctx_idx(Dr, k) >= 0, layer_val(Dr, ctx_idx(Dr, k), k) == c.old(value_name).t))


def _dicts_insert(run, args, kwargs, node):
    """ctx.dicts.insert(i, layer): Python's list.insert (done by the executor as usual); GHOST: the position the layer ends up
    at (i normalised as list.insert does) and the layer - so that the clause below can speak about WHERE the code put it
    without an existential."""
    from pyvc.builtins import call_method
    fr = run.call_frame
    objnode = node.func.value
    obj = run.ev(objnode, fr)
    n = z3.Length(obj.t)
    i = run.coerce(args[0], TInt).t
    run.ghost["inserted_at"] = Val(TInt, z3.If(i < 0, z3.If(i + n < 0, 0, i + n), z3.If(i > n, n, i)))
    run.ghost["layers_before_insert"] = Val(LAYERS, obj.t)
    k = run.ghost.get("insert_calls")
    run.ghost["insert_calls"] = Val(TInt, (k.t if k is not None else z3.IntVal(0)) + 1)
    res, new = call_method(run, obj, "insert", args, kwargs, node)
    run.assign(objnode, new, fr, writeback=True)
    return res


def _captured_layer_position(c):
    """From the property ("fill content sees inner-component data over variables bound between the component tag and the fill over
    outer variables"; "extended only by its enclosing loops and the slot-data / slot-default aliases"): while the fill renders,
    the layers are the entry layers with ONE layer inserted at some position p such that
      * p is below the top layer (where the aliases were just bound) and, when a component's data layer is visible, below it;
      * every layer that ends up ABOVE the inserted one is the top layer or one of the component's own layers (its data layer
        and the one layer _prepare_template pushes right below it) - so no variable of the page / of an outer component can
        shadow a loop variable that encloses the fill."""
    if "layers_at_render" not in c.ghost or "last_component_layer" not in c.ghost or "inserted_at" not in c.ghost:
        return z3.BoolVal(False)
    Dr, D0, Dm = _Dr(c), D(c, "ctx", True), c.ghost["layers_before_insert"].t
    r = c.ghost["last_component_layer"].t
    has_r, rv = z3.Not(OI.is_none(r)), OI.get(r)
    n = z3.Length(D0)
    p, j = c.ghost["inserted_at"].t, z3.Const("bv_j", I)
    extra = c.run.globals["extra_context"].t
    return z3.And(
        c.ghost["insert_calls"].t == 1, z3.Length(Dm) == n,
        # nothing but the aliases (bound in the top layer) changed before the insertion, and the fill renders right after it
        z3.ForAll([j], z3.Implies(z3.And(0 <= j, j < n - 1), Dm[j] == D0[j])),
        z3.Length(Dr) == n + 1,
        z3.ForAll([j], z3.Implies(z3.And(0 <= j, j < p), Dr[j] == Dm[j])),
        z3.ForAll([j], z3.Implies(z3.And(p < j, j <= n), Dr[j] == Dm[j - 1])),
        z3.Implies(z3.Not(OLAYER.is_none(extra)), z3.Or(LAYER.size(OLAYER.get(extra)) == 0, Dr[p] == OLAYER.get(extra))),
        p <= n - 1, z3.Implies(has_r, p <= rv),
        z3.Or(p >= n - 1, z3.And(has_r, p >= rv - 1)))


REG.contract(
    f"{SLOTS}:_nodelist_to_slot_render_func.render_func", prop="C03", types={"ctx": Ref(CTX), "slot_data": Any_, "slot_ref": Any_}, result=Str,
    globals=RF_GLOBALS, calls={"get_last_index": _last_index_with_component_key, "ctx.dicts.insert": _dicts_insert},
    requires=[lambda c: c["ctx"].t > 0, lambda c: z3.Length(D(c, "ctx")) >= 1,
              # A-DJ: the bottom layer of a Django Context is its builtins layer (True / False / None); it cannot be popped and the
              # library only ever binds its component key in layers it pushes
              lambda c: z3.Not(z3.Select(LAYER.has(D(c, "ctx")[0]), COMPKEY))],
    modifies=[f"{CTX}.dicts"], raises={"Any": None},
    ensures={
        "slot_data_alias_is_the_innermost_binding_while_the_fill_renders": lambda c: _alias_innermost(c, "data_var", "slot_data", unless="default_var"),
        "slot_default_alias_is_the_innermost_binding_while_the_fill_renders": lambda c: _alias_innermost(c, "default_var", "slot_ref"),
        "captured_loop_variables_sit_above_every_outer_layer_and_below_the_component_data_and_the_aliases": _captured_layer_position,
        "exactly_one_layer_inserted_while_the_fill_renders": lambda c: z3.Length(_Dr(c)) == z3.Length(D(c, "ctx", True)) + 1,
        "number_of_layers_restored": lambda c: z3.Length(D(c, "ctx")) == z3.Length(D(c, "ctx", True)),
        "no_other_context_touched": lambda c: _others_unchanged(c, c.old("ctx").t),
    },
)


@REG.replay(f"{SLOTS}:_nodelist_to_slot_render_func.render_func")
def _replay_render_func(model, ob):
    """a fill body `[{{ d.x }}|{{ r }}|{{ item }}]` with data alias d, default alias r and a captured loop variable, rendered
    in Contexts where the component's own data / the page define variables of the same names"""
    from django.conf import settings
    if not settings.configured:
        from tests.django_test_setup import setup_test_config
        setup_test_config({"autodiscover": False})
    from django.template import Context, Template
    from django_components.slots import _nodelist_to_slot_render_func
    nodelist = Template("[{{ d.x }}|{{ r }}|{{ item }}]").nodelist
    for with_component_layer, page_defines_item in ((True, False), (False, False), (True, True), (False, True)):
        for extra in ({"item": "LOOP"}, None):
            slot = _nodelist_to_slot_render_func("comp", "s", nodelist, data_var="d", default_var="r", extra_context=extra)
            ctx = Context({"page": 1, "d": {"x": "PAGE"}, "r": "PAGE"})
            if page_defines_item:
                ctx.update({"item": "PAGE"})        # a page variable named like the loop variable that encloses the fill
            if with_component_layer:
                ctx.update({})
                ctx.update({"_DJC_COMPONENT_CTX": "id", "d": {"x": "COMPONENT"}, "r": "COMPONENT", "item": "COMPONENT"})
            ctx.update({})
            depth = len(ctx.dicts)
            out = slot.content_func(ctx, {"x": "DATA"}, "REF")
            item = "COMPONENT" if with_component_layer else ("LOOP" if extra else ("PAGE" if page_defines_item else ""))
            want = f"[DATA|REF|{item}]"
            if str(out) != want or len(ctx.dicts) != depth:
                return {"confirmed": True, "function": "render_func", "inputs": {"component layer present": with_component_layer, "page defines `item`": page_defines_item, "extra_context": extra, "aliases": "data=d default=r"},
                        "expected": f"{want} and {depth} layers afterwards", "observed": f"{out} and {len(ctx.dicts)} layers"}
    return {"confirmed": False}


# ================================================================================================ which Context a fill runs in
# SlotNode._resolve_slot_context(context, slot_fill, component_ctx) - from the property: in isolated mode fill content is
# LEXICALLY scoped (it runs in the Context captured at the {% component %} tag), in django mode it runs in the current
# Context, and a slot's own default content always runs in the current Context.
SFILL, CCTX, RSET = Obj("SlotFill"), Obj("ComponentContext"), Obj("RegistrySettingsObj")


def _is_filled(f):
    return ops.uf("slot_fill_is_filled", SFILL.sort(), z3.BoolSort())(f)


def _behavior(cc):
    return ops.uf("component_ctx_context_behavior", CCTX.sort(), S)(cc)


def _outer(cc):
    """component_ctx.outer_context as a reference (0 = None)"""
    return ops.uf("component_ctx_outer_context", CCTX.sort(), I)(cc)


REG.stub(("getattr", "SlotFill", "is_filled"), lambda run, obj, node: Val(TBool, _is_filled(obj.t)))
REG.stub(("getattr", "ComponentContext", "registry"), lambda run, obj, node: Conc(("obj_kind", "registry_of", obj)))
REG.stub(("getattr", "conc:obj_kind:registry_of", "settings"), lambda run, obj, node: Conc(("obj_kind", "settings_of", obj.obj[2])))
REG.stub(("getattr", "conc:obj_kind:settings_of", "context_behavior"), lambda run, obj, node: Val(TStr, _behavior(obj.obj[2].t)))


def _outer_getattr(run, obj, node):
    r = _outer(obj.t)
    run.assume(z3.And(r >= 0, r < run.next_ref))
    from pyvc.types import TRef
    return Val(TRef(CTX), r)


REG.stub(("getattr", "ComponentContext", "outer_context"), _outer_getattr)


def _new_context(run, args, kwargs, node):
    """django.template.Context(): a fresh Context with only the built-ins layer (A-DJ)"""
    if args or kwargs:
        raise EngineError("Context(...) with arguments")
    ref = run.alloc(CTX)
    run.store_field(ref.t, CTX, "dicts", Val(LAYERS, z3.Unit(BUILTINS)))
    return ref


from pyvc.interp import EngineError  # noqa: E402

REG.stub("django.template.Context", _new_context)
REG.stub("django.template.context.Context", _new_context)


def _rsc_post(c):
    ctx, f, cc, res = c.old("context").t, c.old("slot_fill").t, c.old("component_ctx").t, c["result"].t
    dj, iso = _behavior(cc) == z3.StringVal("django"), _behavior(cc) == z3.StringVal("isolated")
    return z3.And(
        z3.Implies(z3.Not(_is_filled(f)), res == ctx),                              # default content: as if the slot tag were not there
        z3.Implies(z3.And(_is_filled(f), dj), res == ctx),
        z3.Implies(z3.And(_is_filled(f), iso, _outer(cc) != 0), res == _outer(cc)),    # lexical scoping of the fill
        z3.Implies(z3.And(_is_filled(f), iso, _outer(cc) == 0),
                   z3.And(res >= z3.Int("next_ref0"), z3.Select(c.field(CTX, "dicts"), res) == z3.Unit(BUILTINS))))


REG.contract(
    f"{SLOTS}:SlotNode._resolve_slot_context", prop="C03", types={"context": Ref(CTX), "slot_fill": SFILL, "component_ctx": CCTX}, result=Ref(CTX),
    self_type=Obj("SlotNode"),
    requires=[lambda c: c["context"].t > 0],
    modifies=[f"{CTX}.dicts"],
    raises={"ValueError": lambda c: z3.And(_is_filled(c.old("slot_fill").t), _behavior(c.old("component_ctx").t) != z3.StringVal("django"),
                                            _behavior(c.old("component_ctx").t) != z3.StringVal("isolated"))},
    ensures={"fill_runs_in_the_context_the_mode_prescribes": _rsc_post,
             "existing_contexts_untouched": lambda c: _others_unchanged(c, z3.IntVal(-1))},
)


def _bounded_scoping(tier, repo):
    from harness.bounded_scoping import run
    return run(repo, 1)


REG.bounded_check("bounded#templates_and_fills_see_what_the_mode_prescribes", "C03", _bounded_scoping,
                  note="SlotNode.render / ComponentNode.render / _render_impl are not under contract: 200 pages (with / for wrappers around the component tag and inside the fill, the component nested in its own fill) x 2 outer contexts x 2 modes are rendered for real and compared with an environment model of the property; the caller's Context must be left as found.  Known finding F-C03a (loop variables visible in isolated mode) is tagged by the harness")


# ================================================================================================ ComponentNode.render
# {% component %}: from the property - with the `only` flag or in isolated mode the component is rendered with an ISOLATED copy of
# the Context (what that copy can show is make_isolated_context_copy's contract above), otherwise with the current Context; in
# both cases the component remembers the Context AT THE TAG as its outer context (the lexical scope of its fills), the tag's
# arguments and fills are handed through unchanged, and nothing is rendered while an enclosing tag is only collecting fills.
CNODE = Obj("ComponentNode")
CCLS = Obj("ComponentClassObj")
FILLS = Obj("SlotFills")
ARGS_T = Seq(Any_)
KWARGS_T = Dict(Str, Any_)


def _cn_extracting(ctx):
    return ops.uf("context_is_extracting_fill", I, z3.BoolSort())(ctx)


def _cn_only(n):
    return ops.uf("component_node_only_flag", CNODE.sort(), z3.BoolSort())(n)


def _cn_behavior(n):
    return ops.uf("component_node_registry_context_behavior", CNODE.sort(), S)(n)


REG.stub("django_components.slots:_is_extracting_fill", lambda run, args, kwargs, node: Val(TBool, _cn_extracting(args[0].t)))
REG.stub(("getattr", "ComponentNode", "name"), lambda run, obj, node: Val(TStr, ops.uf("component_node_name", CNODE.sort(), S)(obj.t)))
REG.stub(("getattr", "ComponentNode", "nodelist"), lambda run, obj, node: Conc(("obj_kind", "cn_nodelist")))
REG.stub(("getattr", "ComponentNode", "registry"), lambda run, obj, node: Conc(("obj_kind", "cn_registry", obj)))
REG.stub(("getattr", "ComponentNode", "flags"), lambda run, obj, node: Conc(("obj_kind", "cn_flags", obj)))


def _flags_getitem(run, base, key, node):
    k = z3.simplify(run.coerce(key, TStr).t)
    if not (z3.is_string_value(k) and k.as_string() == "only"):
        raise EngineError(f"flag {k}")
    return Val(TBool, _cn_only(base.obj[2].t))


REG.stub(("getitem", "conc:obj_kind:cn_flags"), _flags_getitem)
REG.stub(("getattr", "conc:obj_kind:cn_registry", "settings"), lambda run, obj, node: Conc(("obj_kind", "cn_settings", obj.obj[2])))
REG.stub(("getattr", "conc:obj_kind:cn_settings", "context_behavior"), lambda run, obj, node: Val(TStr, _cn_behavior(obj.obj[2].t)))


def _registry_get(run, obj, args, kwargs, node):
    """self.registry.get(name): the registered class, or NotRegistered (C15)"""
    from pyvc.interp import ExcVal, PyRaise
    if run.choose(2, None) == 1:
        raise PyRaise(ExcVal("NotRegistered", [], site="registry.get"))
    return Val(CCLS, z3.FreshConst(CCLS.sort(), "component_cls"))


REG.stub(("method", "conc:obj_kind:cn_registry", "get"), _registry_get)


def _resolve_fills_stub(run, args, kwargs, node):
    """resolve_fills(context, nodelist, name) - its own contract is C01; here: some fills, or an error from the fill tags"""
    from pyvc.interp import ExcVal, PyRaise
    if run.choose(2, None) == 1:
        raise PyRaise(ExcVal("Any", [], site="resolve_fills (fill tags / user code)"))
    f = Val(FILLS, z3.FreshConst(FILLS.sort(), "slot_fills"))
    run.ghost["fills"] = f
    return f


def _construct_component(run, args, kwargs, node):
    run.ghost["outer_context_given"] = kwargs["outer_context"]
    return run.alloc("Component")


def _component_render(run, obj, args, kwargs, node):
    """component._render(...): the whole component render (user code inside).  RELY: leaves the Context it is given as found."""
    from pyvc.interp import ExcVal, PyRaise
    for k in ("context", "args", "kwargs", "slots", "render_dependencies"):
        run.ghost["render_" + k] = kwargs[k]
    if run.choose(2, None) == 1:
        raise PyRaise(ExcVal("Any", [], site="component._render (user code)"))
    return Val(TStr, z3.FreshConst(S, "component_output"))


REG.stub(("method", "Ref_Component", "_render"), _component_render)


def _cn_isolated(c):
    n = c.old("self").t
    return z3.Or(_cn_only(n), _cn_behavior(n) == z3.StringVal("isolated"))


def _gh(c, name, ty):
    return c.run.coerce(c.ghost[name], ty).t if name in c.ghost else ty.fresh("never_" + name)


def _cn_post(c):
    ctx = c.old("context").t
    ex = _cn_extracting(ctx)
    from pyvc.types import TRef
    rctx = _gh(c, "render_context", TRef(CTX))
    return z3.And(
        z3.Implies(ex, c["result"].t == z3.StringVal("")),
        z3.Implies(z3.Not(ex), z3.And(
            _gh(c, "outer_context_given", TRef(CTX)) == ctx,                                   # lexical scope of the fills
            z3.If(_cn_isolated(c), z3.And(rctx >= z3.Int("next_ref0"), rctx != ctx), rctx == ctx),
            _gh(c, "render_args", ARGS_T) == c.old("args").t, _gh(c, "render_kwargs", KWARGS_T) == c.old("kwargs").t,
            _gh(c, "render_slots", FILLS) == _gh(c, "fills", FILLS),
            z3.Not(_gh(c, "render_render_dependencies", TBool)))))


REG.contract(
    "django_components.component:ComponentNode.render", prop="C03",
    types={"context": Ref(CTX), "args": ARGS_T, "kwargs": KWARGS_T}, result=Str, self_type=CNODE,
    calls={"resolve_fills": _resolve_fills_stub, "component_cls": _construct_component},
    requires=[lambda c: c["context"].t > 0, lambda c: z3.Length(D(c, "context")) >= 1],
    modifies=[f"{CTX}.dicts", f"{CTX}.render_context"],
    raises={"Any": None, "NotRegistered": None},
    ensures={"isolated_copy_exactly_with_only_or_isolated_mode_and_arguments_handed_through": _cn_post,
             "callers_context_unchanged": lambda c: D(c, "context") == D(c, "context", True)},
)
