"""C05 - inject() returns the data of the nearest enclosing provide: the two functions that implement the lookup and the store.

set_provided_context_var(context, key, kwargs) files the payload under a NEW provide id and writes that id, under the key
_DJC_INJECT__<key>, into the TOP layer of the Context (the layer {% provide %} pushed for its body); get_injected_context_var
reads the id through Django's Context lookup - i.e. from the TOP-MOST layer that defines the key, which is the innermost
enclosing provide when layers mirror nesting (composition argued in DESIGN, checked bounded by bounded#inject_returns_the_nearest_
enclosing_provide) - and returns exactly the payload filed under it.
"""
import z3

import contracts.c05 as c05
from contracts.stubs_django import CTX, LAYER, LAYERS, ctx_axioms, ctx_idx, layer_val
from pyvc import ops
from pyvc.contracts import REG, Any_, Dict, Int, Obj, Opt, Ref, Str
from pyvc.interp import EngineError
from pyvc.types import TAny, TStr, Val

P = "C05"
MOD = "django_components.provide"
S, I, B = z3.StringSort(), z3.IntSort(), z3.BoolSort()
PV = TAny.sort()
PREFIX = c05.PREFIX
CACHE = c05.CACHE
PAYLOAD = c05.PAYLOAD
KW = Dict(Str, Any_)


def payload_value(p):
    """a payload object as a Python value (only its identity matters)"""
    return PV.ObjV(ops.uf("payload_object_id", PAYLOAD.sort(), I)(p))


REG.stub(("coerce", "Payload", "PyVal"), lambda run, v, ty: Val(TAny, payload_value(v.t)))


def D(c, old=False):
    return z3.Select(c.field(CTX, "dicts", old), c.old("context").t)


def ikey(c):
    return z3.Concat(PREFIX, c.old("key").t)


def _visible(c):
    Dd = D(c, True)
    ctx_axioms(c.run, Dd)
    return ctx_idx(Dd, ikey(c)) >= 0


def _stored_id(c):
    Dd = D(c, True)
    return layer_val(Dd, ctx_idx(Dd, ikey(c)), ikey(c))


def _cache(c, old=False):
    return (c.old("provide_cache") if old else c.run.globals["provide_cache"]).t


# ================================================================================================ get_injected_context_var
def _req_ids_are_filed(c):
    """GInv as seen from here (C05's registry invariant): what a Context shows under an inject key is the id (a str) of a
    provider whose data is in provide_cache"""
    v = _stored_id(c)
    return z3.Implies(_visible(c), z3.And(PV.is_StrV(v), z3.Select(CACHE.has(_cache(c)), PV.s(v))))


REG.contract(
    f"{MOD}:get_injected_context_var", prop=P, types={"component_name": Str, "context": Ref(CTX), "key": Str, "default": Any_}, result=Any_,
    globals={"provide_cache": CACHE},
    requires=[lambda c: c["context"].t > 0, lambda c: z3.Length(D(c)) >= 1, _req_ids_are_filed],
    modifies=[],
    raises={"KeyError": lambda c: z3.And(z3.Not(_visible(c)), PV.is_NoneV(c.old("default").t))},
    ensures={
        # the payload of the provider whose id the TOP-MOST defining layer holds
        "nearest_provider_payload": lambda c: z3.Implies(_visible(c), c["result"].t == payload_value(z3.Select(CACHE.val(_cache(c)), PV.s(_stored_id(c))))),
        "default_only_when_nothing_is_provided": lambda c: z3.Implies(z3.Not(_visible(c)), z3.And(z3.Not(PV.is_NoneV(c.old("default").t)), c["result"].t == c.old("default").t)),
    },
)


# ================================================================================================ set_provided_context_var
def _gen_id(run, args, kwargs, node):
    """gen_id(): A-ID - an id that is not in use (here: not a key of provide_cache)"""
    nid = z3.FreshConst(S, "new_provide_id")
    run.assume(z3.Not(z3.Select(CACHE.has(run.globals["provide_cache"].t), nid)))
    run.ghost["new_id"] = Val(TStr, nid)
    return Val(TStr, nid)


def payload_of(kw):
    return ops.uf("payload_of_kwargs", KW.sort(), PAYLOAD.sort())(kw)


def _namedtuple(run, args, kwargs, node):
    from pyvc.types import Conc
    return Conc(("obj_kind", "namedtuple_class"))


def _make_payload(run, args, kwargs, node):
    """tpl_cls(**provided_kwargs): the immutable payload holding exactly the given kwargs"""
    kw = run.call_frame.lookup("provided_kwargs")
    return Val(PAYLOAD, payload_of(run.coerce(kw, KW).t))


def _bad_key(c):
    k = c.old("key").t
    return z3.Or(z3.Length(k) == 0, z3.Not(ops.uf("str_isidentifier", S, B)(k)))


def _set_post(c):
    D0, D1 = D(c, True), D(c)
    n = z3.Length(D0)
    nid = c["result"].t
    top0, top1 = D0[n - 1], D1[n - 1]
    k = z3.Const("bv_k", S)
    p = z3.Const("bv_p", S)
    c0, c1 = _cache(c, True), _cache(c)
    return z3.And(
        z3.Not(z3.Select(CACHE.has(c0), nid)),                                            # a NEW id (A-ID)
        z3.Length(D1) == n, z3.Extract(D1, 0, n - 1) == z3.Extract(D0, 0, n - 1),          # only the top layer is written
        z3.Select(LAYER.has(top1), ikey(c)), z3.Select(LAYER.val(top1), ikey(c)) == PV.StrV(nid),
        z3.ForAll([k], z3.Implies(k != ikey(c), z3.And(z3.Select(LAYER.has(top1), k) == z3.Select(LAYER.has(top0), k),
                                                       z3.Select(LAYER.val(top1), k) == z3.Select(LAYER.val(top0), k)))),
        z3.Select(CACHE.has(c1), nid), z3.Select(CACHE.val(c1), nid) == payload_of(c.old("provided_kwargs").t),
        z3.ForAll([p], z3.Implies(p != nid, z3.And(z3.Select(CACHE.has(c1), p) == z3.Select(CACHE.has(c0), p),
                                                   z3.Select(CACHE.val(c1), p) == z3.Select(CACHE.val(c0), p)))))


REG.contract(
    f"{MOD}:set_provided_context_var", prop=P, types={"context": Ref(CTX), "key": Str, "provided_kwargs": KW}, result=Str,
    globals={"provide_cache": CACHE},
    calls={"gen_id": _gen_id, "namedtuple": _namedtuple, "tpl_cls": _make_payload},
    requires=[lambda c: c["context"].t > 0, lambda c: z3.Length(D(c)) >= 1],
    modifies=[f"{CTX}.dicts", "provide_cache"],
    raises={"TemplateSyntaxError": _bad_key},
    ensures={"payload_filed_under_a_new_id_written_into_the_top_layer": _set_post,
             "accepted_only_for_identifier_keys": lambda c: z3.Not(_bad_key(c))},
    xensures={"TemplateSyntaxError": {"nothing_changed_when_the_key_is_refused": lambda c: z3.And(D(c) == D(c, True), _cache(c) == _cache(c, True))}},
)


def _lemma_lookup_after_store():
    """set then get: after set_provided_context_var(context, key, kw) a lookup of the same key in the same Context (whatever
    layers are pushed on top that do not define the key) returns the payload of kw - stated over the two contracts."""
    return None


ASSUMES = ["A-PY", "A-INST", "A-ID", "A-DJ"]


# ================================================================================================ ProvideNode.render
# {% provide name k=v ... %}body{% endprovide %}: while the body renders the Context has exactly ONE more layer, holding exactly the
# inject key of `name` bound to the id under which the payload of the given kwargs is filed, and the provider is managed (Active);
# afterwards - also when the body raises - the Context's layers are as before.
from pyvc.interp import ExcVal, PyRaise  # noqa: E402
from pyvc.types import NONE, Conc  # noqa: E402

NODE = Obj("ProvideNode")
NODELIST = Obj("NodeList")
REG.stub(("getattr", "ProvideNode", "nodelist"), lambda run, obj, node: Val(NODELIST, ops.uf("provide_node_nodelist", NODE.sort(), NODELIST.sort())(obj.t)))


def _nodelist_render(run, obj, args, kwargs, node):
    """self.nodelist.render(context): the body (template code).  Ghost: layers and cache it sees.  RELY: leaves the Context's layers
    as found; may raise anything."""
    from contracts.stubs_django import dicts_of
    ctx = args[0]
    run.ghost["layers_in_body"] = Val(LAYERS, dicts_of(run, ctx))
    run.ghost["cache_in_body"] = run.globals["provide_cache"]
    run.ghost["managed_in_body"] = run.ghost.get("managed_now", Val(TStr, z3.StringVal("")))
    if run.choose(2, None) == 1:
        raise PyRaise(ExcVal("Any", [], site="provide body (template code)"))
    return Val(TStr, z3.FreshConst(S, "provide_body_output"))


REG.stub(("method", "NodeList", "render"), _nodelist_render)


def _managed_cm(run, args, kwargs, node):
    """managed_provide_cache(provide_id) at a call site: its own contract (C05) keeps the provider's data alive while the body runs;
    here only WHICH id is managed is recorded"""
    pid = run.coerce(args[0], TStr)
    run.ghost["managed_now"] = pid

    def enter():
        return NONE

    def exit_(exc):
        return False
    return Conc(("cm", enter, exit_))


def _Db(c):
    return c.ghost["layers_in_body"].t if "layers_in_body" in c.ghost else z3.FreshConst(LAYERS.sort(), "body_never_ran")


def _body_sees(c):
    D0 = z3.Select(c.field(CTX, "dicts", True), c.old("context").t)
    Db = _Db(c)
    n = z3.Length(D0)
    top = Db[n]
    k = z3.Const("bv_k", S)
    key = z3.Concat(PREFIX, c.old("name").t)
    idv = z3.Select(LAYER.val(top), key)
    cache_b = c.ghost["cache_in_body"].t if "cache_in_body" in c.ghost else z3.FreshConst(CACHE.sort(), "no_cache")
    managed = c.ghost["managed_in_body"].t if "managed_in_body" in c.ghost else z3.FreshConst(S, "no_managed")
    return z3.And(
        z3.Length(Db) == n + 1, z3.Extract(Db, 0, n) == D0,
        z3.ForAll([k], z3.Select(LAYER.has(top), k) == (k == key)),
        PV.is_StrV(idv), z3.Select(CACHE.has(cache_b), PV.s(idv)),
        z3.Select(CACHE.val(cache_b), PV.s(idv)) == payload_of(c.old("kwargs").t),
        managed == PV.s(idv))


def _layers_restored(c):
    return z3.Select(c.field(CTX, "dicts"), c.old("context").t) == z3.Select(c.field(CTX, "dicts", True), c.old("context").t)


REG.contract(
    f"{MOD}:ProvideNode.render", prop=P, types={"context": Ref(CTX), "name": Str, "kwargs": KW}, result=Str, self_type=NODE,
    globals={"provide_cache": CACHE}, calls={"managed_provide_cache": _managed_cm},
    requires=[lambda c: c["context"].t > 0, lambda c: z3.Length(z3.Select(c.field(CTX, "dicts"), c["context"].t)) >= 1],
    modifies=[f"{CTX}.dicts", "provide_cache"],
    raises={"TemplateSyntaxError": lambda c: z3.Or(z3.Length(c.old("name").t) == 0, z3.Not(ops.uf("str_isidentifier", S, B)(c.old("name").t))), "Any": None},
    ensures={"body_sees_one_new_layer_with_exactly_its_inject_key_and_a_managed_filed_payload": _body_sees,
             "layers_restored": _layers_restored},
    xensures={"Any": {"layers_restored_on_error": _layers_restored}, "TemplateSyntaxError": {"layers_restored_on_error": _layers_restored}},
)


@REG.replay(f"{MOD}:set_provided_context_var")
def _replay_set_provided(model, ob):
    """several provides in one process with the same field names in different orders, unusual names and values; what inject()
    would read back must be exactly the kwargs given, under a new id written into the top layer only"""
    from django.conf import settings
    if not settings.configured:
        from tests.django_test_setup import setup_test_config
        setup_test_config({"autodiscover": False})
    from django.template import Context
    import django_components.perfutil.provide as pv
    from django_components.provide import get_injected_context_var, set_provided_context_var
    saved = dict(pv.provide_cache)
    try:
        seen = set()
        for kwargs in ({"a": 1, "b": 2}, {"b": 20, "a": 10}, {"a": 5}, {}, {"b": "x", "c": None, "a": [1]}, {"c": 3, "a": 4, "b": 5}):
            ctx = Context({"page": 1})
            ctx.update({"other": 2})
            lower = [dict(d) for d in ctx.dicts[:-1]]
            pid = set_provided_context_var(ctx, "key", dict(kwargs))
            got = get_injected_context_var("comp", ctx, "key")
            what = None
            if pid in seen or pid in saved:
                what = "the provide id is not new"
            elif got._asdict() != kwargs:
                what = f"inject reads {got._asdict()}"
            elif [dict(d) for d in ctx.dicts[:-1]] != lower or set(ctx.dicts[-1]) != {"other", "_DJC_INJECT__key"}:
                what = f"layers written: {[sorted(d) for d in ctx.dicts]}"
            seen.add(pid)
            if what:
                return {"confirmed": True, "function": "set_provided_context_var", "inputs": {"kwargs": repr(kwargs), "after": [repr(k) for k in seen]},
                        "expected": f"payload {kwargs} under a new id in the top layer", "observed": what}
    finally:
        pv.provide_cache.clear()
        pv.provide_cache.update(saved)
    return {"confirmed": False}


# ================================================================================================ Component.inject
# From the property ("inject(key) returns the data of the nearest {% provide key %} that encloses the component ... outside
# every such provider it returns the given default or raises KeyError"): the method looks the key up in the Context of THIS
# component's current render (self.input.context) with exactly the caller's key and default, and returns what
# get_injected_context_var (proved above) returns; outside a render it is a RuntimeError.
COMPOBJ = Obj("ComponentObject")
INPUT = Obj("RenderInput")
OINPUT = Opt(INPUT)
REG.stub(("getattr", "ComponentObject", "input"), lambda run, obj, node: Val(OINPUT, ops.uf("component_render_input", COMPOBJ.sort(), OINPUT.sort())(obj.t)))
REG.stub(("getattr", "ComponentObject", "name"), lambda run, obj, node: Val(TStr, ops.uf("component_object_name", COMPOBJ.sort(), S)(obj.t)))
for _tn in ("RenderInput", OINPUT.name):
    REG.stub(("getattr", _tn, "context"), (lambda tn: lambda run, obj, node: Val(Ref(CTX), ops.uf("render_input_context", INPUT.sort(), I)(obj.t if tn == "RenderInput" else OINPUT.get(obj.t))))(_tn))


def _inject_lookup(run, args, kwargs, node):
    run.ghost["lookup_args"] = list(args)
    k = run.ghost.get("lookup_calls")
    from pyvc.types import TInt
    run.ghost["lookup_calls"] = Val(TInt, (k.t if k is not None else z3.IntVal(0)) + 1)
    from pyvc.interp import ExcVal, PyRaise
    if run.choose(2, None) == 1:
        raise PyRaise(ExcVal("KeyError", [], site="get_injected_context_var: nothing provided and no default"))
    r = Val(TAny, z3.FreshConst(PV, "injected"))
    run.ghost["lookup_result"] = r
    return r


def _inject_post(c):
    a = c.ghost["lookup_args"]
    s_ = c.old("self").t
    inp = ops.uf("component_render_input", COMPOBJ.sort(), OINPUT.sort())(s_)
    return z3.And(c.ghost["lookup_calls"].t == 1, z3.Not(OINPUT.is_none(inp)),
                  a[0].t == ops.uf("component_object_name", COMPOBJ.sort(), S)(s_),
                  a[1].t == ops.uf("render_input_context", INPUT.sort(), I)(OINPUT.get(inp)),
                  c.run.coerce(a[2], TStr).t == c.old("key").t, c.run.coerce(a[3], TAny).t == c.old("default").t,
                  c["result"].t == c.ghost["lookup_result"].t)


REG.contract(
    "django_components.component:Component.inject", prop=P, types={"self": COMPOBJ, "key": Str, "default": Any_}, result=Any_,
    calls={"get_injected_context_var": _inject_lookup},
    modifies=[], raises={"RuntimeError": lambda c: OINPUT.is_none(ops.uf("component_render_input", COMPOBJ.sort(), OINPUT.sort())(c.old("self").t)), "KeyError": None},
    ensures={"looks_up_this_key_with_this_default_in_the_context_of_this_render": _inject_post},
)
