"""C09 - the template lexer partitions the source exactly, with the right positions and lines.

_detailed_tag_parser is proved against a character-level automaton (spec function `st`):
   st(i) = state BEFORE reading text[i]:  0 outside strings | 1 in '..' | 2 in '..' after a backslash | 3 in ".." | 4 in ".." after a backslash
   end_at(j)  :=  st(j) == 0 and text[j:j+2] == "%}"          ("a %} that lies outside every quoted string")
The token must end at the FIRST end_at position; TemplateSyntaxError iff there is none.
"""
import ast

import z3

from pyvc import ops
from pyvc.contracts import REG, Bool, Dict, Int, Loop, Obj, Opt, Ref, Seq, Str, Tup, qf
from pyvc.interp import EngineError, ExcVal, PyRaise
from pyvc.repo import load_module
from pyvc.types import NONE, Conc, TBool, TInt, TOpt, TRef, TSeq, TStr, Val, VTuple, mk_int

P = ("C09", "C12")
MOD = "django_components.util.template_parser"
S, I, B = z3.StringSort(), z3.IntSort(), z3.BoolSort()
POS = Tup(TInt, TInt, tag="Span", fields=["start", "end"])
# django.template.base.Token BY VALUE: parse_template mutates a token through the loop variable and appends that same
# object; the stock `tokens` list is never read again after an element was mutated (checked: syn#tokens_not_reread)
TOKEN = Tup(TInt, TStr, POS, TInt, tag="Token", fields=["token_type", "contents", "position", "lineno"])
REG.value_record(TOKEN)
TT = {"TEXT": 0, "VAR": 1, "BLOCK": 2, "COMMENT": 3}
for _n, _v in TT.items():
    REG.stub(("value", f"django.template.base.TokenType.{_n}"), mk_int(_v))


def _new_token(run, args, kwargs, node):
    vals = [run.coerce(v, t).t for v, t in zip(args, TOKEN.items)]
    return Val(TOKEN, TOKEN.mk(*vals))


REG.stub("django.template.base.Token", _new_token)

# ------------------------------------------------------------------------------------------------ take-until patterns
# the value returned by _compile_take_until_pattern: `[^stops]*`  or  `(?:\\.|[^stops])*`
TU = Tup(TStr, TBool, tag="TakeUntilPattern", fields=["stops", "allow_escapes"])


def tu_len(stops, esc, text, i):
    """A-RE: Pattern.match(text, i) for a take-until pattern always succeeds and consumes a length that is a function of
    (pattern, text, i)."""
    return ops.uf("take_until_len", S, B, S, I, I)(stops, esc, text, i)


def at(text, j):
    return z3.SubString(text, j, 1)


def _tu_match(run, obj, args, kwargs, node):
    text = run.coerce(args[0], TStr).t
    i = run.coerce(args[1], TInt).t if len(args) > 1 else z3.IntVal(0)
    stops, esc = TU.proj(obj.t, 0), TU.proj(obj.t, 1)
    L = tu_len(stops, esc, text, i)
    n = z3.Length(text)
    j = z3.FreshConst(I, "j")
    facts = [L >= 0, i + L <= n,
             # greedy character class (A-RE): without escapes, exactly the leading characters outside `stops` are consumed
             z3.Implies(z3.Not(esc), z3.And(
                 z3.ForAll([j], z3.Implies(z3.And(i <= j, j < i + L), z3.Not(z3.Contains(stops, at(text, j))))),
                 z3.Or(i + L == n, z3.Contains(stops, at(text, i + L))))),
             # with escapes the scan stops only at end of text or in front of a stop character
             z3.Implies(esc, z3.Or(i + L == n, z3.Contains(stops, at(text, i + L))))]
    hook = run.ghost.get("tu_hook")
    if hook is not None:
        facts.extend(hook(text, i, L, stops, esc))
    for f in facts:
        run.pc.append(f)
        run.solver_add(f)
    from contracts.stubs_python import MATCH
    return Val(MATCH, MATCH.mk(i, i + L, z3.SubString(text, i, L)))


REG.stub(("method", "TakeUntilPattern", "match"), _tu_match)
REG.stub(("truth", "ReMatch"), lambda run, v: z3.BoolVal(True))

REG.contract(
    f"{MOD}:_compile_take_until_pattern", prop=P, verify=False, types={"stop_chars": Str, "allow_escapes": Bool}, result=TU,
    note="ASSUMED meaning of the compiled pattern; that the body builds exactly `[^<escaped stops>]*` / `(?:\\\\.|[^<escaped stops>])*` is the syntactic obligation syn#take_until_patterns",
    modifies=[], raises={},
    ensures={"pattern": lambda c: c["result"].t == TU.mk(c["stop_chars"].t, c["allow_escapes"].t)},
)


def check_take_until_patterns():
    m = load_module(MOD)
    fn = m.funcs["_compile_take_until_pattern"].node
    src = ast.unparse(fn)
    want = ["escaped_stops = ''.join((re.escape(c) for c in stop_chars))", "pattern = f'(?:\\\\\\\\.|[^{escaped_stops}])*'", "pattern = f'[^{escaped_stops}]*'", "return re.compile(pattern)"]
    missing = [w for w in want if w not in src]
    return (not missing), ("_compile_take_until_pattern builds the two documented patterns" if not missing else f"pattern construction changed; missing: {missing}\n{src}")


REG.syntactic_check("syn#take_until_patterns", "C09", check_take_until_patterns)


# ------------------------------------------------------------------------------------------------ the automaton
def _st():
    return z3.Function("lex_state", I, I)


Q1, Q2, BS = z3.StringVal("'"), z3.StringVal('"'), z3.StringVal("\\")


def _step(s, c):
    return z3.If(s == 0, z3.If(c == Q1, 1, z3.If(c == Q2, 3, 0)),
           z3.If(s == 1, z3.If(c == BS, 2, z3.If(c == Q1, 0, 1)),
           z3.If(s == 2, 1,
           z3.If(s == 3, z3.If(c == BS, 4, z3.If(c == Q2, 0, 3)),
                 3))))


def end_at(text, j):
    return z3.And(_st()(j) == 0, at(text, j) == z3.StringVal("%"), at(text, j + 1) == z3.StringVal("}"))


def _dtp_entry(run, fr):
    text = fr.vars["text"].t
    n = z3.Length(text)
    st = _st()
    i = z3.FreshConst(I, "i")
    j = z3.FreshConst(I, "j")
    axioms = [
        st(2) == 0,
        z3.ForAll([i], z3.Implies(z3.And(2 <= i, i < n), z3.And(st(i + 1) == _step(st(i), at(text, i)), 0 <= st(i + 1), st(i + 1) <= 4)), patterns=[st(i + 1)]),
    ]

    def tu_hook(text_, a, L, stops, esc):
        """Facts about one take-until chunk [a, a+L) in terms of the automaton."""
        jj = z3.FreshConst(I, "j")
        rng = z3.And(a <= jj, jj <= a + L)
        return [
            # chunk_outside (lemma#chunk_outside from LEM_OUT + the greedy-class axiom): a chunk that stops at both quote
            # characters and starts outside strings stays outside strings
            z3.Implies(z3.And(z3.Not(esc), 2 <= a, st(a) == 0, z3.Contains(stops, Q1), z3.Contains(stops, Q2)),
                       z3.ForAll([jj], z3.Implies(rng, st(jj) == 0), patterns=[st(jj)])),
            # A-RE-ESC (ASSUMED, bounded-tested): (?:\\.|[^q])* started in a q-string consumes exactly the rest of that
            # string: every state on the way is in-string, and it stops in the plain in-string state
            z3.Implies(z3.And(esc, 2 <= a, stops == Q1, st(a) == 1), z3.And(st(a + L) == 1, z3.ForAll([jj], z3.Implies(rng, z3.Or(st(jj) == 1, st(jj) == 2)), patterns=[st(jj)]))),
            z3.Implies(z3.And(esc, 2 <= a, stops == Q2, st(a) == 3), z3.And(st(a + L) == 3, z3.ForAll([jj], z3.Implies(rng, z3.Or(st(jj) == 3, st(jj) == 4)), patterns=[st(jj)]))),
        ]
    run.ghost["tu_hook"] = tu_hook
    for ax in axioms:
        run.pc.append(ax)
    run.assume(z3.SubString(text, 0, 2) == z3.StringVal("{%"))


def _inv_pos(c):
    return z3.And(2 <= c["index"].t, c["index"].t <= c["length"].t, c["length"].t == z3.Length(c["text"].t))


def _inv_state(c):
    return _st()(c["index"].t) == 0


def _inv_no_end_before(c):
    j = z3.Const("bv_j", I)
    return z3.ForAll([j], z3.Implies(z3.And(2 <= j, j < c["index"].t), z3.Not(end_at(c["text"].t, j))))


def _inv_content(c):
    return ops.str_join(z3.StringVal(""), c["result_content"].t) == z3.SubString(c["text"].t, 2, c["index"].t - 2)


def _tok(c, f):
    return TOKEN.proj(c["result"].t, f)


def _e(c):
    return POS.proj(_tok(c, "position"), 1) - c["start_index"].t


REG.contract(
    f"{MOD}:_detailed_tag_parser", prop=P, types={"text": Str, "lineno": Int, "start_index": Int}, result=TOKEN, entry=_dtp_entry,
    locals={"result_content": Seq(Str)},
    requires=[lambda c: c["start_index"].t >= 0],
    modifies=[],
    raises={"TemplateSyntaxError": None},
    loops={0: Loop(inv=[_inv_pos, _inv_state, _inv_no_end_before, qf(_inv_content)], variant="length - index")},
    ensures={
        "block_token": lambda c: _tok(c, "token_type") == TT["BLOCK"],
        "ends_at_the_first_unquoted_end": lambda c: z3.And(
            4 <= _e(c), _e(c) <= z3.Length(c["text"].t), end_at(c["text"].t, _e(c) - 2),
            z3.ForAll([z3.Const("bv_j", I)], z3.Implies(z3.And(2 <= z3.Const("bv_j", I), z3.Const("bv_j", I) < _e(c) - 2), z3.Not(end_at(c["text"].t, z3.Const("bv_j", I)))))),
        "position": lambda c: POS.proj(_tok(c, "position"), 0) == c["start_index"].t,
        "contents_are_the_span_without_delimiters_stripped": lambda c: _tok(c, "contents") == ops.str_strip(z3.SubString(c["text"].t, 2, _e(c) - 4)),
        "lineno": lambda c: _tok(c, "lineno") == c["lineno"].t,
    },
    xensures={"TemplateSyntaxError": {"only_when_no_unquoted_end_exists": lambda c: z3.ForAll(
        [z3.Const("bv_j", I)], z3.Implies(z3.And(2 <= z3.Const("bv_j", I), z3.Const("bv_j", I) + 1 < z3.Length(c["text"].t)), z3.Not(end_at(c["text"].t, z3.Const("bv_j", I)))))}},
)


# ---- induction for LEM_OUT
def _lem_out(step):
    def build():
        text = z3.String("text")
        st = _st()
        a, k = z3.Ints("a k")
        n = z3.Length(text)
        noq = lambda j: z3.And(at(text, j) != Q1, at(text, j) != Q2)
        if not step:
            return [st(a) == 0], st(a) == 0
        return [2 <= a, a <= k, k < n, st(k) == 0, noq(k), st(k + 1) == _step(st(k), at(text, k))], st(k + 1) == 0
    return build


REG.lemma("lemma#run_outside_strings#base", "C09", _lem_out(False), note="induction base of LEM_OUT")
REG.lemma("lemma#run_outside_strings#step", "C09", _lem_out(True), note="induction step of LEM_OUT: one unquoted non-quote character keeps the state outside")

ASSUMES = ["A-PY", "A-INST", "A-RE", "A-DJ"]
NOT_COVERED = [
    "A-RE-ESC: the relation between the escape-aware pattern (?:\\\\.|[^q])* and the automaton's in-string states is assumed (bounded-tested), not proved",
    "the 'differs from stock only by keeping a quoted %}' clause is represented by: token ends at the first %} outside quoted strings (automaton) + equality with stock when no block tag holds a quote",
]


# ------------------------------------------------------------------------------------------- replay on the real code
def _ref_end(text):
    """Reference: end of the first `%}` outside quoted strings (character automaton of the spec), or None."""
    st, i, n = 0, 2, len(text)
    while i < n:
        c = text[i]
        if st == 0:
            if c == "%" and i + 1 < n and text[i + 1] == "}":
                return i + 2
            st = 1 if c == "'" else 3 if c == '"' else 0
        elif st in (1, 3):
            q = "'" if st == 1 else '"'
            st = st + 1 if c == "\\" else 0 if c == q else st
        else:
            st -= 1
        i += 1
    return None


@REG.replay(f"{MOD}:_detailed_tag_parser")
def _replay_dtp(model, ob):
    from django.template.exceptions import TemplateSyntaxError
    from django_components.util.template_parser import _detailed_tag_parser
    cands = []
    t = model.get("in!text", {}).get("str")
    if t and t.startswith("{%"):
        cands.append(t)
    cands += ['{% a "x" 5%b %} t "q" %}', "{%%A%}", '{% a "%}" %}', "{% 'x\\\\' %}", '{% "a" %} {% b %}']
    for text in cands:
        want = _ref_end(text)
        try:
            tok = _detailed_tag_parser(text, 1, 0)
            got = tok.position[1]
            contents_ok = tok.contents == text[2:got - 2].strip()
        except TemplateSyntaxError:
            got, contents_ok = None, True
        if got != want or not contents_ok:
            return {"confirmed": True, "function": "_detailed_tag_parser", "inputs": {"text": text, "lineno": 1, "start_index": 0},
                    "expected": f"token ends at {want} (first %}} outside quoted strings)", "observed": f"ends at {got}" if got else "TemplateSyntaxError"}
    slow = _time_budget()
    if slow:
        return slow
    return {"confirmed": False, "tried": cands}


def _time_budget():
    """BOUNDED stand-in for the cost clause of C12 (the contracts do not model running time): adversarial inputs - long runs of
    backslashes / quotes in unterminated and terminated strings, 4000-character tags - must lex within a generous budget.
    Runs in a child process that is killed when the budget is exceeded."""
    import multiprocessing as mp
    import time
    inputs = {
        "unterminated string with 28 backslashes": '{% a "' + "\\" * 28,
        "unterminated string with 45 backslashes before the tag end": '<div>{% component "' + "\\" * 45 + " %}</div>",
        "unterminated ' string with 46 backslashes before the tag end": "{% component '" + "\\" * 46 + " %}",
        "unterminated string with 40 escaped quotes": "{% a '" + "\\'" * 40,
        "4000 quotes": "{% a " + '"' * 4000 + " %}",
        "tag of 4000 characters": "{% a " + "b=1 " * 1000 + "%}",
        "2000 percent signs": "{% a " + "%" * 2000 + " %}",
    }
    ctx = mp.get_context("fork")
    for label, text in inputs.items():
        p = ctx.Process(target=_lex_once, args=(text,))
        t0 = time.time()
        p.start()
        p.join(4.0)
        if p.is_alive():
            p.kill()
            p.join()
            return {"confirmed": True, "function": "_detailed_tag_parser", "inputs": {"text": label, "length": len(text)},
                    "expected": "lexing a tag of this size takes milliseconds (success or TemplateSyntaxError)", "observed": f"still running after {time.time() - t0:.1f} s (killed)"}
    return None


def _lex_once(text):
    from django.template.exceptions import TemplateSyntaxError
    from django_components.util.template_parser import _detailed_tag_parser, parse_template
    try:
        if text.startswith("{%"):
            _detailed_tag_parser(text, 1, 0)
        parse_template(text)
    except TemplateSyntaxError:
        pass


# =================================================================================================== parse_template
# Stock lexer (django.template.base.DebugLexer.tokenize, A-DJ): for the substring text[s:e) it returns the stock token
# records, a function of (text, s, e).  All facts are stated in coordinates of the ORIGINAL text:
#   nl(i)  = number of newlines in text[:i]                    (spec function; count(text[a:b], "\n") == nl(b) - nl(a))
TOKS = Seq(TOKEN)


def _nl():
    return z3.Function("newlines_before", I, I)


def stock(s, e):
    return z3.Function("stock_tokens", I, I, TOKS.sort())(s, e)


def _split_sub(t, text):
    """t is text itself or SubString(text, s, l): returns (s, e)."""
    t = z3.simplify(t)
    if t.eq(text):
        return z3.IntVal(0), z3.Length(text)
    if z3.is_app(t) and t.decl().kind() == z3.Z3_OP_SEQ_EXTRACT and t.arg(0).eq(text):
        return t.arg(1), z3.simplify(t.arg(1) + t.arg(2))
    raise EngineError(f"DebugLexer on a string that is not a slice of `text`: {t}")


REG.stub("django.template.base.DebugLexer", lambda run, args, kwargs, node: Conc(("obj_kind", "debuglexer", args[0])))


def tpos(t, i):
    return POS.proj(TOKEN.proj(t, "position"), i)


def _tokenize(run, obj, args, kwargs, node):
    text = run.entry_frame.vars["text"].t
    s, e = _split_sub(obj.obj[2].t, text)
    T = stock(s, e)
    n = z3.Length(T)
    k = z3.FreshConst(I, "k")
    nl = _nl()
    rng = z3.And(0 <= k, k < n)
    facts = [
        # contiguous, non-empty spans covering [0, e-s); positions are relative to the lexed substring
        z3.Implies(e > s, z3.And(n >= 1, tpos(T[0], 0) == 0, tpos(T[n - 1], 1) == e - s)),
        z3.Implies(e <= s, n == 0),
        z3.ForAll([k], z3.Implies(rng, z3.And(0 <= tpos(T[k], 0), tpos(T[k], 0) < tpos(T[k], 1), tpos(T[k], 1) <= e - s,
                                              TOKEN.proj(T[k], "lineno") == 1 + nl(s + tpos(T[k], 0)) - nl(s),
                                              # a BLOCK token starts with the block-tag opener
                                              z3.Implies(TOKEN.proj(T[k], "token_type") == TT["BLOCK"], z3.SubString(text, s + tpos(T[k], 0), 2) == z3.StringVal("{%")))),
                  patterns=[T[k]]),
        z3.ForAll([k], z3.Implies(z3.And(0 <= k, k + 1 < n), tpos(T[k], 1) == tpos(T[k + 1], 0)), patterns=[T[k]]),
    ]
    for f in facts:
        run.pc.append(f)
        run.solver_add(f)
    return Val(TOKS, T)


REG.stub(("method", "conc:obj_kind:debuglexer", "tokenize"), _tokenize)


def _count_newlines_hook(run, obj, args, kwargs, node):
    """s.count("\\n"): when s is a slice text[a:b] of the unit's `text`, this is nl(b) - nl(a) (definition of nl)."""
    t = obj.t
    res = ops.str_count(t, run.coerce(args[0], TStr).t)
    try:
        text = run.entry_frame.vars["text"].t
        a, b = _split_sub(t, text)
        if z3.simplify(run.coerce(args[0], TStr).t).eq(z3.StringVal("\n")):
            fact = z3.Implies(z3.And(0 <= a, a <= b, b <= z3.Length(text)), res == _nl()(b) - _nl()(a))
            run.pc.append(fact)
            run.solver_add(fact)
    except (EngineError, KeyError, AttributeError):
        pass
    return Val(TInt, res)


REG.stub(("method", "Str", "count"), _count_newlines_hook)


def _pt_entry(run, fr):
    nl = _nl()
    i = z3.FreshConst(I, "i")
    run.pc.append(nl(0) == 0)
    run.pc.append(z3.ForAll([i], z3.Implies(i >= 0, nl(i) >= 0), patterns=[nl(i)]))


def _resolved_ok(toks, upto_end):
    """The tokens are contiguous from 0 to `upto_end` and each carries lineno = 1 + newlines before its start."""
    nl = _nl()
    k = z3.Const("bv_k", I)
    n = z3.Length(toks)
    return z3.And(
        z3.Implies(n == 0, upto_end == 0),
        z3.Implies(n > 0, z3.And(tpos(toks[0], 0) == 0, tpos(toks[n - 1], 1) == upto_end)),
        z3.ForAll([k], z3.Implies(z3.And(0 <= k, k < n), z3.And(0 <= tpos(toks[k], 0), tpos(toks[k], 0) < tpos(toks[k], 1), tpos(toks[k], 1) <= upto_end))),
        z3.ForAll([k], z3.Implies(z3.And(0 <= k, k < n), TOKEN.proj(toks[k], "lineno") == 1 + nl(tpos(toks[k], 0)))),
        z3.ForAll([k], z3.Implies(z3.And(0 <= k, k + 1 < n), tpos(toks[k], 1) == tpos(toks[k + 1], 0))),
    )


def _outer_inv(c):
    text = c["text"].t
    return z3.And(0 <= c["index_start"].t, c["index_start"].t <= c["index_end"].t, c["index_end"].t == z3.Length(text),
                  c["lineno_offset"].t == _nl()(c["index_start"].t),
                  _resolved_ok(c["resolved_tokens"].t, c["index_start"].t))


def _inner_inv(c):
    """After k stock tokens of this run were shifted and appended (none of them a quoted block tag)."""
    text = c["text"].t
    s, e = c["index_start"].t, c["index_end"].t
    k = c["_i1"].t
    T = stock(s, e)
    prev_end = z3.If(k == 0, s, s + tpos(T[k - 1], 1))
    return z3.And(
        0 <= s, s < e, e == z3.Length(text), c["lineno_offset"].t == _nl()(s), c["_seq1"].t == T,
        z3.Not(TOpt(TOKEN).is_none(c["broken_token"].t)) == z3.BoolVal(False),
        _resolved_ok(c["resolved_tokens"].t, prev_end),
    )


REG.contract(
    f"{MOD}:parse_template", prop="C09", types={"text": Str}, result=TOKS, entry=_pt_entry,
    locals={"resolved_tokens": TOKS, "broken_token": Opt(TOKEN), "tokens": TOKS},
    modifies=[], raises={"TemplateSyntaxError": None},
    loops={0: Loop(inv=[_outer_inv], variant="index_end - index_start"),
           1: Loop(inv=[_inner_inv], variant="len(_seq1) - _i1")},
    ensures={
        # "token spans are contiguous and cover the text exactly ... each token's line number is one plus the number of
        # newlines before its start"
        "contiguous_cover_with_right_line_numbers": lambda c: _resolved_ok(c["result"].t, z3.Length(c["text"].t)),
    },
)


def check_tokens_not_reread():
    """The by-value treatment of Token needs: inside the `for token in tokens` loop the list `tokens` is not read again."""
    m = load_module(MOD)
    fn = m.funcs["parse_template"].node
    loops = [n for n in ast.walk(fn) if isinstance(n, ast.For) and ast.unparse(n.iter) == "tokens"]
    if len(loops) != 1:
        return False, "expected exactly one `for token in tokens` loop"
    bad = [ast.unparse(n) for st in loops[0].body for n in ast.walk(st) if isinstance(n, ast.Name) and n.id in ("tokens", "lexer")]
    after = False
    return (not bad), ("`tokens` / `lexer` are not used inside the loop body" if not bad else f"`tokens`/`lexer` used inside the loop body: {bad}")


REG.syntactic_check("syn#tokens_not_reread", "C09", check_tokens_not_reread)


@REG.replay(f"{MOD}:parse_template")
def _replay_pt(model, ob):
    from django_components.util.template_parser import parse_template
    t = model.get("in!text", {}).get("str") or ""
    cands = [t, 'a\n{% x "1" %}\nb\n{% y "2" %}\nc\n{{ v }}', '{% a\n "q"\n %}\n{{ v }}\n{% b "r" %}x', "{{ a }}\n{% b %}"]
    for text in cands:
        try:
            toks = parse_template(text)
        except Exception as e:
            continue
        pos = 0
        for tk in toks:
            want_line = 1 + text[:tk.position[0]].count("\n")
            if tk.position[0] != pos or tk.lineno != want_line:
                return {"confirmed": True, "function": "parse_template", "inputs": {"text": text},
                        "expected": f"token at {tk.position} contiguous from {pos} with lineno {want_line}", "observed": f"position {tk.position}, lineno {tk.lineno}"}
            pos = tk.position[1]
        if pos != len(text):
            return {"confirmed": True, "function": "parse_template", "inputs": {"text": text}, "expected": f"cover up to {len(text)}", "observed": f"ends at {pos}"}
    return {"confirmed": False, "tried": cands}


def _bounded_lexer(tier, repo):
    from harness.bounded_lexer import run
    return run(repo, maxlen=4 if tier == "thorough" else 3, procs=12)


REG.bounded_check("bounded#token_stream_equals_the_quote_aware_stock_lexer", "C09", _bounded_lexer,
                  note="the stock DebugLexer is trusted and A-RE-ESC assumed in the deductive part, and the verbatim interaction is not compared there: every source of <= 3 (thorough: 4) pieces out of 34 (text, newlines, {{ }}, {# #}, block tags with quoted strings incl. escapes and embedded %} / }} / newlines, multi-line tags, verbatim blocks, stray quotes, unterminated constructs) is lexed by the real parse_template and compared with a reference lexer written from the property")

