"""C09 - the template lexer partitions the source exactly, with the right positions and lines.

_detailed_tag_parser is proved against a character-level automaton (spec function `st`):
   st(i) = state BEFORE reading text[i]:  0 outside strings | 1 in '..' | 2 in '..' after a backslash | 3 in ".." | 4 in ".." after a backslash
   end_at(j)  :=  st(j) == 0 and text[j:j+2] == "%}"          ("a %} that lies outside every quoted string")
The token must end at the FIRST end_at position; TemplateSyntaxError iff there is none.
"""
import ast

import z3

from pyvc import ops
from pyvc.contracts import REG, Bool, Dict, Int, Loop, Obj, Opt, Ref, Seq, Str, Tup, qf
from pyvc.interp import EngineError, ExcVal, PyRaise
from pyvc.repo import load_module
from pyvc.types import NONE, Conc, TBool, TInt, TOpt, TRef, TSeq, TStr, Val, VTuple, mk_int

P = ("C09", "C12")
MOD = "django_components.util.template_parser"
S, I, B = z3.StringSort(), z3.IntSort(), z3.BoolSort()
TOKEN = "Token"
POS = Tup(TInt, TInt, tag="Span", fields=["start", "end"])
REG.heap_class(TOKEN, {"token_type": Int, "contents": Str, "position": POS, "lineno": Int})
TT = {"TEXT": 0, "VAR": 1, "BLOCK": 2, "COMMENT": 3}
for _n, _v in TT.items():
    REG.stub(("value", f"django.template.base.TokenType.{_n}"), mk_int(_v))


def _new_token(run, args, kwargs, node):
    ref = run.alloc(TOKEN)
    for f, v in zip(("token_type", "contents", "position", "lineno"), args):
        run.store_field(ref.t, TOKEN, f, v)
    return ref


REG.stub("django.template.base.Token", _new_token)

# ------------------------------------------------------------------------------------------------ take-until patterns
# the value returned by _compile_take_until_pattern: `[^stops]*`  or  `(?:\\.|[^stops])*`
TU = Tup(TStr, TBool, tag="TakeUntilPattern", fields=["stops", "allow_escapes"])


def tu_len(stops, esc, text, i):
    """A-RE: Pattern.match(text, i) for a take-until pattern always succeeds and consumes a length that is a function of
    (pattern, text, i)."""
    return ops.uf("take_until_len", S, B, S, I, I)(stops, esc, text, i)


def at(text, j):
    return z3.SubString(text, j, 1)


def _tu_match(run, obj, args, kwargs, node):
    text = run.coerce(args[0], TStr).t
    i = run.coerce(args[1], TInt).t if len(args) > 1 else z3.IntVal(0)
    stops, esc = TU.proj(obj.t, 0), TU.proj(obj.t, 1)
    L = tu_len(stops, esc, text, i)
    n = z3.Length(text)
    j = z3.FreshConst(I, "j")
    facts = [L >= 0, i + L <= n,
             # greedy character class (A-RE): without escapes, exactly the leading characters outside `stops` are consumed
             z3.Implies(z3.Not(esc), z3.And(
                 z3.ForAll([j], z3.Implies(z3.And(i <= j, j < i + L), z3.Not(z3.Contains(stops, at(text, j))))),
                 z3.Or(i + L == n, z3.Contains(stops, at(text, i + L))))),
             # with escapes the scan stops only at end of text or in front of a stop character
             z3.Implies(esc, z3.Or(i + L == n, z3.Contains(stops, at(text, i + L))))]
    hook = run.ghost.get("tu_hook")
    if hook is not None:
        facts.extend(hook(text, i, L, stops, esc))
    for f in facts:
        run.pc.append(f)
        run.solver_add(f)
    from contracts.stubs_python import MATCH
    return Val(MATCH, MATCH.mk(i, i + L, z3.SubString(text, i, L)))


REG.stub(("method", "TakeUntilPattern", "match"), _tu_match)
REG.stub(("truth", "ReMatch"), lambda run, v: z3.BoolVal(True))

REG.contract(
    f"{MOD}:_compile_take_until_pattern", prop=P, verify=False, types={"stop_chars": Str, "allow_escapes": Bool}, result=TU,
    note="ASSUMED meaning of the compiled pattern; that the body builds exactly `[^<escaped stops>]*` / `(?:\\\\.|[^<escaped stops>])*` is the syntactic obligation syn#take_until_patterns",
    modifies=[], raises={},
    ensures={"pattern": lambda c: c["result"].t == TU.mk(c["stop_chars"].t, c["allow_escapes"].t)},
)


def check_take_until_patterns():
    m = load_module(MOD)
    fn = m.funcs["_compile_take_until_pattern"].node
    src = ast.unparse(fn)
    want = ["escaped_stops = ''.join((re.escape(c) for c in stop_chars))", "pattern = f'(?:\\\\\\\\.|[^{escaped_stops}])*'", "pattern = f'[^{escaped_stops}]*'", "return re.compile(pattern)"]
    missing = [w for w in want if w not in src]
    return (not missing), ("_compile_take_until_pattern builds the two documented patterns" if not missing else f"pattern construction changed; missing: {missing}\n{src}")


REG.syntactic_check("syn#take_until_patterns", "C09", check_take_until_patterns)


# ------------------------------------------------------------------------------------------------ the automaton
def _st():
    return z3.Function("lex_state", I, I)


Q1, Q2, BS = z3.StringVal("'"), z3.StringVal('"'), z3.StringVal("\\")


def _step(s, c):
    return z3.If(s == 0, z3.If(c == Q1, 1, z3.If(c == Q2, 3, 0)),
           z3.If(s == 1, z3.If(c == BS, 2, z3.If(c == Q1, 0, 1)),
           z3.If(s == 2, 1,
           z3.If(s == 3, z3.If(c == BS, 4, z3.If(c == Q2, 0, 3)),
                 3))))


def end_at(text, j):
    return z3.And(_st()(j) == 0, at(text, j) == z3.StringVal("%"), at(text, j + 1) == z3.StringVal("}"))


def _dtp_entry(run, fr):
    text = fr.vars["text"].t
    n = z3.Length(text)
    st = _st()
    i = z3.FreshConst(I, "i")
    j = z3.FreshConst(I, "j")
    axioms = [
        st(2) == 0,
        z3.ForAll([i], z3.Implies(z3.And(2 <= i, i < n), z3.And(st(i + 1) == _step(st(i), at(text, i)), 0 <= st(i + 1), st(i + 1) <= 4)), patterns=[st(i + 1)]),
    ]

    def tu_hook(text_, a, L, stops, esc):
        """Facts about one take-until chunk [a, a+L) in terms of the automaton."""
        jj = z3.FreshConst(I, "j")
        rng = z3.And(a <= jj, jj <= a + L)
        return [
            # chunk_outside (lemma#chunk_outside from LEM_OUT + the greedy-class axiom): a chunk that stops at both quote
            # characters and starts outside strings stays outside strings
            z3.Implies(z3.And(z3.Not(esc), 2 <= a, st(a) == 0, z3.Contains(stops, Q1), z3.Contains(stops, Q2)),
                       z3.ForAll([jj], z3.Implies(rng, st(jj) == 0), patterns=[st(jj)])),
            # A-RE-ESC (ASSUMED, bounded-tested): (?:\\.|[^q])* started in a q-string consumes exactly the rest of that
            # string: every state on the way is in-string, and it stops in the plain in-string state
            z3.Implies(z3.And(esc, 2 <= a, stops == Q1, st(a) == 1), z3.And(st(a + L) == 1, z3.ForAll([jj], z3.Implies(rng, z3.Or(st(jj) == 1, st(jj) == 2)), patterns=[st(jj)]))),
            z3.Implies(z3.And(esc, 2 <= a, stops == Q2, st(a) == 3), z3.And(st(a + L) == 3, z3.ForAll([jj], z3.Implies(rng, z3.Or(st(jj) == 3, st(jj) == 4)), patterns=[st(jj)]))),
        ]
    run.ghost["tu_hook"] = tu_hook
    for ax in axioms:
        run.pc.append(ax)
    run.assume(z3.SubString(text, 0, 2) == z3.StringVal("{%"))


def _inv_pos(c):
    return z3.And(2 <= c["index"].t, c["index"].t <= c["length"].t, c["length"].t == z3.Length(c["text"].t))


def _inv_state(c):
    return _st()(c["index"].t) == 0


def _inv_no_end_before(c):
    j = z3.Const("bv_j", I)
    return z3.ForAll([j], z3.Implies(z3.And(2 <= j, j < c["index"].t), z3.Not(end_at(c["text"].t, j))))


def _inv_content(c):
    return ops.str_join(z3.StringVal(""), c["result_content"].t) == z3.SubString(c["text"].t, 2, c["index"].t - 2)


def _tok(c, f):
    return z3.Select(c.field(TOKEN, f), c["result"].t)


def _e(c):
    return POS.proj(_tok(c, "position"), 1) - c["start_index"].t


REG.contract(
    f"{MOD}:_detailed_tag_parser", prop=P, types={"text": Str, "lineno": Int, "start_index": Int}, result=Ref(TOKEN), entry=_dtp_entry,
    locals={"result_content": Seq(Str)},
    requires=[lambda c: c["start_index"].t >= 0],
    modifies=[f"{TOKEN}.token_type", f"{TOKEN}.contents", f"{TOKEN}.position", f"{TOKEN}.lineno"],
    raises={"TemplateSyntaxError": None},
    loops={0: Loop(inv=[_inv_pos, _inv_state, _inv_no_end_before, qf(_inv_content)], variant="length - index")},
    ensures={
        "fresh_block_token": lambda c: z3.And(c["result"].t >= z3.Int("next_ref0"), _tok(c, "token_type") == TT["BLOCK"]),
        "ends_at_the_first_unquoted_end": lambda c: z3.And(
            4 <= _e(c), _e(c) <= z3.Length(c["text"].t), end_at(c["text"].t, _e(c) - 2),
            z3.ForAll([z3.Const("bv_j", I)], z3.Implies(z3.And(2 <= z3.Const("bv_j", I), z3.Const("bv_j", I) < _e(c) - 2), z3.Not(end_at(c["text"].t, z3.Const("bv_j", I)))))),
        "position": lambda c: POS.proj(_tok(c, "position"), 0) == c["start_index"].t,
        "contents_are_the_span_without_delimiters_stripped": lambda c: _tok(c, "contents") == ops.str_strip(z3.SubString(c["text"].t, 2, _e(c) - 4)),
        "lineno": lambda c: _tok(c, "lineno") == c["lineno"].t,
    },
    xensures={"TemplateSyntaxError": {"only_when_no_unquoted_end_exists": lambda c: z3.ForAll(
        [z3.Const("bv_j", I)], z3.Implies(z3.And(2 <= z3.Const("bv_j", I), z3.Const("bv_j", I) + 1 < z3.Length(c["text"].t)), z3.Not(end_at(c["text"].t, z3.Const("bv_j", I)))))}},
)


# ---- induction for LEM_OUT
def _lem_out(step):
    def build():
        text = z3.String("text")
        st = _st()
        a, k = z3.Ints("a k")
        n = z3.Length(text)
        noq = lambda j: z3.And(at(text, j) != Q1, at(text, j) != Q2)
        if not step:
            return [st(a) == 0], st(a) == 0
        return [2 <= a, a <= k, k < n, st(k) == 0, noq(k), st(k + 1) == _step(st(k), at(text, k))], st(k + 1) == 0
    return build


REG.lemma("lemma#run_outside_strings#base", "C09", _lem_out(False), note="induction base of LEM_OUT")
REG.lemma("lemma#run_outside_strings#step", "C09", _lem_out(True), note="induction step of LEM_OUT: one unquoted non-quote character keeps the state outside")

ASSUMES = ["A-PY", "A-INST", "A-RE", "A-DJ"]
NOT_COVERED = [
    "A-RE-ESC: the relation between the escape-aware pattern (?:\\\\.|[^q])* and the automaton's in-string states is assumed (bounded-tested), not proved",
    "the 'differs from stock only by keeping a quoted %}' clause is represented by: token ends at the first %} outside quoted strings (automaton) + equality with stock when no block tag holds a quote",
]


# ------------------------------------------------------------------------------------------- replay on the real code
def _ref_end(text):
    """Reference: end of the first `%}` outside quoted strings (character automaton of the spec), or None."""
    st, i, n = 0, 2, len(text)
    while i < n:
        c = text[i]
        if st == 0:
            if c == "%" and i + 1 < n and text[i + 1] == "}":
                return i + 2
            st = 1 if c == "'" else 3 if c == '"' else 0
        elif st in (1, 3):
            q = "'" if st == 1 else '"'
            st = st + 1 if c == "\\" else 0 if c == q else st
        else:
            st -= 1
        i += 1
    return None


@REG.replay(f"{MOD}:_detailed_tag_parser")
def _replay_dtp(model, ob):
    from django.template.exceptions import TemplateSyntaxError
    from django_components.util.template_parser import _detailed_tag_parser
    cands = []
    t = model.get("in!text", {}).get("str")
    if t and t.startswith("{%"):
        cands.append(t)
    cands += ['{% a "x" 5%b %} t "q" %}', "{%%A%}", '{% a "%}" %}', "{% 'x\\\\' %}", '{% "a" %} {% b %}']
    for text in cands:
        want = _ref_end(text)
        try:
            tok = _detailed_tag_parser(text, 1, 0)
            got = tok.position[1]
            contents_ok = tok.contents == text[2:got - 2].strip()
        except TemplateSyntaxError:
            got, contents_ok = None, True
        if got != want or not contents_ok:
            return {"confirmed": True, "function": "_detailed_tag_parser", "inputs": {"text": text, "lineno": 1, "start_index": 0},
                    "expected": f"token ends at {want} (first %}} outside quoted strings)", "observed": f"ends at {got}" if got else "TemplateSyntaxError"}
    return {"confirmed": False, "tried": cands}
