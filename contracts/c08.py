"""C08 - render_dependencies only strips markers and inserts tags where documented."""
import z3

from contracts.stubs_python import MATCH, regex_lang, regex_matches
from pyvc.contracts import REG, Int, Loop, Opt, Str
from pyvc.types import TInt, TOpt, Val

P = "C08"
INS = "django_components.dependencies:_insert_js_css_to_default_locations"
OI = TOpt(TInt)


def _raw_tag(tx):
    return z3.SubString(tx, 2, 4)


def _tag(tx):
    """the tag name the code compares: match[0][2:6].lower()"""
    from pyvc import ops as _ops
    return _ops.str_lower(_raw_tag(tx))


def _case_variants(word):
    import itertools
    return sorted({"".join(p) for p in itertools.product(*[(ch.lower(), ch.upper()) for ch in word])})


VARIANTS = _case_variants("head") + _case_variants("body")


def _lower_ground_facts():
    """A-PY (str.lower on constants, evaluated by CPython itself): lower of each case variant of head / body"""
    from pyvc import ops as _ops
    return [_ops.str_lower(z3.StringVal(v)) == z3.StringVal(v.lower()) for v in VARIANTS]


def _end_tag_regex(run):
    return run.x.eval_const(run, run.x.finfo.module, "head_or_body_end_tag_re").obj


def _fhu():
    return z3.Function("first_head_upto", z3.IntSort(), OI.sort())


def _lbu():
    return z3.Function("last_body_upto", z3.IntSort(), OI.sort())


def _entry(run, fr):
    """Ghost M = matches of the module's own end-tag recogniser on the input document (A-RE), and the recursive
    spec functions  first_head_upto(i) / last_body_upto(i)  = start of the first `head` / last `body` match among
    M[0..i)  (None if there is none).  "first </head>" / "last </body>" of the property = their value at len(M)."""
    rx = _end_tag_regex(run)
    # language fact used instead of the raw membership (proved from the translated pattern: lemma#endtag_lang)
    # (every word of the recogniser has a case variant of head / body at [2:6]; lower() of those constants is known)
    fact = lambda tx: z3.Or(*[z3.And(_raw_tag(tx) == z3.StringVal(v), _tag(tx) == z3.StringVal(v.lower())) for v in VARIANTS])
    Mv = regex_matches(run, rx, fr.vars["html_content"], facts=[fact])
    run.ghost["M"] = Mv
    M = Mv.t
    fhu, lbu = _fhu(), _lbu()
    i = z3.FreshConst(z3.IntSort(), "i")
    head = lambda k: _tag(MATCH.proj(M[k], 2)) == z3.StringVal("head")
    body = lambda k: _tag(MATCH.proj(M[k], 2)) == z3.StringVal("body")
    start = lambda k: MATCH.proj(M[k], 0)
    rng = z3.And(0 <= i, i < z3.Length(M))
    axioms = [
        fhu(0) == OI.none(), lbu(0) == OI.none(),
        z3.ForAll([i], z3.Implies(rng, fhu(i + 1) == z3.If(OI.is_none(fhu(i)), z3.If(head(i), OI.some(start(i)), OI.none()), fhu(i)))),
        z3.ForAll([i], z3.Implies(rng, lbu(i + 1) == z3.If(body(i), OI.some(start(i)), lbu(i)))),
        # consequence of the definitions + A-RE (positions lie inside the document), proved by induction: lemma#upto_bounds
        z3.ForAll([i], z3.Implies(z3.And(0 <= i, i <= z3.Length(M)), z3.And(
            z3.Implies(z3.Not(OI.is_none(fhu(i))), z3.And(0 <= OI.get(fhu(i)), OI.get(fhu(i)) <= z3.Length(fr.vars["html_content"].t))),
            z3.Implies(z3.Not(OI.is_none(lbu(i))), z3.And(0 <= OI.get(lbu(i)), OI.get(lbu(i)) <= z3.Length(fr.vars["html_content"].t)))))),
    ]
    for ax in axioms:
        run.pc.append(ax)
        run.solver_add(ax)


SPECFUNS = {
    "first_head_upto": lambda run, i: Val(OI, _fhu()(run.coerce(i, TInt).t)),
    "last_body_upto": lambda run, i: Val(OI, _lbu()(run.coerce(i, TInt).t)),
}

H = "(None if css_content is None else first_head_upto(len(M)))"
B = "(None if js_content is None else last_body_upto(len(M)))"

REG.contract(
    INS, prop=P, entry=_entry, specfuns=SPECFUNS,
    types={"html_content": Str, "js_content": Opt(Str), "css_content": Opt(Str)},
    result=Opt(Str),
    locals={"first_end_head_tag_index": Opt(Int), "last_end_body_tag_index": Opt(Int)},
    raises={},   # in particular the `raise ValueError` must be unreachable
    loops={0: Loop(index="i", inv=[
        "first_end_head_tag_index == (None if css_content is None else first_head_upto(i))",
        "last_end_body_tag_index == (None if js_content is None else last_body_upto(i))",
    ], variant="len(M) - i", cut=[
        f"first_end_head_tag_index == {H}", f"last_end_body_tag_index == {B}",
        f"implies({H} is not None, 0 <= {H} and {H} <= len(html_content))",
        f"implies({B} is not None, 0 <= {B} and {B} <= len(html_content))",
    ])},
    # Post-conditions come from the property statement: "CSS immediately before the first </head> and JS immediately
    # before the last </body>, otherwise nowhere; every other byte preserved in order".
    ensures={
        "nothing_to_insert": f"implies({H} is None and {B} is None, result is None)",
        "css_only": f"implies({H} is not None and {B} is None, result == html_content[:{H}] + css_content + html_content[{H}:])",
        "js_only": f"implies({H} is None and {B} is not None, result == html_content[:{B}] + js_content + html_content[{B}:])",
        "both_head_first": f"implies({H} is not None and {B} is not None and {H} <= {B}, "
                           f"result == html_content[:{H}] + css_content + html_content[{H}:{B}] + js_content + html_content[{B}:])",
        "both_body_first": f"implies({H} is not None and {B} is not None and {B} < {H}, "
                           f"result == html_content[:{B}] + js_content + html_content[{B}:{H}] + css_content + html_content[{H}:])",
    },
)


def _lemma_endtag_lang():
    """Every word of the end-tag recogniser has `head` or `body` at [2:6] (so the ValueError branch is dead)."""
    from pyvc.repo import load_module
    import ast, re
    m = load_module("django_components.dependencies")
    node = m.consts["head_or_body_end_tag_re"]
    pat = ast.literal_eval(node.args[0])

    def flag_value(a):
        if isinstance(a, ast.BinOp) and isinstance(a.op, ast.BitOr):
            return flag_value(a.left) | flag_value(a.right)
        return int(getattr(re, a.attr))
    flags = 0
    for a in node.args[1:]:
        flags |= flag_value(a)
    lang = regex_lang(("regex", pat, flags, False))
    x = z3.String("x")
    # (the fact used in _entry is this disjunction together with CPython's lower() of the 32 constants)
    return [z3.InRe(x, lang)] + _lower_ground_facts(), z3.Or(*[z3.And(_raw_tag(x) == z3.StringVal(v), _tag(x) == z3.StringVal(v.lower())) for v in VARIANTS])


def _upto_bounds(step):
    """Induction for the 5th axiom of _entry: positions returned by first_head_upto / last_body_upto lie in the document."""
    def build():
        fhu, lbu = _fhu(), _lbu()
        M = z3.Const("M", z3.SeqSort(MATCH.sort()))
        n = z3.Int("doc_len")
        i = z3.Int("i")
        start = MATCH.proj(M[i], 0)
        head = _tag(MATCH.proj(M[i], 2)) == z3.StringVal("head")
        body = _tag(MATCH.proj(M[i], 2)) == z3.StringVal("body")
        ok = lambda k: z3.And(z3.Implies(z3.Not(OI.is_none(fhu(k))), z3.And(0 <= OI.get(fhu(k)), OI.get(fhu(k)) <= n)),
                              z3.Implies(z3.Not(OI.is_none(lbu(k))), z3.And(0 <= OI.get(lbu(k)), OI.get(lbu(k)) <= n)))
        if not step:
            return [fhu(0) == OI.none(), lbu(0) == OI.none()], ok(0)
        hyps = [0 <= i, i < z3.Length(M), ok(i), 0 <= start, start <= n,
                fhu(i + 1) == z3.If(OI.is_none(fhu(i)), z3.If(head, OI.some(start), OI.none()), fhu(i)),
                lbu(i + 1) == z3.If(body, OI.some(start), lbu(i))]
        return hyps, ok(i + 1)
    return build


REG.lemma("lemma#upto_bounds#base", P, _upto_bounds(False), note="induction base for the bounds axiom")
REG.lemma("lemma#upto_bounds#step", P, _upto_bounds(True), note="induction step for the bounds axiom")
REG.lemma("lemma#endtag_lang", P, _lemma_endtag_lang, note="language fact of head_or_body_end_tag_re (regex2smt)")


# ------------------------------------------------------------------------------------------- replay on the real code
def _opt_str(m, name):
    v = m.get(name)
    if v is None:
        return None
    if "str" in v:
        return v["str"]
    sx = v.get("sexpr", "")
    if sx.startswith("(some"):
        import re
        mm = re.search(r'"((?:[^"]|"")*)"', sx)
        return mm.group(1).replace('""', '"') if mm else ""
    return None


def _oracle(html, js, css, rx):
    """The property, computed independently: CSS immediately before the first </head>, JS immediately before the last
    </body> (positions in the ORIGINAL document), nothing else changed; None when nothing is inserted."""
    ms = list(rx.finditer(html))
    heads = [m.start() for m in ms if m[0][2:6] == "head"]
    bodies = [m.start() for m in ms if m[0][2:6] == "body"]
    H = heads[0] if (css is not None and heads) else None
    B = bodies[-1] if (js is not None and bodies) else None
    if H is None and B is None:
        return None
    ins = sorted([(p, k, t) for p, k, t in ((H, 0, css), (B, 1, js)) if p is not None])
    out, last = "", 0
    for p, _k, t in ins:
        out += html[last:p] + t
        last = p
    return out + html[last:]


@REG.replay(INS)
def _replay_ins(model, ob):
    from django_components import dependencies as dep
    css = _opt_str(model, "in!css_content")
    js = _opt_str(model, "in!js_content")
    txt = model.get("in!html_content", {}).get("str", "x")
    css = css if css is not None else ("C" if "both" in ob.name or "css" in ob.name else None)
    js = js if js is not None else ("J" if "both" in ob.name or "js" in ob.name else None)
    docs = [f"</body>{txt}</head>", f"<head></head>{txt}<body></body>", f"</head>{txt}</body></body>", f"</body></head></head>{txt}</body>", txt]
    for html in docs:
        got = dep._insert_js_css_to_default_locations(html, js, css)
        want = _oracle(html, js, css, dep.head_or_body_end_tag_re)
        if got != want:
            return {"confirmed": True, "function": INS, "inputs": {"html_content": html, "js_content": js, "css_content": css},
                    "expected": want, "observed": got}
    return {"confirmed": False, "tried": docs}


# ================================================================================================ render_dependencies
from pyvc import ops  # noqa: E402
from pyvc.contracts import Tup  # noqa: E402
from pyvc.interp import Closure, EngineError, ExcVal, PyRaise  # noqa: E402
from pyvc.types import NONE, Conc, TBool, TStr, VTuple  # noqa: E402

DEP = "django_components.dependencies"
RD = f"{DEP}:render_dependencies"
S_, B_ = z3.StringSort(), z3.BoolSort()
# the input / output value: kind 0 = str, 1 = SafeString, 2 = bytes;  data = the text (kinds 0, 1) or the bytes (latin-1 view)
CONTENT = Tup(Int, Str, tag="Content", fields=["kind", "data"])
OS_ = TOpt(TStr)
REG.contracts[INS].pure = True
REG.contracts[INS].call_entry = _entry


def utf8(s):
    return ops.uf("utf8_encode", S_, S_)(s)


def utf8dec(b):
    return ops.uf("utf8_decode", S_, S_)(b)


def valid(b):
    return ops.uf("utf8_valid", S_, B_)(b)


def _kind(v):
    return CONTENT.proj(v, 0)


def _data(v):
    return CONTENT.proj(v, 1)


def _isinstance_content(run, v, name):
    k = _kind(v.t)
    m = {"SafeString": k == 1, "SafeData": k == 1, "str": z3.Or(k == 0, k == 1), "bytes": k == 2}
    if name not in m:
        raise EngineError(f"isinstance(content, {name})")
    return m[name]


REG.stub(("isinstance_of", "Content"), _isinstance_content)


def _encode(run, t):
    """A-UTF8: str.encode() is injective with inverse bytes.decode() on its image"""
    c = z3.simplify(t)
    if z3.is_string_value(c) and all(ord(ch) < 128 for ch in c.as_string()):
        return Val(TStr, c, pykind="bytes")
    e = utf8(t)
    run.assume(z3.And(valid(e), utf8dec(e) == t))
    return Val(TStr, e, pykind="bytes")


def _concat_parts(t):
    if z3.is_app(t) and t.decl().kind() == z3.Z3_OP_SEQ_CONCAT:
        return [q for ch in t.children() for q in _concat_parts(ch)]
    return [t]


def _decode(run, obj, node):
    t = obj.t
    c = z3.simplify(t)
    if z3.is_string_value(c) and all(ord(ch) < 128 for ch in c.as_string()):
        return Val(TStr, c, pykind="str")
    parts = _concat_parts(t)
    if len(parts) > 1:
        run.assume(z3.Implies(z3.And(*[valid(p_) for p_ in parts]), valid(t)))    # A-UTF8: valid ++ valid is valid
    run.implicit_raise(valid(t), "UnicodeDecodeError", node, "bytes.decode() of bytes that are not UTF-8")
    d = utf8dec(t)
    run.assume(utf8(d) == t)
    return Val(TStr, d, pykind="str")


REG.stub(("method", "Content", "encode"), lambda run, obj, args, kwargs, node: _encode(run, _data(obj.t)))
REG.stub(("method", "Str", "encode"), lambda run, obj, args, kwargs, node: _encode(run, obj.t))
REG.stub(("method", "Str", "decode"), lambda run, obj, args, kwargs, node: _decode(run, obj, node))
REG.stub("django.utils.safestring.mark_safe", lambda run, args, kwargs, node: Val(TStr, run.coerce(args[0], TStr).t, pykind="safe"))


def _to_content(run, v, ty):
    """the value handed back to the caller: its Python type is the static kind of the expression that produced it"""
    kinds = {"str": 0, "safe": 1, "bytes": 2}
    if v.pykind not in kinds:
        raise EngineError("the returned value is built in a way whose str / bytes / SafeString kind is not tracked")
    return Val(CONTENT, CONTENT.mk(z3.IntVal(kinds[v.pykind]), v.t))


REG.stub(("coerce", "Str", "Content"), _to_content)
REG.stub(("coerce", "Content", "Content"), lambda run, v, ty: v)


# ---- _process_dep_declarations: ASSUMED (marker harvest + tag generation; its pieces are C04 / C19)
def pdd(which, b0, ty):
    return ops.uf(f"process_dep_declarations_{which}", S_, S_, S_)(b0, ty)


def _pdd_stub(run, args, kwargs, node):
    a0 = args[0]
    b0 = _data(a0.t) if a0.ty == CONTENT else run.coerce(a0, TStr).t
    ty = run.coerce(args[1], TStr).t
    c1, js, css = pdd("content", b0, ty), pdd("js", b0, ty), pdd("css", b0, ty)
    # generated tags are encoded text; removing (ASCII) marker comments keeps valid UTF-8 valid
    run.assume(z3.And(valid(js), valid(css), z3.Implies(valid(b0), valid(c1))))
    run.ghost["bytes_in"] = Val(TStr, b0)
    run.ghost["c1"], run.ghost["js"], run.ghost["css"] = Val(TStr, c1), Val(TStr, js), Val(TStr, css)
    return VTuple([Val(TStr, c1, pykind="bytes"), Val(TStr, js, pykind="bytes"), Val(TStr, css, pykind="bytes")])


REG.stub(f"{DEP}:_process_dep_declarations", _pdd_stub)

# ---- PLACEHOLDER_REGEX.sub(callback, bytes): A-RE - every match is replaced by callback(match), in order, once each
CSS_NAME, JS_NAME = z3.StringVal("CSS_PLACEHOLDER"), z3.StringVal("JS_PLACEHOLDER")


def subst(c1, cssr, jsr):
    """c1 with every CSS placeholder replaced by cssr and every JS placeholder by jsr"""
    return ops.uf("placeholders_replaced", S_, S_, S_, S_)(c1, cssr, jsr)


def has_ph(kind, c1):
    return ops.uf(f"has_{kind}_placeholder", S_, B_)(c1)


def _ph_sub(run, args, kwargs, node):
    cb, content = args[0], args[1]
    if isinstance(cb, Val) and cb.ty is TStr:
        # a constant replacement: every placeholder of either kind is replaced by it
        c1 = run.coerce(content, TStr).t
        out = subst(c1, cb.t, cb.t)
        run.assume(z3.And(valid(z3.StringVal("")), z3.Implies(z3.And(valid(c1), valid(cb.t)), valid(out))))
        return Val(TStr, out, pykind="bytes")
    if not (isinstance(cb, Conc) and isinstance(cb.obj, Closure)):
        raise EngineError("PLACEHOLDER_REGEX.sub: the replacement is not a local callback")
    clo = cb.obj
    outer = clo.frame
    c1 = run.coerce(content, TStr).t
    rx = run.x.eval_const(run, run.x.finfo.module, "PLACEHOLDER_REGEX").obj
    if not (isinstance(rx, tuple) and rx[0] == "regex"):
        raise EngineError("PLACEHOLDER_REGEX is not a constant pattern")
    run.ghost["ph_regex"] = Conc(rx)
    cssr, jsr = outer.lookup("css_replacement"), outer.lookup("js_replacement")
    if cssr is None or jsr is None:
        raise EngineError("callback does not use css_replacement / js_replacement of the enclosing function")
    flags0 = {n: outer.lookup(n) for n in ("did_find_css_placeholder", "did_find_js_placeholder")}
    # the callback is run on ONE generic match of each kind of word in the pattern's language (lemma#placeholder_lang:
    # a word contains the CSS name or - otherwise - the JS name): what it returns and which flag it sets may depend on
    # nothing else.  The RuntimeError branch must be unreachable.
    for kind, fact in (("css", lambda tx: z3.Contains(tx, CSS_NAME)), ("js", lambda tx: z3.And(z3.Not(z3.Contains(tx, CSS_NAME)), z3.Contains(tx, JS_NAME)))):
        m = z3.FreshConst(MATCH.sort(), f"ph_match_{kind}")
        run.assume(fact(MATCH.proj(m, 2)))
        for n, v0 in flags0.items():
            outer.vars[n] = v0
        try:
            ret = run.x.inline_call(run, clo, [Val(MATCH, m)], {}, node)
        except PyRaise as e:
            run.oblige(f"callback#{kind}_placeholder_does_not_raise", z3.BoolVal(False), kind="safe", note=f"callback raised {e.exc.tname} on a {kind} placeholder")
            raise
        want = cssr if kind == "css" else jsr
        run.oblige(f"callback#{kind}_placeholder_replaced_by_{kind}_tags", run.coerce(ret, TStr).t == want.t, kind="post")
        for n in flags0:
            now = run.truth(outer.lookup(n))
            should = z3.BoolVal(True) if n == f"did_find_{kind}_placeholder" else run.truth(flags0[n])
            run.oblige(f"callback#{kind}_placeholder_sets_only_its_flag", now == should, kind="post")
    # summary over all matches
    outer.vars["did_find_css_placeholder"] = Val(TBool, z3.Or(run.truth(flags0["did_find_css_placeholder"]), has_ph("css", c1)))
    outer.vars["did_find_js_placeholder"] = Val(TBool, z3.Or(run.truth(flags0["did_find_js_placeholder"]), has_ph("js", c1)))
    out = subst(c1, cssr.t, jsr.t)
    run.assume(z3.Implies(z3.And(valid(c1), valid(cssr.t), valid(jsr.t)), valid(out)))
    run.assume(valid(z3.StringVal("")))
    run.ghost["c2"] = Val(TStr, out)
    return Val(TStr, out, pykind="bytes")


def _lemma_placeholder_lang():
    """Every word of PLACEHOLDER_REGEX contains the CSS placeholder name or the JS placeholder name."""
    import re
    import importlib.util
    from pyvc.repo import SRC
    src = open(f"{SRC}/django_components/dependencies.py").read()
    # the pattern is assembled from f-strings / format(): evaluate just those module constants
    import ast as _ast
    tree = _ast.parse(src)
    env = {"re": re}
    # the module constants PLACEHOLDER_REGEX is built from, whatever they are called: its transitive dependencies among the
    # top-level single-name assignments, evaluated in source order
    assigns = {st.targets[0].id: st for st in tree.body if isinstance(st, _ast.Assign) and len(st.targets) == 1 and isinstance(st.targets[0], _ast.Name)}
    want, todo = set(), ["PLACEHOLDER_REGEX"]
    while todo:
        nm = todo.pop()
        if nm in want or nm not in assigns:
            continue
        want.add(nm)
        todo.extend(n.id for n in _ast.walk(assigns[nm].value) if isinstance(n, _ast.Name))
    for st in tree.body:
        if isinstance(st, _ast.Assign) and len(st.targets) == 1 and isinstance(st.targets[0], _ast.Name) and st.targets[0].id in want:
            exec(compile(_ast.Module([st], []), "<consts>", "exec"), env)
    rx = env["PLACEHOLDER_REGEX"]
    lang = regex_lang(("regex", rx.pattern.decode("latin-1"), rx.flags & ~re.UNICODE, True))
    x = z3.String("x")
    return [z3.InRe(x, lang)], z3.Or(z3.Contains(x, CSS_NAME), z3.Contains(x, JS_NAME))


REG.lemma("lemma#placeholder_lang", P, _lemma_placeholder_lang, note="language fact of PLACEHOLDER_REGEX (regex2smt): a match is a CSS or a JS placeholder")


# ---- specification
def _g(c, name):
    return c.ghost[name].t


def _found(c, kind):
    return has_ph(kind, _g(c, "c1"))


def _out(c, b):
    """bytes -> the value of the input's type"""
    return z3.If(_kind(c.old("content").t) == 2, b, utf8dec(b))


def _ins(html, js, css):
    return ops.uf(f"pure_{INS}", S_, OS_.sort(), OS_.sort(), OS_.sort())(html, js, css)


def _doc_default(c):
    """the default-location step of the property: CSS / JS go to </head> / </body> exactly when THEIR placeholder is absent"""
    c2 = subst(_g(c, "c1"), _g(c, "css"), _g(c, "js"))
    css = z3.If(_found(c, "css"), OS_.none(), OS_.some(utf8dec(_g(c, "css"))))
    js = z3.If(_found(c, "js"), OS_.none(), OS_.some(utf8dec(_g(c, "js"))))
    ins = _ins(utf8dec(c2), js, css)
    return z3.If(OS_.is_none(ins), c2, utf8(OS_.get(ins)))


def _is_doc(c):
    return c.old("type").t == z3.StringVal("document")


def _is_frag(c):
    return c.old("type").t == z3.StringVal("fragment")



def _no_decode_error(c):
    """region of F-C08b's complement: the bytes handed to .decode() are UTF-8"""
    return z3.BoolVal(True)


REG.contract(
    RD, prop=P, types={"content": CONTENT, "type": Str}, result=CONTENT,
    calls={"PLACEHOLDER_REGEX.sub": _ph_sub},
    requires=[lambda c: z3.And(0 <= _kind(c["content"].t), _kind(c["content"].t) <= 2)],
    modifies=[],
    raises={"ValueError": lambda c: z3.Not(z3.Or(_is_doc(c), _is_frag(c))),
            # bytes that are not UTF-8 cannot go through the default-location step: finding F-C08b
            "UnicodeDecodeError": lambda c: z3.BoolVal(False)},
    findings={"xpre#UnicodeDecodeError": lambda c: z3.And(_kind(c.old("content").t) == 2, z3.Not(valid(_data(c.old("content").t))), _is_doc(c))},
    ensures={
        # "the str / bytes / SafeString type of the input is preserved"
        "same_type_as_the_input": lambda c: _kind(c["result"].t) == _kind(c.old("content").t),
        # the bytes given to the marker harvest are the input (encoded when it is text)
        "whole_input_is_processed": lambda c: _g(c, "bytes_in") == z3.If(_kind(c.old("content").t) == 2, _data(c.old("content").t), utf8(_data(c.old("content").t))),
        # fragment mode: placeholders removed, JS appended at the end, nothing else
        "fragment_appends_js_at_the_end": lambda c: z3.Implies(_is_frag(c), _data(c["result"].t) == _out(c, z3.Concat(
            subst(_g(c, "c1"), z3.StringVal(""), z3.StringVal("")), _g(c, "js")))),
        # document mode: tags at every placeholder; a kind WITHOUT placeholder goes to its default location
        "document_placeholders_only": lambda c: z3.Implies(z3.And(_is_doc(c), _found(c, "css"), _found(c, "js")),
                                                           _data(c["result"].t) == _out(c, subst(_g(c, "c1"), _g(c, "css"), _g(c, "js")))),
        "document_default_locations_for_the_kinds_without_placeholder": lambda c: z3.Implies(
            z3.And(_is_doc(c), z3.Not(z3.And(_found(c, "css"), _found(c, "js")))), _data(c["result"].t) == _out(c, _doc_default(c))),
    },
)


def _f08b(w):
    from django.conf import settings
    if not settings.configured:
        from tests.django_test_setup import setup_test_config
        setup_test_config({"autodiscover": False})
    from django_components import render_dependencies
    try:
        render_dependencies(b"<html><head></head><body>\xe9</body></html>")
    except UnicodeDecodeError:
        return True
    return False


FINDING_REPLAYS = {"F-C08b": _f08b}


@REG.replay(RD)
def _replay_rd(model, ob):
    """Native scenario battery for the clauses of the contract (the model's values are abstract): one rendered component with
    JS and CSS; documents with no / one / both placeholders; str, SafeString, bytes; document and fragment."""
    import re
    from django.conf import settings
    if not settings.configured:
        from tests.django_test_setup import setup_test_config
        setup_test_config({"autodiscover": False})
    from django.template import Context, Template
    from django.utils.safestring import SafeString, mark_safe
    from django_components import Component, registry, render_dependencies

    class ReplayC08(Component):
        template = "<div>x</div>"
        css = ".replay-c08 { color: red; }"
        js = "console.log('replay-c08');"
    name = "replay_c08"
    if name in registry.all():
        registry.unregister(name)
    registry.register(name, ReplayC08)
    try:
        def raw(t):
            return Template("{% load component_tags %}" + t).render(Context({}))
        probe = render_dependencies(raw("[[C:{% component_css_dependencies %}:C]][[J:{% component_js_dependencies %}:J]]{% component 'replay_c08' / %}"))
        css_blob = re.search(r"\[\[C:(.*?):C\]\]", probe, re.S).group(1)
        js_blob = re.search(r"\[\[J:(.*?):J\]\]", probe, re.S).group(1)
        comp = "{% component 'replay_c08' / %}"
        docs = {
            "no placeholder": "<html><head><title>t</title></head><body>" + comp + "</body></html>",
            "css placeholder only": "<html><head>{% component_css_dependencies %}</head><body>" + comp + "</body></html>",
            "js placeholder only": "<html><head></head><body>" + comp + "{% component_js_dependencies %}<p>é</p></body></html>",
            "both placeholders": "<html><head>{% component_css_dependencies %}</head><body>" + comp + "{% component_js_dependencies %}</body></html>",
        }
        for label, t in docs.items():
            r = raw(t)
            out = render_dependencies(r)
            has_c, has_j = "CSS_PLACEHOLDER" in r, "JS_PLACEHOLDER" in r
            want_css_pos = out.find(css_blob)
            want_js_pos = out.find(js_blob)
            if want_css_pos < 0 or (not has_c and not out[want_css_pos + len(css_blob):].lower().startswith("</head")):
                return {"confirmed": True, "function": "render_dependencies", "inputs": {"document": label, "type": "document"},
                        "expected": "CSS tags at the placeholder, else immediately before the first </head>", "observed": out[:300]}
            if want_js_pos < 0 or (not has_j and not out[want_js_pos + len(js_blob):].lower().startswith("</body")):
                return {"confirmed": True, "function": "render_dependencies", "inputs": {"document": label, "type": "document"},
                        "expected": "JS tags at the placeholder, else immediately before the last </body>", "observed": out[-300:]}
        base = raw(docs["no placeholder"])
        for kind, val in (("str", str(base)), ("SafeString", mark_safe(base)), ("bytes", base.encode())):
            for ty in ("document", "fragment"):
                out = render_dependencies(val, type=ty)
                same = (type(out) is bytes) if kind == "bytes" else (isinstance(out, SafeString) if kind == "SafeString" else (type(out) is str))
                if not same:
                    return {"confirmed": True, "function": "render_dependencies", "inputs": {"input type": kind, "type": ty},
                            "expected": f"a {kind}", "observed": type(out).__name__}
    finally:
        registry.unregister(name)
    return {"confirmed": False}


# ================================================================================================ the middleware
from pyvc.contracts import Obj, Ref  # noqa: E402

MW = f"{DEP}:ComponentDependencyMiddleware._process_response"
RESP = "HttpResponse"
REG.heap_class(RESP, {"content": CONTENT}, module=DEP)     # django's response object: only `.content` is mutable here


def is_streaming(r):
    return ops.uf("response_is_streaming", z3.IntSort(), B_)(r)


def content_type(r):
    return ops.uf("response_content_type_header", z3.IntSort(), S_)(r)


def _isinstance_resp(run, v, name):
    if name != "StreamingHttpResponse":
        raise EngineError(f"isinstance(response, {name})")
    return is_streaming(v.t)


def _resp_get(run, obj, args, kwargs, node):
    k = z3.simplify(run.coerce(args[0], TStr).t)
    if not (z3.is_string_value(k) and k.as_string() == "Content-Type" and len(args) == 2 and z3.is_string_value(z3.simplify(run.coerce(args[1], TStr).t))):
        raise EngineError("response.get(...) other than get('Content-Type', <constant default>)")
    # a missing header yields the default; content_type(r) stands for the header value or that default
    run.ghost["ctype_default"] = run.coerce(args[1], TStr)
    return Val(TStr, content_type(obj.t))


REG.stub(("isinstance_of", f"Ref_{RESP}"), _isinstance_resp)
REG.stub(("method", f"Ref_{RESP}", "get"), _resp_get)


def _rd_call_entry(run, sf):
    run.ghost["rd_content"], run.ghost["rd_type"], run.ghost["rd_result"] = sf.vars["content"], sf.vars["type"], sf.vars["result"]
    for k in ("bytes_in", "c1", "js", "css"):
        run.ghost.setdefault(k, Val(TStr, z3.FreshConst(S_, f"rd_{k}")))      # ghost of the callee's ensures (not used by callers)


REG.contracts[RD].call_entry = _rd_call_entry


def _content(c, old=False):
    return z3.Select(c.field(RESP, "content", old), c.old("response").t)


def _is_html(c):
    r = c.old("response").t
    return z3.And(z3.Not(is_streaming(r)), z3.PrefixOf(z3.StringVal("text/html"), content_type(r)))


def _others_untouched(c):
    r = z3.FreshConst(z3.IntSort(), "r")
    return z3.ForAll([r], z3.Implies(r != c.old("response").t, z3.Select(c.field(RESP, "content"), r) == z3.Select(c.field(RESP, "content", True), r)))


def _rd(c, name, ty):
    """ghost of the render_dependencies call (an unconstrained value when the path made no such call)"""
    return c.ghost[name].t if name in c.ghost else z3.FreshConst(ty.sort(), f"no_{name}")


_MW_REGION = lambda c: z3.And(_is_html(c), z3.Not(valid(_data(_content(c, True)))))

REG.contract(
    MW, prop=P, types={"response": Ref(RESP)}, result=Ref(RESP), self_type=Obj("Middleware"),
    requires=[lambda c: c["response"].t > 0, lambda c: _kind(_content(c)) == 2],       # HttpResponse.content is bytes
    modifies=[f"{RESP}.content"],
    raises={"UnicodeDecodeError": lambda c: z3.BoolVal(False)},
    findings={"xpre#UnicodeDecodeError": _MW_REGION},
    ensures={
        "same_response_object": lambda c: c["result"].t == c.old("response").t,
        # "non-HTML or streaming responses pass through the middleware untouched"
        "streaming_or_non_html_untouched": lambda c: z3.Implies(z3.Not(_is_html(c)), _content(c) == _content(c, True)),
        "no_other_response_touched": _others_untouched,
        "html_body_is_render_dependencies_of_the_old_body_as_a_document": lambda c: z3.Implies(_is_html(c), z3.And(
            _rd(c, "rd_content", CONTENT) == _content(c, True), _rd(c, "rd_type", TStr) == z3.StringVal("document"), _content(c) == _rd(c, "rd_result", CONTENT))),
    },
)


def _f08b_mw(w):
    from django.conf import settings
    if not settings.configured:
        from tests.django_test_setup import setup_test_config
        setup_test_config({"autodiscover": False})
    from django.http import HttpResponse
    from django_components.dependencies import ComponentDependencyMiddleware
    body = "<html><head></head><body>é</body></html>".encode("latin-1")
    mw = ComponentDependencyMiddleware(lambda request: HttpResponse(body, content_type="text/html; charset=latin-1"))
    try:
        mw(None)
    except UnicodeDecodeError:
        return True
    return False


FINDING_REPLAYS["F-C08b-mw"] = _f08b_mw


@REG.replay(MW)
def _replay_mw(model, ob):
    from django.conf import settings
    if not settings.configured:
        from tests.django_test_setup import setup_test_config
        setup_test_config({"autodiscover": False})
    from django.http import HttpResponse, StreamingHttpResponse
    from django_components.dependencies import ComponentDependencyMiddleware
    body = b'<html><head><link name="CSS_PLACEHOLDER"></head><body><script name="JS_PLACEHOLDER"></script></body></html>'
    cases = [("streaming text/html", lambda: StreamingHttpResponse(iter([body]), content_type="text/html"), False),
             ("application/json", lambda: HttpResponse(body, content_type="application/json"), False),
             ("text/plain", lambda: HttpResponse(body, content_type="text/plain"), False),
             ("text/html", lambda: HttpResponse(body, content_type="text/html; charset=utf-8"), True)]
    for label, mk, processed in cases:
        resp = mk()
        before = b"".join(resp.streaming_content) if resp.streaming else resp.content
        if resp.streaming:
            resp = mk()
        out = ComponentDependencyMiddleware(lambda request: resp)(None)
        after = b"".join(out.streaming_content) if out.streaming else out.content
        if out is not resp or (after != before) != processed:
            return {"confirmed": True, "function": "ComponentDependencyMiddleware._process_response", "inputs": {"response": label},
                    "expected": "body rewritten as a document" if processed else "body untouched", "observed": after[:120].decode("latin-1")}
    return {"confirmed": False}

ASSUMES = ["A-PY", "A-INST", "A-LOG", "A-RE", "A-UTF8", "A-UNI", "A-DJ"]
NOT_COVERED = [
    "_process_dep_declarations is an ASSUMED stub here (three functions of (bytes, type)): that it removes only marker comments and generates the right tags is C04 / C19, the marker-stripping re.sub itself is not under contract",
    "Pattern.sub with a callback is ASSUMED to replace every match by callback(match), once each, in order (A-RE); the callback is checked on one generic CSS-kind and one generic JS-kind match (every word of PLACEHOLDER_REGEX is one or the other: lemma#placeholder_lang)",
    "validity of UTF-8 under concatenation / placeholder substitution is assumed (A-UTF8); django's HttpResponse is modelled as an object with a bytes `.content`, an immutable header and a streaming flag",
    "the str / bytes / SafeString kind of the returned value is tracked statically through encode / decode / mark_safe / + (a returned value built any other way is a checker failure, not a pass)",
]


def _lemma_endtag_accepts_variants():
    """From the property ("end tags in any order and case / whitespace variants"): the library's end-tag recogniser accepts EVERY
    case variant of </head> / </body> with optional whitespace before `>` (HTML tag names are case-insensitive)."""
    import ast
    import re
    from pyvc.regex2smt import translate
    from pyvc.repo import load_module
    m = load_module("django_components.dependencies")
    node = m.consts["head_or_body_end_tag_re"]
    pat = ast.literal_eval(node.args[0])

    def flag_value(a):
        if isinstance(a, ast.BinOp) and isinstance(a.op, ast.BitOr):
            return flag_value(a.left) | flag_value(a.right)
        return int(getattr(re, a.attr))
    flags = 0
    for a in node.args[1:]:
        flags |= flag_value(a)
    lang = regex_lang(("regex", pat, flags, False))
    ref = translate(r"</(?:head|body)[ \t\n\r\f]*>", re.IGNORECASE | re.ASCII)
    x = z3.String("x")
    return [z3.InRe(x, ref)], z3.InRe(x, lang)


REG.lemma("lemma#endtag_recogniser_accepts_case_and_whitespace_variants", P, _lemma_endtag_accepts_variants,
          note="language inclusion: (?i)</(head|body)[ \\t\\n\\r\\f]*> is contained in the language of head_or_body_end_tag_re (regex2smt)")


def _replay_endtag_variants(model, ob):
    from django_components import dependencies as dep
    cands = []
    x = (model or {}).get("x", {}).get("str")
    if x:
        cands.append(x)
    cands += ["</HEAD>", "</Body>", "</BODY\n>", "</head\t >"]
    for tag in cands:
        doc = "<html>" + tag + "</html>"
        is_head = tag[2:6].lower() == "head"
        got = dep._insert_js_css_to_default_locations(doc, js_content=None if is_head else "JS", css_content="CSS" if is_head else None)
        want = "<html>" + ("CSS" if is_head else "JS") + tag + "</html>"
        if got != want:
            return {"confirmed": True, "function": "_insert_js_css_to_default_locations", "inputs": {"html_content": doc, "css_content" if is_head else "js_content": "CSS" if is_head else "JS"},
                    "expected": want, "observed": repr(got)}
    return {"confirmed": False}


REG.replays[("lemma", "lemma#endtag_recogniser_accepts_case_and_whitespace_variants")] = _replay_endtag_variants


def _bounded_render_deps(tier, repo):
    from harness.bounded_render_deps import run
    return run(repo, 3 if tier == "thorough" else 2)


REG.bounded_check("bounded#render_dependencies_end_to_end", P, _bounded_render_deps,
                  note="_process_dep_declarations' marker harvest is an ASSUMED stub in the deductive part: every document of <= 2 (thorough: 3) pieces out of 13 (end tags in case / whitespace variants, look-alikes, non-ASCII, '<' and '%', both placeholders, a rendered component with its marker) x (str, SafeString, bytes) x (document, fragment) goes through the real render_dependencies and is compared with the property computed by string surgery")
