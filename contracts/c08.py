"""C08 - render_dependencies only strips markers and inserts tags where documented."""
import z3

from contracts.stubs_python import MATCH, regex_lang, regex_matches
from pyvc.contracts import REG, Int, Loop, Opt, Str
from pyvc.types import TInt, TOpt, Val

P = "C08"
INS = "django_components.dependencies:_insert_js_css_to_default_locations"
OI = TOpt(TInt)


def _tag(tx):
    return z3.SubString(tx, 2, 4)


def _end_tag_regex(run):
    return run.x.eval_const(run, run.x.finfo.module, "head_or_body_end_tag_re").obj


def _fhu():
    return z3.Function("first_head_upto", z3.IntSort(), OI.sort())


def _lbu():
    return z3.Function("last_body_upto", z3.IntSort(), OI.sort())


def _entry(run, fr):
    """Ghost M = matches of the module's own end-tag recogniser on the input document (A-RE), and the recursive
    spec functions  first_head_upto(i) / last_body_upto(i)  = start of the first `head` / last `body` match among
    M[0..i)  (None if there is none).  "first </head>" / "last </body>" of the property = their value at len(M)."""
    rx = _end_tag_regex(run)
    # language fact used instead of the raw membership (proved from the translated pattern: lemma#endtag_lang)
    fact = lambda tx: z3.Or(_tag(tx) == z3.StringVal("head"), _tag(tx) == z3.StringVal("body"))
    Mv = regex_matches(run, rx, fr.vars["html_content"], facts=[fact])
    run.ghost["M"] = Mv
    M = Mv.t
    fhu, lbu = _fhu(), _lbu()
    i = z3.FreshConst(z3.IntSort(), "i")
    head = lambda k: _tag(MATCH.proj(M[k], 2)) == z3.StringVal("head")
    body = lambda k: _tag(MATCH.proj(M[k], 2)) == z3.StringVal("body")
    start = lambda k: MATCH.proj(M[k], 0)
    rng = z3.And(0 <= i, i < z3.Length(M))
    axioms = [
        fhu(0) == OI.none(), lbu(0) == OI.none(),
        z3.ForAll([i], z3.Implies(rng, fhu(i + 1) == z3.If(OI.is_none(fhu(i)), z3.If(head(i), OI.some(start(i)), OI.none()), fhu(i)))),
        z3.ForAll([i], z3.Implies(rng, lbu(i + 1) == z3.If(body(i), OI.some(start(i)), lbu(i)))),
        # consequence of the definitions + A-RE (positions lie inside the document), proved by induction: lemma#upto_bounds
        z3.ForAll([i], z3.Implies(z3.And(0 <= i, i <= z3.Length(M)), z3.And(
            z3.Implies(z3.Not(OI.is_none(fhu(i))), z3.And(0 <= OI.get(fhu(i)), OI.get(fhu(i)) <= z3.Length(fr.vars["html_content"].t))),
            z3.Implies(z3.Not(OI.is_none(lbu(i))), z3.And(0 <= OI.get(lbu(i)), OI.get(lbu(i)) <= z3.Length(fr.vars["html_content"].t)))))),
    ]
    for ax in axioms:
        run.pc.append(ax)
        run.solver_add(ax)


SPECFUNS = {
    "first_head_upto": lambda run, i: Val(OI, _fhu()(run.coerce(i, TInt).t)),
    "last_body_upto": lambda run, i: Val(OI, _lbu()(run.coerce(i, TInt).t)),
}

H = "(None if css_content is None else first_head_upto(len(M)))"
B = "(None if js_content is None else last_body_upto(len(M)))"

REG.contract(
    INS, prop=P, entry=_entry, specfuns=SPECFUNS,
    types={"html_content": Str, "js_content": Opt(Str), "css_content": Opt(Str)},
    result=Opt(Str),
    locals={"first_end_head_tag_index": Opt(Int), "last_end_body_tag_index": Opt(Int)},
    raises={},   # in particular the `raise ValueError` must be unreachable
    loops={0: Loop(index="i", inv=[
        "first_end_head_tag_index == (None if css_content is None else first_head_upto(i))",
        "last_end_body_tag_index == (None if js_content is None else last_body_upto(i))",
    ], variant="len(M) - i", cut=[
        f"first_end_head_tag_index == {H}", f"last_end_body_tag_index == {B}",
        f"implies({H} is not None, 0 <= {H} and {H} <= len(html_content))",
        f"implies({B} is not None, 0 <= {B} and {B} <= len(html_content))",
    ])},
    # Post-conditions come from the property statement: "CSS immediately before the first </head> and JS immediately
    # before the last </body>, otherwise nowhere; every other byte preserved in order".
    ensures={
        "nothing_to_insert": f"implies({H} is None and {B} is None, result is None)",
        "css_only": f"implies({H} is not None and {B} is None, result == html_content[:{H}] + css_content + html_content[{H}:])",
        "js_only": f"implies({H} is None and {B} is not None, result == html_content[:{B}] + js_content + html_content[{B}:])",
        "both_head_first": f"implies({H} is not None and {B} is not None and {H} <= {B}, "
                           f"result == html_content[:{H}] + css_content + html_content[{H}:{B}] + js_content + html_content[{B}:])",
        "both_body_first": f"implies({H} is not None and {B} is not None and {B} < {H}, "
                           f"result == html_content[:{B}] + js_content + html_content[{B}:{H}] + css_content + html_content[{H}:])",
    },
)


def _lemma_endtag_lang():
    """Every word of the end-tag recogniser has `head` or `body` at [2:6] (so the ValueError branch is dead)."""
    from pyvc.repo import load_module
    import ast, re
    m = load_module("django_components.dependencies")
    node = m.consts["head_or_body_end_tag_re"]
    pat = ast.literal_eval(node.args[0])
    flags = 0
    for a in node.args[1:]:
        flags |= getattr(re, a.attr)
    lang = regex_lang(("regex", pat, flags, False))
    x = z3.String("x")
    return [z3.InRe(x, lang)], z3.Or(_tag(x) == z3.StringVal("head"), _tag(x) == z3.StringVal("body"))


def _upto_bounds(step):
    """Induction for the 5th axiom of _entry: positions returned by first_head_upto / last_body_upto lie in the document."""
    def build():
        fhu, lbu = _fhu(), _lbu()
        M = z3.Const("M", z3.SeqSort(MATCH.sort()))
        n = z3.Int("doc_len")
        i = z3.Int("i")
        start = MATCH.proj(M[i], 0)
        head = _tag(MATCH.proj(M[i], 2)) == z3.StringVal("head")
        body = _tag(MATCH.proj(M[i], 2)) == z3.StringVal("body")
        ok = lambda k: z3.And(z3.Implies(z3.Not(OI.is_none(fhu(k))), z3.And(0 <= OI.get(fhu(k)), OI.get(fhu(k)) <= n)),
                              z3.Implies(z3.Not(OI.is_none(lbu(k))), z3.And(0 <= OI.get(lbu(k)), OI.get(lbu(k)) <= n)))
        if not step:
            return [fhu(0) == OI.none(), lbu(0) == OI.none()], ok(0)
        hyps = [0 <= i, i < z3.Length(M), ok(i), 0 <= start, start <= n,
                fhu(i + 1) == z3.If(OI.is_none(fhu(i)), z3.If(head, OI.some(start), OI.none()), fhu(i)),
                lbu(i + 1) == z3.If(body, OI.some(start), lbu(i))]
        return hyps, ok(i + 1)
    return build


REG.lemma("lemma#upto_bounds#base", P, _upto_bounds(False), note="induction base for the bounds axiom")
REG.lemma("lemma#upto_bounds#step", P, _upto_bounds(True), note="induction step for the bounds axiom")
REG.lemma("lemma#endtag_lang", P, _lemma_endtag_lang, note="language fact of head_or_body_end_tag_re (regex2smt)")


# ------------------------------------------------------------------------------------------- replay on the real code
def _opt_str(m, name):
    v = m.get(name)
    if v is None:
        return None
    if "str" in v:
        return v["str"]
    sx = v.get("sexpr", "")
    if sx.startswith("(some"):
        import re
        mm = re.search(r'"((?:[^"]|"")*)"', sx)
        return mm.group(1).replace('""', '"') if mm else ""
    return None


def _oracle(html, js, css, rx):
    """The property, computed independently: CSS immediately before the first </head>, JS immediately before the last
    </body> (positions in the ORIGINAL document), nothing else changed; None when nothing is inserted."""
    ms = list(rx.finditer(html))
    heads = [m.start() for m in ms if m[0][2:6] == "head"]
    bodies = [m.start() for m in ms if m[0][2:6] == "body"]
    H = heads[0] if (css is not None and heads) else None
    B = bodies[-1] if (js is not None and bodies) else None
    if H is None and B is None:
        return None
    ins = sorted([(p, k, t) for p, k, t in ((H, 0, css), (B, 1, js)) if p is not None])
    out, last = "", 0
    for p, _k, t in ins:
        out += html[last:p] + t
        last = p
    return out + html[last:]


@REG.replay(INS)
def _replay_ins(model, ob):
    from django_components import dependencies as dep
    css = _opt_str(model, "in!css_content")
    js = _opt_str(model, "in!js_content")
    txt = model.get("in!html_content", {}).get("str", "x")
    css = css if css is not None else ("C" if "both" in ob.name or "css" in ob.name else None)
    js = js if js is not None else ("J" if "both" in ob.name or "js" in ob.name else None)
    docs = [f"</body>{txt}</head>", f"<head></head>{txt}<body></body>", f"</head>{txt}</body></body>", f"</body></head></head>{txt}</body>", txt]
    for html in docs:
        got = dep._insert_js_css_to_default_locations(html, js, css)
        want = _oracle(html, js, css, dep.head_or_body_end_tag_re)
        if got != want:
            return {"confirmed": True, "function": INS, "inputs": {"html_content": html, "js_content": js, "css_content": css},
                    "expected": want, "observed": got}
    return {"confirmed": False, "tried": docs}
