"""C17 - the static-files finder exposes exactly the allowed, non-forbidden files."""
import ast

import z3

from contracts.stubs_python import PATTERN, pattern_found, rx_search
from pyvc import ops
from pyvc.contracts import REG, Bool, Int, Loop, Obj, Opt, Seq, Str, Tup
from pyvc.interp import ExcVal, PyRaise
from pyvc.types import NONE, Conc, TBool, TInt, TStr, Val

P = "C17"
MOD = "django_components.finders"
MISC = "django_components.util.misc"
# a configured entry: a suffix string, or a compiled pattern (opaque, identified by rx)
ENTRY = Tup(TBool, TStr, TInt, tag="StrOrPattern", fields=["is_str", "s", "rx"])
ENTRIES = Seq(ENTRY)
PATTERNS = Seq(PATTERN)
FINDER = None
REG.heap_class("ComponentsFileSystemFinder", {}, module=MOD)
S, I = z3.StringSort(), z3.IntSort()

REG.stub(("isinstance", "str"), lambda run, v: ENTRY.proj(v.t, 0) if v.ty == ENTRY else (_ for _ in ()).throw(Exception("isinstance str on " + str(v.ty))))


# `p` used as a pattern when it is not a str: the opaque compiled pattern it stands for
def _entry_as_pattern(run, v, ty):
    return Val(PATTERN, PATTERN.mk(z3.BoolVal(False), z3.StringVal(""), z3.BoolVal(False), ENTRY.proj(v.t, 2)))


def _entry_to_str(run, v):
    return Val(TStr, ENTRY.proj(v.t, 1))


REG.stub(("coerce", "StrOrPattern", "Pattern"), _entry_as_pattern)
REG.stub(("tostr", "StrOrPattern"), _entry_to_str)
def _entry_str_checked(run, v, ty):
    run.oblige("type#entry_used_as_str_is_str", ENTRY.proj(v.t, 0), kind="safe", note="a configured entry is used as a str (TypeError for a compiled pattern)")
    return _entry_to_str(run, v)


REG.stub(("coerce", "StrOrPattern", "Str"), _entry_str_checked)


def _entry_search(run, obj, args, kwargs, node):
    from pyvc.types import TRef
    run.oblige("type#entry_searched_is_pattern", z3.Not(ENTRY.proj(obj.t, 0)), kind="safe", note="`.search` on a configured entry (AttributeError for a str)")
    return Val(TRef("ReMatchObj"), z3.If(rx_search(ENTRY.proj(obj.t, 2), run.coerce(args[0], TStr).t), 1, 0))


REG.stub(("method", "StrOrPattern", "search"), _entry_search)

# app_settings.STATIC_FILES_ALLOWED / _FORBIDDEN: arbitrary configured lists
REG.stub(("new", "InternalSettings"), lambda run, args, kwargs, node: Conc(("obj_kind", "app_settings")))
REG.stub(("getattr", "conc:obj_kind:app_settings", "STATIC_FILES_ALLOWED"), lambda run, obj, node: Val(ENTRIES, z3.Const("setting!STATIC_FILES_ALLOWED", ENTRIES.sort())))
REG.stub(("getattr", "conc:obj_kind:app_settings", "STATIC_FILES_FORBIDDEN"), lambda run, obj, node: Val(ENTRIES, z3.Const("setting!STATIC_FILES_FORBIDDEN", ENTRIES.sort())))


def hit(entry, path):
    """The property's reading of one configured entry: suffix test for a str, search for a compiled pattern."""
    return z3.If(ENTRY.proj(entry, 0), z3.SuffixOf(ENTRY.proj(entry, 1), path), rx_search(ENTRY.proj(entry, 2), path))


def any_hit(entries, path):
    i = z3.Const("bv_i", I)
    return z3.Exists([i], z3.And(0 <= i, i < z3.Length(entries), hit(entries[i], path)))


# ================================================================================================ util/misc helpers
def _any_found(c):
    i = z3.Const("bv_i", I)
    P_ = c["patterns"].t
    return z3.Exists([i], z3.And(0 <= i, i < z3.Length(P_), pattern_found(P_[i], c["string"].t)))


REG.contract(f"{MISC}:any_regex_match", prop=P, types={"string": Str, "patterns": PATTERNS}, result=Bool, modifies=[], raises={},
             ensures={"exists_match": lambda c: c["result"].t == _any_found(c)})
REG.contract(f"{MISC}:no_regex_match", prop=P, types={"string": Str, "patterns": PATTERNS}, result=Bool, modifies=[], raises={},
             ensures={"no_match": lambda c: c["result"].t == z3.Not(_any_found(c))})

# ================================================================================================ _is_path_valid
ALLOWED = z3.Const("setting!STATIC_FILES_ALLOWED", ENTRIES.sort())
FORBIDDEN = z3.Const("setting!STATIC_FILES_FORBIDDEN", ENTRIES.sort())


def _watch_valid(c, when):
    if when != "pre":
        return {}
    return {"n_allowed": z3.Length(ALLOWED), "n_forbidden": z3.Length(FORBIDDEN),
            "a0_is_str": ENTRY.proj(ALLOWED[0], 0), "a0_s": ENTRY.proj(ALLOWED[0], 1),
            "f0_is_str": ENTRY.proj(FORBIDDEN[0], 0), "f0_s": ENTRY.proj(FORBIDDEN[0], 1)}


REG.contract(
    f"{MOD}:ComponentsFileSystemFinder._is_path_valid", prop=P, types={"path": Str}, result=Bool, watch=_watch_valid,
    modifies=[], raises={},
    locals={"allowed_patterns": PATTERNS, "forbidden_patterns": PATTERNS},
    reveal=["c17_exposed"],
    ensures={
        # from the property: exposed iff the name ends with an allowed suffix or matches an allowed pattern and matches no forbidden one
        "exactly_allowed_and_not_forbidden": lambda c: c["result"].t == z3.And(any_hit(ALLOWED, c["path"].t), z3.Not(any_hit(FORBIDDEN, c["path"].t))),
        # the same fact under a NAME: callers (find / list, c17b) carry `exposed(path)` as an atom; only this unit unfolds it
        "is_the_exposed_predicate": lambda c: c["result"].t == c.opaque("c17_exposed", [c["path"].t], lambda p: z3.And(any_hit(ALLOWED, p), z3.Not(any_hit(FORBIDDEN, p)))),
    },
)


# ================================================================================================ find_location
def within(root, p):
    """p is root itself or lies below it (what django.utils._os.safe_join guarantees)."""
    return z3.Or(p == root, z3.PrefixOf(z3.Concat(root, z3.StringVal("/")), p))


def _safe_join(run, args, kwargs, node):
    """django.utils._os.safe_join(base, *paths): the normalised absolute join, or SuspiciousFileOperation when it would
    leave base."""
    base, path = run.coerce(args[0], TStr), run.coerce(args[1], TStr)
    res = ops.uf("safe_join", S, S, S)(base.t, path.t)
    if run.choose(2, None) == 1:
        raise PyRaise(ExcVal("SuspiciousFileOperation", [], site="safe_join"))
    run.assume(within(ops.uf("abspath", S, S)(base.t), res))
    return Val(TStr, res)


REG.stub("django.utils._os.safe_join", _safe_join)
REG.stub("os.path.exists", lambda run, args, kwargs, node: Val(TBool, ops.uf("fs_exists", S, z3.BoolSort())(run.coerce(args[0], TStr).t)))
REG.stub("os.path.abspath", lambda run, args, kwargs, node: Val(TStr, ops.uf("abspath", S, S)(run.coerce(args[0], TStr).t)))
REG.stub("os.path.join", lambda run, args, kwargs, node: Val(TStr, ops.uf("os_path_join", S, S, S)(run.coerce(args[0], TStr).t, run.coerce(args[1], TStr).t)))
REG.stub("os.sep", None)


def _splitext(run, args, kwargs, node):
    """os.path.splitext(p) -> (root, ext): root + ext == p; ext is empty or starts at the LAST dot of the last component."""
    from pyvc.types import VTuple
    p = run.coerce(args[0], TStr).t
    root, ext = ops.uf("splitext_root", S, S)(p), ops.uf("splitext_ext", S, S)(p)
    rest = z3.SubString(ext, 1, z3.Length(ext))
    run.assume(z3.Concat(root, ext) == p)
    run.assume(z3.Or(ext == z3.StringVal(""), z3.And(z3.PrefixOf(z3.StringVal("."), ext), z3.Not(z3.Contains(rest, z3.StringVal("."))),
                                                     z3.Not(z3.Contains(ext, z3.StringVal("/"))))))
    return VTuple([Val(TStr, root), Val(TStr, ext)])


REG.stub("os.path.splitext", _splitext)

REG.contract(
    f"{MOD}:ComponentsFileSystemFinder.find_location", prop=P, types={"root": Str, "path": Str, "prefix": Opt(Str)}, result=Opt(Str),
    modifies=[], raises={"SuspiciousFileOperation": None},
    ensures={
        "only_valid_existing_files_below_root": lambda c: z3.Implies(
            z3.Not(Opt(Str).is_none(c["result"].t)),
            z3.And(within(ops.uf("abspath", S, S)(c["root"].t), Opt(Str).get(c["result"].t)),
                   ops.uf("fs_exists", S, z3.BoolSort())(Opt(Str).get(c["result"].t)),
                   any_hit(ALLOWED, Opt(Str).get(c["result"].t)), z3.Not(any_hit(FORBIDDEN, Opt(Str).get(c["result"].t))))),
        # the same, with the predicate under its name (for callers that carry it as an atom)
        "only_exposed_existing_files_below_root": lambda c: z3.Implies(
            z3.Not(Opt(Str).is_none(c["result"].t)),
            z3.And(within(ops.uf("abspath", S, S)(c["root"].t), Opt(Str).get(c["result"].t)),
                   ops.uf("fs_exists", S, z3.BoolSort())(Opt(Str).get(c["result"].t)),
                   ops.uf("c17_exposed", S, z3.BoolSort())(Opt(Str).get(c["result"].t)))),
    },
)


# ================================================================================================ default settings
def _default_lists():
    """The two default lists, read from app_settings.py of the current tree."""
    import re
    from pyvc.repo import load_module
    m = load_module("django_components.app_settings")
    node = m.consts["defaults"]
    out = {}
    for kw in node.keywords:
        if kw.arg in ("static_files_allowed", "static_files_forbidden"):
            vals = []
            for e in kw.value.elts:
                if isinstance(e, ast.Constant) and isinstance(e.value, str):
                    vals.append(e.value)
                else:
                    vals.append(None)   # not a plain suffix
            out[kw.arg] = vals
    return out


def _lemma_defaults():
    """With the default settings no path ending in a Python / template suffix satisfies the property's predicate."""
    d = _default_lists()
    path = z3.String("path")
    forb = d["static_files_forbidden"]
    need = [".py", ".pyc", ".html", ".django", ".dj", ".tpl"]
    hyps = [z3.Or(*[z3.SuffixOf(z3.StringVal(s), path) for s in need])]
    forbidden_hit = z3.Or(*[z3.SuffixOf(z3.StringVal(s), path) for s in forb if s is not None]) if any(s is not None for s in forb) else z3.BoolVal(False)
    return hyps, forbidden_hit


REG.lemma("lemma#defaults_forbid_python_and_templates", P, _lemma_defaults, note="ground query over the default lists of app_settings.py")

ASSUMES = ["A-PY", "A-INST", "A-RE", "A-DJ"]
NOT_COVERED = [
    "ComponentsFileSystemFinder.__init__ (locations / storages from get_component_dirs) is not under contract: find / list assume its class invariant (one storage per location root); Django's get_files (storage walk, ignore patterns) and collectstatic are trusted",
    "user-supplied compiled patterns are opaque (rx_search)",
]


# ------------------------------------------------------------------------------------------- replay on the real code
@REG.replay(f"{MOD}:ComponentsFileSystemFinder._is_path_valid")
def _replay_valid(model, ob):
    import itertools
    import re
    from django.conf import settings
    if not settings.configured:
        from tests.django_test_setup import setup_test_config
        setup_test_config({"autodiscover": False})
    from django.test import override_settings
    from django_components.finders import ComponentsFileSystemFinder

    def get(name):
        v = model.get(name, {})
        return v.get("str") if "str" in v else None
    cands = [s for s in (get("watch!pre.a0_s"), get("watch!pre.f0_s"), ".tar.gz", ".min.js", ".js", "+x", ".d.ts") if s]
    paths = set()
    for s in cands:
        base = "file" + s
        paths.update({base, base + "\n", "file" + s.replace(".", "x"), "file" + s[:1] + s[1:].replace(".", "A"), "file" + s + "x", s})
    finder = ComponentsFileSystemFinder.__new__(ComponentsFileSystemFinder)
    for allowed, forbidden in itertools.product([[s] for s in cands] + [[]], [[s] for s in cands] + [[]]):
        with override_settings(COMPONENTS={"static_files_allowed": allowed, "static_files_forbidden": forbidden}):
            for path in sorted(paths):
                want = any(path.endswith(a) for a in allowed) and not any(path.endswith(f) for f in forbidden)
                try:
                    got = finder._is_path_valid(path)
                except Exception as e:
                    got = f"{type(e).__name__}: {e}"
                if got != want:
                    return {"confirmed": True, "function": "ComponentsFileSystemFinder._is_path_valid",
                            "inputs": {"static_files_allowed": allowed, "static_files_forbidden": forbidden, "path": path},
                            "expected": want, "observed": got}
    return {"confirmed": False, "tried": len(paths)}


def _bounded_finder(tier, repo):
    from harness.bounded_finder import run
    return run(repo)


REG.bounded_check("bounded#finder_list_and_find_expose_exactly_the_allowed_files", P, _bounded_finder,
                  note="ComponentsFileSystemFinder.list / find (loops over locations, storages) are not under contract: a real components directory with 14 files (allowed / forbidden suffixes, look-alikes, upper case, nested) is served through the real finder under 4 configurations; list() and find() must expose exactly the allowed, not forbidden files.  Observation (not a finding: the property does not say which string is matched): list() tests the path RELATIVE to the location, find() the ABSOLUTE path, so a compiled pattern that mentions a directory separator can hide a file from find() and not from list()")

import contracts.c17b  # noqa: E402,F401  (find / list)
