"""C02 - tag arguments reach Python with exactly the values they denote.

PROVED: the semantic core - TagValueStruct.resolve (simple / list / dict literals with spreads at each level) against a
denotational spec; is_aggregate_key.  `den(entry, ctx)` is the (uninterpreted) denotation of one compiled entry - a stock
Django FilterExpression for atoms, or a nested literal; python values are an opaque sort VALUE.
BOUNDED stand-in: parse_tag layout invariance / denotation over the documented grammar (harness/grammar_tags.py).
"""
import z3

from pyvc import ops
from pyvc.contracts import REG, Any_, Bool, Dict, Int, Loop, Obj, Opt, Ref, Seq, Str, Tup, qf
from pyvc.interp import ExcVal, PyRaise
from pyvc.types import NONE, Conc, TBool, TInt, TOpt, TSeq, TStr, Val, VTuple

P = "C02"
TP = "django_components.util.tag_parser"
EXP = "django_components.expression"
S, I, B = z3.StringSort(), z3.IntSort(), z3.BoolSort()
VALUE = Obj("PyValue")          # any Python value produced by resolving an expression
V = VALUE.sort()
OS = TOpt(TStr)
CTX = Obj("TemplateContext")
# one entry of a literal: a TagValue (atom) or a nested TagValueStruct
ENTRY = Tup(TBool, OS, TStr, TBool, TInt, tag="TagEntry", fields=["is_struct", "spread", "type", "is_spread", "id"])
ENTRIES = Seq(ENTRY)
VLIST = Seq(VALUE)
VDICT = Dict(VALUE, VALUE)
STRUCT = "TagValueStruct"
REG.heap_class(STRUCT, {"type": Str, "entries": ENTRIES, "spread": OS, "compiled": Bool}, module=TP)


def den(entry, ctx):
    return ops.uf("den", ENTRY.sort(), CTX.sort(), V)(entry, ctx)


def as_list(v):
    """list(v) for a spread value"""
    return ops.uf("value_as_list", V, VLIST.sort())(v)


def as_dict(v):
    return ops.uf("value_as_dict", V, VDICT.sort())(v)


def list_value(s):
    return ops.uf("list_value", VLIST.sort(), V)(s)


def dict_value(d):
    return ops.uf("dict_value", VDICT.sort(), V)(d)


# isinstance(entry, TagValueStruct) / isinstance(entry, TagValue); attribute access on the union
REG.stub(("isinstance", "TagValueStruct"), lambda run, v: ENTRY.proj(v.t, 0))
REG.stub(("isinstance", "TagValue"), lambda run, v: z3.Not(ENTRY.proj(v.t, 0)))
for _tn in ("dict", "list", "Mapping", "Iterable", "tuple"):
    REG.stub(("isinstance", _tn), (lambda tn: lambda run, v: ops.uf(f"value_is_{tn}", V, B)(v.t))(_tn))


def _entry_resolve(run, obj, args, kwargs, node):
    """entry.resolve(context): the denotation of the entry; user filters / variables may raise anything"""
    if run.choose(2, None) == 1:
        raise PyRaise(ExcVal("Any", [], site="entry.resolve (user filter / variable lookup)"))
    return Val(VALUE, den(obj.t, run.coerce(args[0], CTX).t), foreign=True)


REG.stub(("method", "TagEntry", "resolve"), _entry_resolve)


def _to_vlist(run, v, ty):
    """a resolved value used as an iterable (list.extend): TypeError if it is not iterable"""
    if run.choose(2, None) == 1:
        raise PyRaise(ExcVal("TypeError", [], site="spread of a non-iterable value"))
    return Val(VLIST, as_list(v.t), foreign=True)


def _to_vdict(run, v, ty):
    if run.choose(2, None) == 1:
        raise PyRaise(ExcVal("TypeError", [], site="spread of a non-mapping value"))
    return Val(VDICT, as_dict(v.t), foreign=True)


REG.stub(("coerce", "PyValue", VLIST.name), _to_vlist)
REG.stub(("coerce", "PyValue", VDICT.name), _to_vdict)
REG.stub(("coerce", VLIST.name, "PyValue"), lambda run, v, ty: Val(VALUE, list_value(v.t)))
REG.stub(("coerce", VDICT.name, "PyValue"), lambda run, v, ty: Val(VALUE, dict_value(v.t)))


def _dict_update(run, obj, args, kwargs, node):
    """dict.update(other): pointwise, `other` wins"""
    other = run.coerce(args[0], VDICT)
    k = z3.FreshConst(V, "k")
    d, o = obj.t, other.t
    new = VDICT.fresh("updated")
    for ax in (z3.ForAll([k], z3.And(z3.Select(VDICT.has(new), k) == z3.Or(z3.Select(VDICT.has(d), k), z3.Select(VDICT.has(o), k)),
                                      z3.Select(VDICT.val(new), k) == z3.If(z3.Select(VDICT.has(o), k), z3.Select(VDICT.val(o), k), z3.Select(VDICT.val(d), k)))),
               VDICT.size(new) >= 0):
        run.pc.append(ax)
    return NONE, Val(VDICT, new)


REG.stub(("method2", VDICT.name, "update"), _dict_update)

# TagValueStruct.compile: no semantic effect on the denotation (ASSUMED; it only builds FilterExpressions)
REG.contract(f"{TP}:TagValueStruct.compile", prop=P, verify=False, modifies=[f"{STRUCT}.compiled"], raises={"Any": None}, ensures={},
             note="ASSUMED: compiling entries does not change what they denote")


# ------------------------------------------------------------------------------------------------ spec functions
def _flat():
    return z3.Function("c02_flat_upto", I, VLIST.sort())


def _dspec():
    return (z3.Function("c02_pending_upto", I, TOpt(VALUE).sort()), z3.Function("c02_dhas_upto", I, V, B), z3.Function("c02_dval_upto", I, V, V))


def _is_spread_entry(e):
    """the code's two spread cases: a literal with a spread prefix, or an atom whose first part is a spread"""
    sp = ENTRY.proj(e, 1)
    return z3.If(ENTRY.proj(e, 0), z3.And(z3.Not(OS.is_none(sp)), z3.Length(OS.get(sp)) > 0), ENTRY.proj(e, 3))


def _res_entry(run, fr):
    s = fr.vars["self"].t
    ents = z3.Select(run.field_array(STRUCT, "entries"), s)
    ctx = fr.vars["context"].t
    flat = _flat()
    pend, dhas, dval = _dspec()
    OV = TOpt(VALUE)
    i = z3.FreshConst(I, "i")
    k = z3.FreshConst(V, "k")
    e = ents[i]
    d = den(e, ctx)
    rng = z3.And(0 <= i, i < z3.Length(ents))
    sp = _is_spread_entry(e)
    completes = z3.And(z3.Not(sp), z3.Not(OV.is_none(pend(i))))     # this entry is the VALUE of a key: value pair
    key = OV.get(pend(i))
    sd = as_dict(d)
    for ax in (
        # list literal: entries in order, a spread contributes its elements
        flat(0) == z3.Empty(VLIST.sort()),
        z3.ForAll([i], z3.Implies(rng, flat(i + 1) == z3.Concat(flat(i), z3.If(sp, as_list(d), z3.Unit(d)))), patterns=[flat(i + 1)]),
        # dict literal: left to right, later keys win; a non-spread entry is a key when none is pending, else the value
        pend(0) == OV.none(),
        z3.ForAll([k], z3.Not(dhas(0, k))),
        z3.ForAll([i], z3.Implies(rng, pend(i + 1) == z3.If(sp, pend(i), z3.If(OV.is_none(pend(i)), OV.some(d), OV.none()))), patterns=[pend(i + 1)]),
        z3.ForAll([i, k], z3.Implies(rng, z3.And(
            dhas(i + 1, k) == z3.If(sp, z3.Or(dhas(i, k), z3.Select(VDICT.has(sd), k)), z3.If(completes, z3.Or(dhas(i, k), k == key), dhas(i, k))),
            dval(i + 1, k) == z3.If(sp, z3.If(z3.Select(VDICT.has(sd), k), z3.Select(VDICT.val(sd), k), dval(i, k)),
                                    z3.If(z3.And(completes, k == key), d, dval(i, k))))), patterns=[dhas(i + 1, k), dval(i + 1, k)]),
    ):
        run.pc.append(ax)


def _ents(c, old=False):
    return z3.Select(c.field(STRUCT, "entries", old), c["self"].t)


def _type(c):
    return z3.Select(c.field(STRUCT, "type", True), c["self"].t)


def _list_inv(c):
    return c["resolved_list"].t == _flat()(c["_i0"].t)


def _entries_unchanged(c):
    return _ents(c) == _ents(c, True)


def _dict_inv(c):
    pend, dhas, dval = _dspec()
    OV = TOpt(VALUE)
    i = c["_i1"].t
    rd = c["resolved_dict"].t
    dp = c["dict_pair"].t
    k = z3.Const("bv_k", V)
    return z3.And(
        z3.Length(dp) == z3.If(OV.is_none(pend(i)), 0, 1),
        z3.Implies(z3.Not(OV.is_none(pend(i))), dp[0] == OV.get(pend(i))),
        z3.ForAll([k], z3.And(z3.Select(VDICT.has(rd), k) == dhas(i, k), z3.Implies(dhas(i, k), z3.Select(VDICT.val(rd), k) == dval(i, k)))))


def _post_simple(c):
    return z3.Implies(_type(c) == z3.StringVal("simple"), c["result"].t == den(_ents(c, True)[0], c["context"].t))


def _post_list(c):
    return z3.Implies(_type(c) == z3.StringVal("list"), c["result"].t == list_value(_flat()(z3.Length(_ents(c, True)))))


def _post_dict(c):
    pend, dhas, dval = _dspec()
    n = z3.Length(_ents(c, True))
    k = z3.Const("bv_k", V)
    r = z3.Const("bv_rd", VDICT.sort())
    # result is dict_value(rd) for a dict rd that agrees pointwise with the spec
    return z3.Implies(_type(c) == z3.StringVal("dict"), z3.Exists([r], z3.And(c["result"].t == dict_value(r), z3.ForAll(
        [k], z3.And(z3.Select(VDICT.has(r), k) == dhas(n, k), z3.Implies(dhas(n, k), z3.Select(VDICT.val(r), k) == dval(n, k)))))))


REG.contract(
    f"{TP}:TagValueStruct.resolve", prop=P, types={"context": CTX}, result=VALUE, entry=_res_entry,
    locals={"resolved_list": VLIST, "resolved_dict": VDICT, "dict_pair": VLIST},
    # well-formedness established by the parser: a `simple` struct holds exactly one entry
    requires=[lambda c: z3.Implies(z3.Select(c.field(STRUCT, "type"), c["self"].t) == z3.StringVal("simple"), z3.Length(z3.Select(c.field(STRUCT, "entries"), c["self"].t)) == 1)],
    modifies=[f"{STRUCT}.compiled"],
    raises={"TemplateSyntaxError": None, "Any": None, "TypeError": None},
    loops={0: Loop(inv=[_list_inv, _entries_unchanged], variant="len(_seq0) - _i0"),
           1: Loop(inv=[_dict_inv, _entries_unchanged], variant="len(_seq1) - _i1")},
    ensures={
        "simple_is_the_stock_expression": _post_simple,
        "list_literal_with_spreads": _post_list,
        "dict_literal_left_to_right_later_keys_win": _post_dict,
    },
)

# ================================================================================================ is_aggregate_key
REG.contract(f"{EXP}:is_aggregate_key", prop=P, types={"key": Str}, result=Bool, modifies=[], raises={},
             ensures={"colon_but_not_leading": lambda c: c["result"].t == z3.And(z3.Contains(c["key"].t, z3.StringVal(":")), z3.Not(z3.PrefixOf(z3.StringVal(":"), c["key"].t)))})


def _bounded_grammar(tier, repo):
    from harness.grammar_tags import run
    return run(repo, 2, 3 if tier == "thorough" else 2)


REG.bounded_check("bounded#parse_tag_documented_grammar", P, _bounded_grammar,
                  note="layout invariance, denoted values, documented-invalid forms over all ASTs of the documented grammar up to the stated depth/width")

def _bounded_tag_args(tier, repo):
    from harness.bounded_tag_args import run
    return run(repo, maxlen=4 if tier == "thorough" else 3)


REG.bounded_check("bounded#receiver_gets_exactly_the_denoted_arguments", P, _bounded_tag_args,
                  note="parse_tag, resolve_params and the hand-over to the receiver are not under contract as a whole: every argument list of <= 3 (thorough: 4) distinct atoms out of 19 (literals, variables, filter chains, list / dict literals with spreads, keywords incl. values spelled like a flag, special-character and aggregate keys, nested-template strings also spanning lines, top-level spreads with and without a filter chain) x 3 layouts is rendered through a real component tag and what get_context_data(*args, **kwargs) receives is compared with the denoted values; 7 documented-invalid top-level forms must raise TemplateSyntaxError")

ASSUMES = ["A-PY", "A-INST", "A-DJ"]
NOT_COVERED = [
    "parse_tag's own functional correctness is only bounded (see coverage.bounded)",
    "den() of an atom is stock Django's FilterExpression (that IS the property's meaning of an atom)",
]

import contracts.c13b  # noqa: E402,F401  (merge_repeated_kwargs: repeated kwargs, shared with C13)

import contracts.c02b  # noqa: E402,F401  (_extract_flags)

import contracts.c02c  # noqa: E402,F401  (process_aggregate_kwargs)

import contracts.c02d  # noqa: E402,F401  (resolve_params: top-level spreads)

import contracts.c02e  # noqa: E402,F401  (one atom: TagValuePart.serialize, TagValue.compile / resolve)

import contracts.c02f  # noqa: E402,F401  (DynamicFilterExpression: nested template strings)
