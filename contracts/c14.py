"""C14 - root elements of a component instance, and only they, carry its render id."""
import ast

import z3

from pyvc import ops
from pyvc.contracts import REG, Bool, Dict, Int, Loop, Obj, Opt, Seq, Str, Tup, Any_
from pyvc.repo import load_module
from pyvc.types import NONE, Conc, TAny, TBool, TInt, TOpt, TSeq, TStr, Val, VTuple

P = "C14"
DEP = "django_components.dependencies"
S, I = z3.StringSort(), z3.IntSort()
OS = TOpt(TStr)
ATTRS = Seq(Str)
CHILDREN = Dict(Str, Seq(Str))
PV = TAny.sort()
RES = Tup(TAny, CHILDREN, tag="HtmlAndChildren", fields=["html", "children"])


def rewrite_html(html, roots, alls, watch):
    """djc_core_html_parser.set_html_attributes (Rust, TRUSTED): sets `roots` on every top-level element and only those,
    `alls` on every element, and reports, per value of the watched attribute, the attributes set on that element."""
    return ops.uf("rust_set_html_attributes_html", S, ATTRS.sort(), ATTRS.sort(), S, S)(html, roots, alls, watch)


def rewrite_children(html, roots, alls, watch):
    return ops.uf("rust_set_html_attributes_children", S, ATTRS.sort(), ATTRS.sort(), S, CHILDREN.sort())(html, roots, alls, watch)


def text_of(v):
    return z3.If(PV.is_StrV(v), PV.s(v), PV.ss(v))


def _set_html_attributes(run, args, kwargs, node):
    html = run.coerce(args[0], TAny)
    run.oblige("pre@set_html_attributes#html_is_text", z3.Or(PV.is_StrV(html.t), PV.is_SafeV(html.t)), kind="pre")
    roots, alls = run.coerce(kwargs["root_attributes"], ATTRS).t, run.coerce(kwargs["all_attributes"], ATTRS).t
    watch = run.coerce(kwargs["watch_on_attribute"], TStr).t
    t = text_of(html.t)
    return VTuple([Val(TAny, PV.StrV(rewrite_html(t, roots, alls, watch))), Val(CHILDREN, rewrite_children(t, roots, alls, watch))])


REG.stub("djc_core_html_parser.set_html_attributes", _set_html_attributes)


def _mark_safe(run, args, kwargs, node):
    v = args[0]
    if isinstance(v, Val) and v.ty is TAny:
        return Val(TAny, PV.SafeV(text_of(v.t)))
    return v


REG.stub("django.utils.safestring.mark_safe", _mark_safe)
REG.stub(("isinstance", "SafeString"), lambda run, v: PV.is_SafeV(v.t))


def _expected_roots(c):
    r = c["root_attributes"]
    base = z3.If(TOpt(ATTRS).is_none(r.t), z3.Empty(ATTRS.sort()), TOpt(ATTRS).get(r.t))
    cid, css = c["component_id"].t, c["css_input_hash"].t
    with_id = z3.If(z3.And(z3.Not(OS.is_none(cid)), z3.Length(OS.get(cid)) > 0), z3.Concat(base, z3.Unit(z3.Concat(z3.StringVal("data-djc-id-"), OS.get(cid)))), base)
    return z3.If(z3.And(z3.Not(OS.is_none(css)), z3.Length(OS.get(css)) > 0), z3.Concat(with_id, z3.Unit(z3.Concat(z3.StringVal("data-djc-css-"), OS.get(css)))), with_id)


def _expected_alls(c):
    sc = c["css_scope_id"].t
    return z3.If(z3.And(z3.Not(OS.is_none(sc)), z3.Length(OS.get(sc)) > 0), z3.Unit(z3.Concat(z3.StringVal("data-djc-scope-"), OS.get(sc))), z3.Empty(ATTRS.sort()))


REG.contract(
    f"{DEP}:set_component_attrs_for_js_and_css", prop=P,
    types={"html_content": Any_, "component_id": OS, "css_input_hash": OS, "css_scope_id": OS, "root_attributes": Opt(ATTRS)}, result=RES,
    locals={"all_root_attributes": ATTRS, "all_attributes": ATTRS},
    requires=[lambda c: z3.Or(PV.is_StrV(c["html_content"].t), PV.is_SafeV(c["html_content"].t))],
    modifies=[], raises={},
    ensures={
        # the rewriter is asked to put exactly: inherited root attributes ++ this instance's id marker (++ css marker) on the
        # top-level elements, only the scope attribute on all elements, and to watch the placeholder attribute
        "rewriter_gets_exactly_the_root_marker": lambda c: text_of(RES.proj(c["result"].t, 0)) == rewrite_html(
            text_of(c["html_content"].t), _expected_roots(c), _expected_alls(c), z3.StringVal("djc-render-id")),
        "children_table_is_the_rewriters": lambda c: RES.proj(c["result"].t, 1) == rewrite_children(
            text_of(c["html_content"].t), _expected_roots(c), _expected_alls(c), z3.StringVal("djc-render-id")),
        "safestring_preserved": lambda c: PV.is_SafeV(RES.proj(c["result"].t, 0)) == PV.is_SafeV(c["html_content"].t),
    },
)


# ================================================================================================ id generation (shape, statelessness)
def check_gen_id_shape():
    """gen_id() asks nanoid.generate for 6 characters over [0-9a-zA-Z] (the alphabet the marker / placeholder regexes accept)."""
    m = load_module("django_components.util.misc")
    fn = m.funcs["gen_id"].node
    ret = [n for n in ast.walk(fn) if isinstance(n, ast.Return)]
    if len(ret) != 1 or not isinstance(ret[0].value, ast.Call) or ast.unparse(ret[0].value.func) != "generate":
        return False, "gen_id no longer returns generate(...) directly"
    call = ret[0].value
    alphabet = ast.literal_eval(call.args[0])
    size = next((ast.literal_eval(k.value) for k in call.keywords if k.arg == "size"), None) if len(call.args) < 2 else ast.literal_eval(call.args[1])
    ok = size == 6 and len(set(alphabet)) == len(alphabet) == 62 and all(ch.isascii() and ch.isalnum() for ch in alphabet)
    return ok, f"generate(alphabet of {len(alphabet)} distinct ASCII alphanumerics, size={size})"


def check_generate_stateless():
    """A-ID (ids are distinct) is probabilistic and ASSUMED.  What is checked is its syntactic precondition: nanoid.generate
    draws fresh randomness on every call and keeps NO state between calls (no module-level variables, no `global`)."""
    m = load_module("django_components.util.nanoid")
    fn = m.funcs["generate"].node
    module_state = sorted(m.consts)
    uses_global = [n for n in ast.walk(fn) if isinstance(n, (ast.Global, ast.Nonlocal))]
    reads = sorted({n.id for n in ast.walk(fn) if isinstance(n, ast.Name) and n.id in m.consts})
    calls_urandom = any(isinstance(n, ast.Call) and ast.unparse(n.func) in ("urandom", "os.urandom") for n in ast.walk(fn))
    ok = not module_state and not uses_global and not reads and calls_urandom
    return ok, f"module-level variables of nanoid.py: {module_state}; global/nonlocal in generate: {len(uses_global)}; calls urandom: {calls_urandom}"


REG.syntactic_check("syn#gen_id_is_6_chars_over_62_alphanumerics", P, check_gen_id_shape)
REG.syntactic_check("own#nanoid_generate_keeps_no_state", P, check_generate_stateless)

ASSUMES = ["A-PY", "A-INST", "A-ID", "A-DJ"]
NOT_COVERED = [
    "A-ID: distinctness of ids is probabilistic - assumed, not proved",
    "the Rust HTML rewriter's contract (root attributes on top-level elements and only those) is trusted",
    "component_post_render's hand-over of the parent's attribute list to the child renderer (child_component_attrs table) and _gen_component_renderer.renderer passing its own render_id are not yet under contract",
]


# ---------------------------------------------------------------------------------------------- footprint of the hand-over tables
def check_handover_footprint():
    """child_component_attrs (parent -> child attribute hand-over) and component_renderer_cache are module-level tables
    shared by ALL renders in flight (nested / re-entrant renders interleave).  An entry must survive until the render id it
    is filed under is processed, so the only admissible accesses are KEY-WISE: tbl[k] = v, tbl.pop(k[, d]), tbl.get(k),
    k in tbl, tbl.update(<attrs returned for the component just rendered>).  Anything that touches entries of other
    render ids (clear, reassignment, del of the table, iteration with removal, popitem, |=, copy-and-replace) breaks the
    hand-over for a render that is still queued."""
    import ast
    from pyvc.repo import all_repo_modules, load_module
    tables = {"child_component_attrs", "component_renderer_cache"}
    keywise = {"pop", "get", "update", "setdefault", "__contains__"}
    bad, seen = [], 0
    for modname in all_repo_modules():
        m = load_module(modname)
        tree = m.tree
        parents = {}
        for n in ast.walk(tree):
            for ch in ast.iter_child_nodes(n):
                parents[ch] = n
        for n in ast.walk(tree):
            if isinstance(n, ast.Name) and n.id in tables:
                seen += 1
                par = parents.get(n)
                where = f"{modname}:{getattr(n, 'lineno', '?')}"
                if isinstance(par, ast.Attribute) and par.value is n:
                    call = parents.get(par)
                    if isinstance(call, ast.Call) and call.func is par and par.attr in keywise:
                        continue
                    bad.append(f"{where} {n.id}.{par.attr}")
                elif isinstance(par, ast.Subscript) and par.value is n:
                    if isinstance(parents.get(par), ast.Delete) or True:
                        continue            # tbl[k], tbl[k] = v, del tbl[k]: key-wise
                elif isinstance(par, ast.Compare) and n in par.comparators and all(isinstance(o, (ast.In, ast.NotIn)) for o in par.ops):
                    continue
                elif isinstance(par, ast.AnnAssign) and par.target is n and isinstance(parents.get(par), ast.Module):
                    continue                # the module-level definition
                elif isinstance(par, ast.Assign) and n in par.targets and isinstance(parents.get(par), ast.Module):
                    continue
                elif isinstance(par, (ast.ImportFrom, ast.alias)):
                    continue
                else:
                    bad.append(f"{where} {n.id} used as {type(par).__name__}")
    ok = not bad and seen >= 4
    return ok, (f"{seen} references, all key-wise" if ok else f"non key-wise access to a hand-over table: {bad}" if bad else f"only {seen} references found: the tables moved")


REG.syntactic_check("own#handover_tables_are_only_accessed_key_wise", P, check_handover_footprint)


def _bounded_render_ids(tier, repo):
    from harness.bounded_render_ids import run
    return run(repo, 2)


REG.bounded_check("bounded#root_elements_carry_exactly_the_ids_of_their_instances", P, _bounded_render_ids,
                  note="component_post_render's hand-over and the renderer closures are not under contract: 203 pages of nesting depth <= 3 over components with one root, two roots, text before the root, a root that is another component and a nested non-root component are rendered for real, parsed, and every root element must carry exactly the render ids of the instances it is a root of (distinct instances, distinct ids; non-root elements carry none)")
