"""ASSUMED contracts on Django (A-DJ).  Context = list of dict layers, lookup from the top."""
import z3

from pyvc import ops
from pyvc.contracts import REG, Dict, Ref, Seq, Str
from pyvc.interp import EngineError, ExcVal, PyRaise
from pyvc.types import NONE, Conc, TAny, TBool, TDict, TInt, TSeq, TStr, Val, mk_bool

LAYER = Dict(Str, TAny)
LAYERS = Seq(LAYER)
CTX = "Context"
FLAT = Dict(Str, TAny, ordered=True)
REG.heap_class(CTX, {"dicts": LAYERS})

I, S = z3.IntSort(), z3.StringSort()


def ctx_idx(D, k):
    """Index of the top-most layer of D that defines k, or -1."""
    return ops.uf("ctx_idx", LAYERS.sort(), S, I)(D, k)


def layer_has(D, i, k):
    return z3.Select(LAYER.has(D[i]), k)


def layer_val(D, i, k):
    return z3.Select(LAYER.val(D[i]), k)


def ctx_axioms(run, D):
    done = run.__dict__.setdefault("_ctx_axioms", set())
    if D.get_id() in done:
        return
    done.add(D.get_id())
    run.__dict__.setdefault("_keep", []).append(D)
    k = z3.FreshConst(S, "k")
    i = z3.FreshConst(I, "i")
    j = ctx_idx(D, k)
    n = z3.Length(D)
    ax = z3.ForAll([k], z3.And(
        j >= -1, j < n,
        z3.Implies(j >= 0, layer_has(D, j, k)),
        z3.ForAll([i], z3.Implies(z3.And(j < i, i < n, 0 <= i), z3.Not(layer_has(D, i, k))))))
    run.pc.append(ax)


def dicts_of(run, ctx):
    D = run.load_field(ctx.t, CTX, "dicts").t
    ctx_axioms(run, D)
    return D


def visible(run, D, k):
    ctx_axioms(run, D)
    return ctx_idx(D, k) >= 0


def lookup(run, D, k):
    ctx_axioms(run, D)
    return layer_val(D, ctx_idx(D, k), k)


def _ctx_contains(run, item, cont, node):
    D = dicts_of(run, cont)
    return visible(run, D, run.coerce(item, TStr).t)


def _ctx_getitem(run, base, key, node):
    D = dicts_of(run, base)
    k = run.coerce(key, TStr).t
    run.implicit_raise(visible(run, D, k), "KeyError", node)
    return Val(TAny, lookup(run, D, k))


def _ctx_setitem(run, cont, key, v, node):
    """Context.__setitem__: sets the key in the top-most layer."""
    D = dicts_of(run, cont)
    n = z3.Length(D)
    top = Val(LAYER, D[n - 1])
    new_top = ops.setitem(run, top, run.coerce(key, TStr), run.coerce(v, TAny), node)
    D2 = z3.Concat(z3.Extract(D, 0, n - 1), z3.Unit(new_top.t))
    run.store_field(cont.t, CTX, "dicts", Val(LAYERS, D2))
    return None


REG.stub(("contains", f"Ref_{CTX}"), _ctx_contains)
REG.stub(("getitem", f"Ref_{CTX}"), _ctx_getitem)
REG.stub(("setitem", f"Ref_{CTX}"), _ctx_setitem)


def _ctx_update(run, obj, args, kwargs, node):
    """Context.update(d) / push(d): returns a ContextDict; entering pushes the layer (done here, as Django does it in
    update() itself), leaving the `with` pops the top layer."""
    layer = run.coerce(args[0], LAYER) if args else Val(LAYER, LAYER.empty())
    D = dicts_of(run, obj)
    run.store_field(obj.t, CTX, "dicts", Val(LAYERS, z3.Concat(D, z3.Unit(layer.t))))

    def enter():
        return NONE

    def exit_(exc):
        D1 = run.load_field(obj.t, CTX, "dicts").t
        run.store_field(obj.t, CTX, "dicts", Val(LAYERS, z3.Extract(D1, 0, z3.Length(D1) - 1)))
        return False

    return Conc(("cm", enter, exit_))


REG.stub(("method", f"Ref_{CTX}", "update"), _ctx_update)
REG.stub(("method", f"Ref_{CTX}", "push"), _ctx_update)


def flatten_of(run, D):
    """Context.flatten(): one dict, every visible key with its top-most value; SOME duplicate-free key order."""
    ctx_axioms(run, D)
    F = ops.uf("ctx_flatten", LAYERS.sort(), FLAT.sort())(D)
    done = run.__dict__.setdefault("_flat_axioms", set())
    if D.get_id() not in done:
        done.add(D.get_id())
        k = z3.FreshConst(S, "k")
        i = z3.FreshConst(I, "i")
        order = FLAT.order(F)
        n = z3.Length(order)
        for ax in (
            z3.ForAll([k], z3.And(z3.Select(FLAT.has(F), k) == (ctx_idx(D, k) >= 0),
                                  z3.Implies(ctx_idx(D, k) >= 0, z3.Select(FLAT.val(F), k) == layer_val(D, ctx_idx(D, k), k)))),
            z3.ForAll([i], z3.Implies(z3.And(0 <= i, i < n), z3.And(z3.Select(FLAT.has(F), order[i]), ops.keypos(order, order[i]) == i))),
            z3.ForAll([k], z3.Implies(z3.Select(FLAT.has(F), k), z3.And(0 <= ops.keypos(order, k), ops.keypos(order, k) < n, order[ops.keypos(order, k)] == k))),
            FLAT.size(F) == n,
        ):
            run.pc.append(ax)
            run.solver_add(ax)
    return F


REG.stub(("method", f"Ref_{CTX}", "flatten"), lambda run, obj, args, kwargs, node: Val(FLAT, flatten_of(run, dicts_of(run, obj))))


def user_code(name, result=None):
    """A call into user / template code: arbitrary result, may raise anything."""
    def f(run, *a, **k):
        if run.choose(2, None) == 1:
            raise PyRaise(ExcVal("Any", [], site=f"user code {name}"))
        return Val(result, result.fresh(name)) if result is not None else NONE
    return f


# ---- Context.new(): a fresh Context whose only layer is Django's builtins layer (A-DJ)
BUILTINS = z3.Const("django_context_builtins", LAYER.sort())


def _ctx_new(run, obj, args, kwargs, node):
    ref = run.alloc(CTX)
    run.store_field(ref.t, CTX, "dicts", Val(LAYERS, z3.Unit(BUILTINS)))
    return ref


REG.stub(("method", f"Ref_{CTX}", "new"), _ctx_new)
# render_context is shared by reference; its identity is all that matters here
REG.classes[CTX]["render_context"] = __import__("pyvc.types", fromlist=["TObj"]).TObj("RenderContext")
