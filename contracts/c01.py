"""C01 - each slot renders the fill addressed to it, else its own default content.

PROVED: fill discovery - _extract_fill_content and resolve_fills - against the spec function
   executed_fills(body, ctx) = the {% fill %} tags that EXECUTE while the component body renders, in execution order
(conditional / looped / dynamically named fills are exactly "the fills that executed").  The body render is user/template
code: arbitrary result text, may raise anything, and appends to the capture list it finds in the Context.
"""
import z3

from contracts.stubs_django import CTX, LAYER, LAYERS, dicts_of
from pyvc import ops
from pyvc.contracts import REG, Any_, Bool, Dict, Int, Loop, Obj, Opt, Ref, Seq, Str, Tup
from pyvc.interp import EngineError, ExcVal, PyRaise
from pyvc.types import NONE, Conc, TAny, TBool, TInt, TOpt, TSeq, TStr, Val, VTuple

P = "C01"
MOD = "django_components.slots"
S, I, B = z3.StringSort(), z3.IntSort(), z3.BoolSort()
OS = TOpt(TStr)
NODELIST = Obj("NodeList")
EXTRA = Obj("ExtraContext")
FILLNODE = Tup(NODELIST, tag="FillNode", fields=["nodelist"])
FILL = Tup(FILLNODE, TStr, OS, OS, EXTRA, tag="FillWithData", fields=["fill", "name", "default_var", "data_var", "extra_context"])
FILLS = Seq(FILL)
SLOT = Obj("Slot")
SLOTS = Dict(Str, SLOT)
OFILLS = TOpt(FILLS)
PV = TAny.sort()


def executed_fills(body, D):
    return ops.uf("executed_fills", NODELIST.sort(), LAYERS.sort(), FILLS.sort())(body, D)


def body_text(body, D):
    return ops.uf("body_render_text", NODELIST.sort(), LAYERS.sort(), S)(body, D)


def mk_slot(component_name, slot_name, nodelist, data_var, default_var, extra):
    return ops.uf("slot_of_nodelist", S, OS.sort(), NODELIST.sort(), OS.sort(), OS.sort(), TOpt(EXTRA).sort(), SLOT.sort())(component_name, slot_name, nodelist, data_var, default_var, extra)


# ---- nodes.render(context) inside `with context.update({FILL_GEN_CONTEXT_KEY: captured_fills})`
def _nodes_render(run, obj, args, kwargs, node):
    """Rendering the component body: template/user code.  Result text is a function of (body, context layers); it may
    raise anything; every executed {% fill %} appended itself to the capture list found in the Context - i.e. afterwards
    the local `captured_fills` holds executed_fills(body, layers-before-the-capture-layer)."""
    ctx = args[0]
    D = run.load_field(ctx.t, CTX, "dicts").t
    below = run.ghost["layers_at_entry"].t
    if run.choose(2, None) == 1:
        raise PyRaise(ExcVal("Any", [], site="nodes.render (template / user code)"))
    fr = run.call_frame
    if fr.lookup("captured_fills") is None:
        raise EngineError("nodes.render stub: the capture list `captured_fills` is not in scope")
    fr.owner("captured_fills").vars["captured_fills"] = Val(FILLS, executed_fills(obj.t, below))
    # the body render leaves the Context balanced (Django's nodes push and pop in pairs)
    return Val(TStr, body_text(obj.t, below))


REG.stub(("method", "NodeList", "render"), _nodes_render)


def _ctx_update_lit(run, obj, args, kwargs, node):
    """context.update({KEY: value}) with a small literal: pushes one layer holding exactly that key"""
    from contracts.stubs_django import _ctx_update
    lit = args[0]
    if isinstance(lit, Conc) and lit.obj[0] == "dictlit":
        layer = Val(LAYER, LAYER.empty())
        for k, v, _vn in lit.obj[1]:
            marker = Val(TAny, PV.ObjV(z3.FreshConst(I, "captured_list_ref")))
            layer = ops.setitem(run, layer, run.coerce(k, TStr), marker, node)
        return _ctx_update(run, obj, [layer], kwargs, node)
    return _ctx_update(run, obj, args, kwargs, node)


# ================================================================================================ _extract_fill_content
def _efc_entry(run, fr):
    run.ghost["layers_at_entry"] = Val(LAYERS, z3.Select(run.field_array(CTX, "dicts"), fr.vars["context"].t))


def D0(c):
    return z3.Select(c.field(CTX, "dicts", True), c.old("context").t)


def _names_distinct(fills):
    i, j = z3.Const("bv_i", I), z3.Const("bv_j", I)
    return z3.ForAll([i, j], z3.Implies(z3.And(0 <= i, i < j, j < z3.Length(fills)), FILL.proj(fills[i], 1) != FILL.proj(fills[j], 1)))


def _efc_loop_inv(c):
    """names of the fills visited so far are distinct and are exactly `seen_names`"""
    fills, i = c["_seq0"].t, c["_i0"].t
    seen = c["seen_names"].t
    SS = __import__("pyvc.types", fromlist=["TSet"]).TSet(TStr)
    a, b = z3.Const("bv_i", I), z3.Const("bv_j", I)
    n = z3.Const("bv_n", S)
    return z3.And(
        z3.ForAll([a, b], z3.Implies(z3.And(0 <= a, a < b, b < i), FILL.proj(fills[a], 1) != FILL.proj(fills[b], 1))),
        z3.ForAll([a], z3.Implies(z3.And(0 <= a, a < i), z3.Select(SS.has(seen), FILL.proj(fills[a], 1)))),
        z3.ForAll([n], z3.Implies(z3.Select(SS.has(seen), n), z3.Exists([a], z3.And(0 <= a, a < i, FILL.proj(fills[a], 1) == n)))))


RES = TOpt(FILLS)     # None stands for the literal False ("no fill executed")
REG.stub(("coerce", "Bool", RES.name), lambda run, v, ty: Val(RES, RES.none()))


def _ctx_restored(c):
    return z3.Select(c.field(CTX, "dicts"), c.old("context").t) == D0(c)


REG.contract(
    f"{MOD}:_extract_fill_content", prop=P, types={"nodes": NODELIST, "context": Ref(CTX), "component_name": Str}, result=RES, entry=_efc_entry,
    locals={"captured_fills": FILLS, "seen_names": __import__("pyvc.types", fromlist=["TSet"]).TSet(TStr)},
    calls={"context.update": lambda run, args, kwargs, node: _ctx_update_lit(run, run.call_frame.lookup("context"), args, kwargs, node),
           "mark_safe": lambda run, args, kwargs, node: args[0]},
    requires=[lambda c: c["context"].t > 0, lambda c: z3.Length(z3.Select(c.field(CTX, "dicts"), c["context"].t)) >= 1],
    modifies=[f"{CTX}.dicts"],
    raises={"TemplateSyntaxError": None, "Any": None},
    loops={0: Loop(inv=[_efc_loop_inv], variant="len(_seq0) - _i0")},
    ensures={
        "false_iff_no_fill_executed": lambda c: RES.is_none(c["result"].t) == (z3.Length(executed_fills(c["nodes"].t, D0(c))) == 0),
        "else_exactly_the_executed_fills_with_distinct_names_and_no_stray_text": lambda c: z3.Implies(z3.Not(RES.is_none(c["result"].t)), z3.And(
            RES.get(c["result"].t) == executed_fills(c["nodes"].t, D0(c)),
            _names_distinct(executed_fills(c["nodes"].t, D0(c))),
            z3.Length(ops.str_strip(body_text(c["nodes"].t, D0(c)))) == 0)),
        "callers_context_layers_restored": _ctx_restored,
    },
    xensures={"TemplateSyntaxError": {"callers_context_layers_restored": _ctx_restored,
                                      "only_for_stray_text_or_duplicate_names": lambda c: z3.And(
                                          z3.Length(executed_fills(c["nodes"].t, D0(c))) > 0,
                                          z3.Or(z3.Length(ops.str_strip(body_text(c["nodes"].t, D0(c)))) > 0, z3.Not(_names_distinct(executed_fills(c["nodes"].t, D0(c))))))},
              "Any": {"callers_context_layers_restored_when_the_body_raises": _ctx_restored}},
)

ASSUMES = ["A-PY", "A-INST", "A-DJ"]
NOT_COVERED = [
    "SlotNode.render (fill selection, default / required rules, owner instance), FillNode.render, _render_impl's fills, DynamicComponent pass-through and component_post_render's in-order stitching are not under contract; they are covered only by the BOUNDED stand-in bounded#slots_render_the_fill_addressed_to_them (325 programs x 2 modes x 2 ways of calling, never counted as proved) - Component.render(slots=...) is not exercised",
    "the body render is modelled as user code that leaves the Context balanced and appends the executed fills to the capture list (A-DJ)",
    "composition over the render tree is argued in DESIGN section 3, not machine-checked",
]


# ================================================================================================ resolve_fills
NODE = Tup(TBool, TStr, tag="TemplateNode", fields=["is_text", "s"])
NODES = Seq(NODE)


def nodes_of(nl):
    return ops.uf("nodelist_nodes", NODELIST.sort(), NODES.sort())(nl)


REG.stub(("iter", "NodeList"), lambda run, v: Val(NODES, nodes_of(v.t)))
REG.stub(("len", "NodeList"), lambda run, v: Val(TInt, z3.Length(nodes_of(v.t))))
REG.stub(("isinstance", "TextNode"), lambda run, v: NODE.proj(v.t, 0))
REG.stub(("is_false", RES.name), lambda run, v: RES.is_none(v.t))


def _slot_func(run, args, kwargs, node):
    """_nodelist_to_slot_render_func(...): the Slot is a function of exactly these arguments"""
    OE = TOpt(EXTRA)
    extra = run.coerce(kwargs["extra_context"], OE).t if "extra_context" in kwargs else OE.none()
    return Val(SLOT, mk_slot(run.coerce(kwargs["component_name"], TStr).t, run.coerce(kwargs["slot_name"], OS).t, run.coerce(kwargs["nodelist"], NODELIST).t,
                             run.coerce(kwargs["data_var"], OS).t, run.coerce(kwargs["default_var"], OS).t, extra))


REG.stub(f"{MOD}:_nodelist_to_slot_render_func", _slot_func)


def _blank(nl):
    """an empty body, or only whitespace text nodes"""
    k = z3.Const("bv_k", I)
    ns = nodes_of(nl)
    return z3.Or(z3.Length(ns) == 0, z3.ForAll([k], z3.Implies(z3.And(0 <= k, k < z3.Length(ns)), z3.And(NODE.proj(ns[k], 0), z3.Length(ops.str_strip(NODE.proj(ns[k], 1))) == 0))))


def _truthy_nl(nl):
    return z3.Length(nodes_of(nl)) > 0      # NodeList is a list: truthy iff non-empty


REG.stub(("truth", "NodeList"), lambda run, v: _truthy_nl(v.t))


def _fill_slot(cname, f):
    OE = TOpt(EXTRA)
    return mk_slot(cname, OS.some(FILL.proj(f, 1)), FILLNODE.proj(FILL.proj(f, 0), 0), FILL.proj(f, 3), FILL.proj(f, 2), OE.some(FILL.proj(f, 4)))


def _rf_inv(c):
    fills, i = c["_seq0"].t, c["_i0"].t
    slots = c["slots"].t
    a = z3.Const("bv_a", I)
    n = z3.Const("bv_n", S)
    return z3.And(
        _names_distinct(fills),
        z3.ForAll([a], z3.Implies(z3.And(0 <= a, a < i), z3.And(z3.Select(SLOTS.has(slots), FILL.proj(fills[a], 1)),
                                                                z3.Select(SLOTS.val(slots), FILL.proj(fills[a], 1)) == _fill_slot(c["component_name"].t, fills[a])))),
        z3.ForAll([n], z3.Implies(z3.Select(SLOTS.has(slots), n), z3.Exists([a], z3.And(0 <= a, a < i, FILL.proj(fills[a], 1) == n)))))


def _rf_post_fills(c):
    """one entry per EXECUTED fill, under the fill's name, built from that fill's own nodelist / data var / default var"""
    ef = executed_fills(c["nodelist"].t, D0(c))
    res = c["result"].t
    a = z3.Const("bv_a", I)
    n = z3.Const("bv_n", S)
    return z3.Implies(z3.And(_truthy_nl(c["nodelist"].t), z3.Length(ef) > 0), z3.And(
        z3.ForAll([a], z3.Implies(z3.And(0 <= a, a < z3.Length(ef)), z3.And(z3.Select(SLOTS.has(res), FILL.proj(ef[a], 1)),
                                                                           z3.Select(SLOTS.val(res), FILL.proj(ef[a], 1)) == _fill_slot(c["component_name"].t, ef[a])))),
        z3.ForAll([n], z3.Implies(z3.Select(SLOTS.has(res), n), z3.Exists([a], z3.And(0 <= a, a < z3.Length(ef), FILL.proj(ef[a], 1) == n))))))


def _rf_post_default(c):
    """no fill executed: the whole body is the implicit `default` fill - unless it is blank, then there is no fill at all"""
    ef = executed_fills(c["nodelist"].t, D0(c))
    res = c["result"].t
    n = z3.Const("bv_n", S)
    dflt = z3.StringVal("default")
    OE = TOpt(EXTRA)
    body_slot = mk_slot(c["component_name"].t, OS.none(), c["nodelist"].t, OS.none(), OS.none(), OE.none())
    return z3.Implies(z3.Or(z3.Not(_truthy_nl(c["nodelist"].t)), z3.Length(ef) == 0), z3.ForAll([n], z3.And(
        z3.Select(SLOTS.has(res), n) == z3.And(n == dflt, z3.Not(_blank(c["nodelist"].t))),
        z3.Implies(z3.Select(SLOTS.has(res), n), z3.Select(SLOTS.val(res), n) == body_slot))))


REG.contract(
    f"{MOD}:resolve_fills", prop=P, types={"context": Ref(CTX), "nodelist": NODELIST, "component_name": Str}, result=SLOTS,
    locals={"slots": SLOTS},
    requires=[lambda c: c["context"].t > 0, lambda c: z3.Length(z3.Select(c.field(CTX, "dicts"), c["context"].t)) >= 1],
    modifies=[f"{CTX}.dicts"], raises={"TemplateSyntaxError": None, "Any": None},
    loops={0: Loop(inv=[_rf_inv], variant="len(_seq0) - _i0")},
    ensures={
        "one_entry_per_executed_fill": _rf_post_fills,
        "implicit_default_fill_or_nothing": _rf_post_default,
        "callers_context_layers_restored": _ctx_restored,
    },
    xensures={"TemplateSyntaxError": {"callers_context_layers_restored": _ctx_restored}, "Any": {"callers_context_layers_restored": _ctx_restored}},
)


def _bounded_slots(tier, repo):
    from harness.bounded_slots import run
    return run(repo, 1)


REG.bounded_check("bounded#slots_render_the_fill_addressed_to_them", P, _bounded_slots,
                  note="SlotNode.render / FillNode / _render_impl / component_post_render are not under contract: every component program of nesting depth <= 2 over a 5-component library is rendered for real (tag and dynamic component, both modes, 5 s budget each) and compared with a reference interpreter of the property.  Known findings F-C01a (hang) / F-C01b (fill ignored) delimit the django-mode defect; anything else is a violation")


# ================================================================================================ FillNode.render (validation)
# {% fill name data=... default=... %}: accepted exactly when it is used inside a {% component %} body, `name` is a str, the aliases
# (when given) are identifier strings and differ from each other; an accepted fill is handed to the collector with exactly these
# three values and renders nothing itself.
import z3 as _z3  # noqa: E402
from pyvc.types import TAny as _TAny  # noqa: E402

_PV = _TAny.sort()
FNODE = Obj("FillNode")
_S, _B = _z3.StringSort(), _z3.BoolSort()


def _extracting(ctx):
    return ops.uf("context_is_extracting_fill", _z3.IntSort(), _B)(ctx)


def _ident(s):
    return ops.uf("str_isidentifier", _S, _B)(s)


REG.stub("django_components.slots:_is_extracting_fill", lambda run, args, kwargs, node: Val(TBool, _extracting(args[0].t)))
REG.stub("django_components.util.misc:is_identifier", lambda run, args, kwargs, node: Val(TBool, _ident(run.coerce(args[0], TStr).t)))


def _fill_with_data(run, args, kwargs, node):
    run.ghost["collected_name"], run.ghost["collected_default"], run.ghost["collected_data"] = kwargs["name"], kwargs["default_var"], kwargs["data_var"]
    return Conc(("obj_kind", "fill_with_data"))


def _extract_fill_stub(run, obj, args, kwargs, node):
    run.ghost["handed_to_collector"] = Val(TBool, _z3.BoolVal(True))
    return NONE


REG.stub("django_components.slots:FillWithData", _fill_with_data)
REG.stub(("new", "FillWithData"), _fill_with_data)
REG.stub(("method", "FillNode", "_extract_fill"), _extract_fill_stub)


def _strlike(v):
    return _z3.Or(_PV.is_StrV(v), _PV.is_SafeV(v))


def _txt(v):
    return _z3.If(_PV.is_StrV(v), _PV.s(v), _PV.ss(v))


def _fn_syntax_error(c):
    ctx, name, data, default = c.old("context").t, c.old("name").t, c.old("data").t, c.old("default").t
    return _z3.Or(_z3.Not(_extracting(ctx)), _z3.Not(_strlike(name)),
                  _z3.And(_z3.Not(_PV.is_NoneV(data)), _z3.Not(_strlike(data))),
                  _z3.And(_z3.Not(_PV.is_NoneV(default)), _z3.Not(_strlike(default))))


def _fn_runtime_error(c):
    data, default = c.old("data").t, c.old("default").t
    # (which of the two error classes wins when several things are wrong follows the order of the checks and is not pinned)
    return _z3.And(_z3.BoolVal(True), _z3.Or(
        _z3.And(_strlike(data), _z3.Not(_ident(_txt(data)))),
        _z3.And(_strlike(default), _z3.Not(_ident(_txt(default)))),
        _z3.And(_strlike(data), _strlike(default), _z3.Length(_txt(data)) > 0, _txt(data) == _txt(default))))


def _fn_post(c):
    g = c.ghost
    handed = g["handed_to_collector"].t if "handed_to_collector" in g else _z3.BoolVal(False)
    same = lambda key, old: (c.run.coerce(g[key], _TAny).t == c.old(old).t) if key in g else _z3.BoolVal(False)
    return _z3.And(c["result"].t == _z3.StringVal(""), handed, same("collected_name", "name"), same("collected_default", "default"), same("collected_data", "data"))


REG.contract(
    f"{MOD}:FillNode.render", prop=P, types={"context": Ref(CTX), "name": Any_, "data": Any_, "default": Any_}, result=Str, self_type=FNODE,
    modifies=[],
    raises={"TemplateSyntaxError": _fn_syntax_error, "RuntimeError": _fn_runtime_error},
    ensures={"accepted_fill_is_collected_with_its_name_and_aliases_and_renders_nothing": _fn_post,
             "accepted_only_when_well_formed": lambda c: _z3.And(_z3.Not(_fn_syntax_error(c)), _z3.Not(_fn_runtime_error(c)))},
)


# ================================================================================================ DynamicComponent (pass-through)
# From the property: rendering through the dynamic component with `is=` naming a component gives the same result as the plain tag.
# Proved here: the dynamic component hands EXACTLY its own positional arguments, its keyword arguments minus `is`, its slots, its
# render type / render_dependencies setting, its registered name, outer context and registry to the component named by `is`, and
# outputs what that component renders.
DYN = "django_components.components.dynamic"
DYNOBJ = Obj("DynamicComponentInstance")
KWARGS_D = Dict(Str, Any_)
ARGS_D = Seq(Any_)
CLSV = Obj("ResolvedComponentClass")
_I = _z3.IntSort()


def _resolve_stub(run, obj, args, kwargs, node):
    from pyvc.interp import ExcVal, PyRaise
    if run.choose(2, None) == 1:
        raise PyRaise(ExcVal("NotRegistered", [], site="_resolve_component"))
    run.ghost["resolved_from"] = run.coerce(args[0], _TAny)
    return Val(CLSV, ops.uf("resolved_component_class", _PV, CLSV.sort())(run.coerce(args[0], _TAny).t))


REG.stub(("method", "DynamicComponentInstance", "_resolve_component"), _resolve_stub)
REG.stub(("getattr", "DynamicComponentInstance", "name"), lambda run, obj, node: Val(TStr, _z3.FreshConst(_S, "dyn_name")))


def _dyn_gcd_post(c):
    res = c["result"]
    if not (isinstance(res, Conc) and isinstance(res.obj, tuple) and res.obj[0] == "dictlit"):
        return _z3.BoolVal(False)
    items = {(_z3.simplify(k.t).as_string() if _z3.is_string_value(_z3.simplify(k.t)) else None): v for k, v, _n in res.obj[1]}
    if set(items) != {"comp_class", "args", "kwargs"}:
        return _z3.BoolVal(False)
    kw0 = c.old("kwargs").t
    kw1 = c.run.coerce(items["kwargs"], KWARGS_D).t
    k = _z3.Const("bv_k", _S)
    isk = _z3.StringVal("is")
    is_val = _z3.Select(KWARGS_D.val(kw0), isk)
    return _z3.And(
        c.run.coerce(items["args"], ARGS_D).t == c.old("args").t,
        _z3.ForAll([k], _z3.And(_z3.Select(KWARGS_D.has(kw1), k) == _z3.And(k != isk, _z3.Select(KWARGS_D.has(kw0), k)),
                                _z3.Implies(_z3.And(k != isk, _z3.Select(KWARGS_D.has(kw0), k)), _z3.Select(KWARGS_D.val(kw1), k) == _z3.Select(KWARGS_D.val(kw0), k)))),
        c.run.coerce(items["comp_class"], CLSV).t == ops.uf("resolved_component_class", _PV, CLSV.sort())(is_val))


def _is_missing(c):
    kw0 = c.old("kwargs").t
    v = _z3.Select(KWARGS_D.val(kw0), _z3.StringVal("is"))
    from pyvc import ops as _ops
    return _z3.Or(_z3.Not(_z3.Select(KWARGS_D.has(kw0), _z3.StringVal("is"))), _z3.Not(_ops.truth(c.run, Val(_TAny, v))))


REG.contract(
    f"{DYN}:DynamicComponent.get_context_data", prop=P, types={"args": ARGS_D, "registry": Any_, "kwargs": KWARGS_D}, self_type=DYNOBJ,
    modifies=[], raises={"TypeError": _is_missing, "NotRegistered": None},
    ensures={"arguments_minus_is_handed_through_and_class_resolved_from_is": _dyn_gcd_post,
             "accepted_only_with_is": lambda c: _z3.Not(_is_missing(c))},
)


from contracts.stubs_django import lookup as _lookup, visible as _visible, dicts_of as _dicts_of  # noqa: E402


def _attr(name, sort=None):
    return lambda run, obj, node: Val(_TAny, ops.uf("dynamic_self_" + name, DYNOBJ.sort(), _PV)(obj.t))


for _a in ("registered_name", "outer_context", "registry"):
    REG.stub(("getattr", "DynamicComponentInstance", _a), _attr(_a))
REG.stub(("getattr", "DynamicComponentInstance", "input"), lambda run, obj, node: Conc(("obj_kind", "dyn_input", obj)))
for _a in ("context", "slots", "type", "render_dependencies"):
    REG.stub(("getattr", "conc:obj_kind:dyn_input", _a), (lambda a: lambda run, obj, node: Val(_TAny, ops.uf("dynamic_input_" + a, DYNOBJ.sort(), _PV)(obj.obj[2].t)))(_a))


def _inner_construct(run, args, kwargs, node):
    for k in ("registered_name", "outer_context", "registry"):
        run.ghost["inner_" + k] = kwargs[k]
    run.ghost["inner_class"] = run.call_frame.lookup("comp_class")
    return Conc(("obj_kind", "inner_component"))


def _inner_render(run, obj, args, kwargs, node):
    from pyvc.interp import ExcVal, PyRaise
    for k in ("context", "args", "kwargs", "slots", "escape_slots_content", "type", "render_dependencies"):
        run.ghost["inner_render_" + k] = kwargs[k]
    if run.choose(2, None) == 1:
        raise PyRaise(ExcVal("Any", [], site="inner component render (user code)"))
    out = Val(TStr, _z3.FreshConst(_S, "inner_output"))
    run.ghost["inner_output"] = out
    return out


REG.stub(("method", "conc:obj_kind:inner_component", "render"), _inner_render)


def _orb_post(c):
    s = c.old("self").t
    g = c.ghost
    if "inner_output" not in g:
        return _z3.BoolVal(False)
    D0 = _z3.Select(c.field(CTX, "dicts", True), c.old("context").t)
    from contracts.stubs_django import ctx_axioms as _ax, ctx_idx as _idx, layer_val as _lv
    _ax(c.run, D0)
    look = lambda key: _lv(D0, _idx(D0, _z3.StringVal(key)), _z3.StringVal(key))
    gv = lambda name: c.run.coerce(g[name], _TAny).t
    selfattr = lambda a: ops.uf("dynamic_self_" + a, DYNOBJ.sort(), _PV)(s)
    inp = lambda a: ops.uf("dynamic_input_" + a, DYNOBJ.sort(), _PV)(s)
    D1 = _z3.Select(c.field(CTX, "dicts"), c.old("context").t)
    _ax(c.run, D1)
    out_key = _z3.StringVal("output")
    return _z3.And(
        gv("inner_class") == look("comp_class"), gv("inner_render_args") == look("args"), gv("inner_render_kwargs") == look("kwargs"),
        gv("inner_registered_name") == selfattr("registered_name"), gv("inner_outer_context") == selfattr("outer_context"), gv("inner_registry") == selfattr("registry"),
        gv("inner_render_context") == inp("context"), gv("inner_render_slots") == inp("slots"), gv("inner_render_type") == inp("type"),
        gv("inner_render_render_dependencies") == inp("render_dependencies"),
        _z3.Not(c.run.truth(g["inner_render_escape_slots_content"])),
        _idx(D1, out_key) >= 0, _lv(D1, _idx(D1, out_key), out_key) == _PV.StrV(g["inner_output"].t),
        c["result"].t == c.old("context").t)


def _orb_requires(c):
    D0 = _z3.Select(c.field(CTX, "dicts"), c["context"].t)
    from contracts.stubs_django import ctx_axioms as _ax, ctx_idx as _idx
    _ax(c.run, D0)
    # get_context_data's result is in the Context (it is what _render_impl pushed): the three keys are visible
    return _z3.And(c["context"].t > 0, _z3.Length(D0) >= 1, *[_idx(D0, _z3.StringVal(k)) >= 0 for k in ("comp_class", "args", "kwargs")])


REG.contract(
    f"{DYN}:DynamicComponent.on_render_before", prop=P, types={"context": Ref(CTX), "template": Obj("Template")}, result=Ref(CTX), self_type=DYNOBJ,
    calls={"comp_class": _inner_construct},
    requires=[_orb_requires], modifies=[f"{CTX}.dicts"], raises={"Any": None},
    ensures={"inner_component_gets_exactly_the_dynamic_components_inputs_and_its_output_is_the_output": _orb_post},
)

# contracts.c01b (SlotNode.render) is NOT registered: the unit did not finish within 25 minutes (DESIGN 9.5a, cost note)
