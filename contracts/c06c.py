"""C06 - the callback that releases a component's per-render state: Component._render_impl.on_component_rendered.

From the property ("the library retains no per-render state ... for an exception raised at any user-code point (... hooks ...)"):
when the callback returns, the entry of THIS render is gone from component_context_cache (every other entry untouched), the
render's provide references have been released (unregister_provide_reference called once, with this render id), and the
output is what on_render_after returned, or the html it was given when the hook returned None.  And the same must hold when
the hook RAISES (exceptional postconditions below).  On the unchanged tree it did not: the two release statements came after the
hook and were skipped - refuted here, confirmed natively (a component whose on_render_after raises left its entry behind), repaired
with a try / finally (known_findings: fixed C06).  The other ways a render can fail (F-C06a) are not repaired by this.
"""
import z3

from pyvc import ops
from pyvc.contracts import REG, Any_, Bool, Dict, Int, Obj, Opt, Ref, Seq, Str
from pyvc.interp import ExcVal, PyRaise
from pyvc.types import NONE, Conc, TBool, TInt, TOpt, TStr, Val

P = "C06"
COMP = "django_components.component"
S, I, B = z3.StringSort(), z3.IntSort(), z3.BoolSort()
OS = TOpt(TStr)
CCTX = Obj("ComponentContextEntry")
CACHE = Dict(Str, CCTX)
SELF = Obj("ComponentInstanceObj")


def _with_metadata(run, args, kwargs, node):
    """self._with_metadata(metadata): its own contract (c06) - the stack is restored on every exit, nothing is swallowed"""
    def enter():
        return NONE

    def exit_(exc):
        return False
    return Conc(("cm", enter, exit_))


def _hook(run, args, kwargs, node):
    """self.on_render_after(context, template, html): user code; GHOST: what it was given"""
    run.ghost["hook_args"] = list(args)
    n = run.ghost.get("hook_calls")
    run.ghost["hook_calls"] = Val(TInt, (n.t if n is not None else z3.IntVal(0)) + 1)
    if run.choose(2, None) == 1:
        raise PyRaise(ExcVal("Any", [], site="on_render_after (user hook)"))
    r = Val(OS, z3.FreshConst(OS.sort(), "hook_result"))
    run.ghost["hook_result"] = r
    return r


def _unregister(run, args, kwargs, node):
    n = run.ghost.get("unregister_calls")
    run.ghost["unregister_calls"] = Val(TInt, (n.t if n is not None else z3.IntVal(0)) + 1)
    run.ghost["unregister_arg"] = run.coerce(args[0], TStr)
    return NONE


REG.stub(("new", "InternalSettings"), lambda run, args, kwargs, node: Conc(("obj_kind", "app_settings")))
REG.stub(("getattr", "conc:obj_kind:app_settings", "DEBUG_HIGHLIGHT_COMPONENTS"), lambda run, obj, node: Val(TBool, z3.BoolVal(False)))      # A-LOG


def _released(c):
    g0, g = c.old("component_context_cache").t, c["component_context_cache"].t
    rid = c.run.globals["render_id"].t
    k = z3.Const("bv_k", S)
    return z3.And(z3.Not(z3.Select(CACHE.has(g), rid)),
                  z3.ForAll([k], z3.Implies(k != rid, z3.And(z3.Select(CACHE.has(g), k) == z3.Select(CACHE.has(g0), k), z3.Select(CACHE.val(g), k) == z3.Select(CACHE.val(g0), k)))))


def _post(c):
    hr = c.ghost["hook_result"].t
    a = c.ghost["hook_args"]
    return z3.And(c.ghost["hook_calls"].t == 1, c.run.coerce(a[2], TStr).t == c.old("html").t,
                  a[0].t == c.run.globals["context_snapshot"].t, a[1].t == c.run.globals["template"].t,
                  c.ghost["unregister_calls"].t == 1, c.ghost["unregister_arg"].t == c.run.globals["render_id"].t,
                  c["result"].t == z3.If(OS.is_none(hr), c.old("html").t, OS.get(hr)))


REG.contract(
    f"{COMP}:Component._render_impl.on_component_rendered", prop=P, types={"html": Str}, result=Str,
    globals={"component_context_cache": CACHE, "render_id": Str, "context_snapshot": Obj("ContextSnapshot"), "template": Obj("TemplateObj"),
             "metadata": Obj("MetadataItem2"), "self": SELF},
    calls={"self._with_metadata": _with_metadata, "self.on_render_after": _hook, "unregister_provide_reference": _unregister},
    # established by _render_impl before it registers the callback: the entry of this render exists
    requires=[lambda c: z3.Select(CACHE.has(c["component_context_cache"].t), c.run.globals["render_id"].t)],
    modifies=["component_context_cache"], raises={"Any": None},
    ensures={"entry_of_this_render_released_and_no_other_entry_touched": _released,
             "hook_called_once_provide_references_released_once_output_is_the_hooks_or_the_html": _post},
    xensures={"Any": {"entry_of_this_render_released_also_when_the_hook_raises": lambda c: z3.Not(z3.Select(CACHE.has(c["component_context_cache"].t), c.run.globals["render_id"].t)),
                      "provide_references_released_also_when_the_hook_raises": lambda c: z3.And(c.ghost["unregister_calls"].t == 1, c.ghost["unregister_arg"].t == c.run.globals["render_id"].t) if "unregister_calls" in c.ghost else z3.BoolVal(False)}},
)


@REG.replay(f"{COMP}:Component._render_impl.on_component_rendered")
def _replay_release(model, ob):
    """components whose on_render_after returns None / a string / raises, alone and nested: afterwards no entry of the render is left"""
    from django.conf import settings
    if not settings.configured:
        from tests.django_test_setup import setup_test_config
        setup_test_config({"autodiscover": False})
    from django_components import Component, register
    from django_components.perfutil.component import component_context_cache
    import django_components.perfutil.provide as pv
    for mode in ("none", "text", "raise"):
        class Inner(Component):
            template = "<i>x</i>"

            def on_render_after(self, context, template, content):
                if mode == "raise":
                    raise KeyError("boom")
                return "<b>y</b>" if mode == "text" else None
        before = (len(component_context_cache), len(pv.provide_references), len(pv.all_reference_ids))
        try:
            out = Inner.render()
            got = "raised nothing" if mode == "raise" else None
            if mode == "text" and "<b" not in out or mode == "none" and "<i" not in out:
                got = f"output {out!r}"
        except KeyError:
            got = None if mode == "raise" else "KeyError"
        after = (len(component_context_cache), len(pv.provide_references), len(pv.all_reference_ids))
        for k in list(component_context_cache)[before[0]:]:
            component_context_cache.pop(k, None)
        if got or after != before:
            return {"confirmed": True, "function": "on_component_rendered (through Component.render)", "inputs": {"on_render_after": mode},
                    "expected": "per-render registries as before the render", "observed": got or f"(context cache, provide references, reference ids) {before} -> {after}"}
    return {"confirmed": False}


# ---- on_html_rendered: the last step of a top-level render (C08: whether dependencies are rendered at all is the caller's flag)
def _rd(run, args, kwargs, node):
    k = run.ghost.get("rd_calls")
    run.ghost["rd_calls"] = Val(TInt, (k.t if k is not None else z3.IntVal(0)) + 1)
    if run.choose(2, None) == 1:
        raise PyRaise(ExcVal("Any", [], site="render_dependencies"))
    return Val(TStr, ops.uf("render_dependencies_of", S, S, S)(run.coerce(args[0], TStr).t, run.coerce(args[1], TStr).t))


REG.contract(
    f"{COMP}:Component._render_impl.on_html_rendered", prop=P, types={"html": Str}, result=Str,
    globals={"render_dependencies": Bool, "type": Str}, calls={"_render_dependencies": _rd},
    modifies=[], raises={"Any": None},
    ensures={"dependencies_rendered_exactly_when_asked_with_the_callers_type_else_html_unchanged": lambda c: c["result"].t == z3.If(
        c.run.globals["render_dependencies"].t, ops.uf("render_dependencies_of", S, S, S)(c.old("html").t, c.run.globals["type"].t), c.old("html").t)},
)
